#!/bin/bash
# tools/runall.sh <seed> [ids...]  : run quick tier of every (given) check sequentially, log one summary line each
seed=${1:-1}; shift
ids="$@"
if [ -z "$ids" ]; then ids=$(ls /verif/vlib/props/c[0-9]*_*.py | sed 's/.*\/c\([0-9]*\)_.*/C\1/' | sort -u); fi
mkdir -p /verif/.work/runall
for id in $ids; do
  t0=$(date +%s)
  out=/verif/.work/runall/${id}_s${seed}.log
  VERIF_SEED=$seed /verif/check $id --tier quick > $out 2>&1
  rc=$?
  t1=$(date +%s)
  echo "$id seed=$seed rc=$rc wall=$((t1-t0))s $(grep -c '^VIOLATION' $out) viol; $(grep -c '^KNOWN-FINDING' $out) known; $(tail -1 $out | cut -c1-160)"
done
