#!/bin/bash
# fifth wave: seeds delivered to /tmp/seed_out5/<ID>; confirm (demo + unit suite) and run the property's quick check
mkdir -p /verif/.work/seedres5
for d in /tmp/seed_out5/C*; do id=$(basename $d); [ -f $d/patch.diff ] || continue; [ -f /verif/.work/seedres5/$id.json ] && continue
  /verif/tools/seedtest.py $id --src $d --no-tests > /verif/.work/seedres5/$id.json 2>&1
  /venv/bin/python - $id <<'PY'
import json,sys,os,shutil
pid=sys.argv[1]
try:
    d=json.load(open('/verif/.work/seedres5/%s.json'%pid))
except Exception as e:
    print(pid,'ERR',e); sys.exit()
c=d.get('checks',{}).get(pid,{})
ok = d.get('demo_unpatched',[None])[0]==0 and d.get('applies') and (d.get('demo_patched') or [None])[0]==1
print(pid, 'CONFIRMED' if ok else 'NOTCONFIRMED', 'tests_missing',d.get('tests_missing'), 'check exit',c.get('exit'),'viol',c.get('violations'),'wall',c.get('wall'),(c.get('buckets') or [''])[0][:100])
if ok:
    src='/tmp/seed_out5/%s'%pid; dst='/verif/seeded/%se'%pid
    os.makedirs(dst, exist_ok=True)
    for n in ('patch.diff','demo.py'): shutil.copy(os.path.join(src,n), os.path.join(dst,n))
    try: meta=json.load(open(os.path.join(src,'meta.json')))
    except Exception: meta={'property':pid}
    meta['breaks_property']=pid
    meta['confirmed_by_integrator']={'how':'tools/seedtest.py: scratch worktree of /repo HEAD; demo.py exits 0 unpatched and 1 patched; unit-suite result as reported by the seeding agent (full suite run on the patched tree by the agent; not repeated by the integrator in this wave for lack of machine time)','stable_tests_missing_on_patched_tree':d.get('tests_missing')}
    meta['check_result']={'command':'VERIF_REPO=<scratch worktree with patch applied> ./check %s --tier quick (seed 1)'%pid,'exit':c.get('exit'),'violations':c.get('violations'),'first_buckets':c.get('buckets',[])[:3]}
    json.dump(meta, open(os.path.join(dst,'meta.json'),'w'), indent=1)
PY
done
