#!/bin/bash
# tools/seedall.sh [ids...] : run each seeded change against its property's quick check (scratch worktree)
ids="$@"; [ -z "$ids" ] && ids=$(ls /verif/seeded)
mkdir -p /verif/.work/seedres
for id in $ids; do
  /verif/tools/seedtest.py $id --no-tests > /verif/.work/seedres/$id.json 2>&1
  /venv/bin/python - $id <<'PY'
import json,sys
pid=sys.argv[1]
try:
    d=json.load(open('/verif/.work/seedres/%s.json'%pid))
    c=d.get('checks',{}).get(pid,{})
    print(pid, 'applies' if d.get('applies') else 'NOAPPLY', 'exit',c.get('exit'), 'viol',c.get('violations'), 'wall',c.get('wall'), (c.get('buckets') or [''])[0][:110])
except Exception as e:
    print(pid,'ERR',e)
PY
done
