#!/venv/bin/python
"""Regenerate MANIFEST.json from the property modules present under vlib/props."""
import os, sys, json, glob, importlib
HERE = os.path.dirname(os.path.dirname(os.path.abspath(__file__)))
sys.path[:0] = ['/repo', HERE]
props = [json.loads(l) for l in open(os.path.join(HERE, 'properties.jsonl'))]
mods = {}
for path in sorted(glob.glob(os.path.join(HERE, 'vlib', 'props', 'c[0-9]*_*.py'))):
    m = importlib.import_module('vlib.props.' + os.path.basename(path)[:-3])
    mods[m.ID] = m
NA_REASONS = json.load(open(os.path.join(HERE, 'tools', 'not_applicable.json')))
checks, na = [], []
for p in props:
    pid = p['id']
    m = mods.get(pid)
    if m is None or getattr(m, 'DISABLED', False):
        na.append({'property_id': pid, 'reason': NA_REASONS.get(pid, 'no check is registered for this property yet (machinery under construction); nothing is claimed')})
        continue
    checks.append({
        'property_id': pid,
        'quick_cmd': './check %s --tier quick' % pid,
        'thorough_cmd': './check %s --tier thorough' % pid,
        'evidence_file': 'evidence/%s.json' % pid,
        'replay_cmd_template': './check %s --replay {path}' % pid,
        'engine': 'vlib',
        'level_claimed': {
            'category': getattr(m, 'LEVEL', 'exploration'),
            'text': getattr(m, 'LEVEL_TEXT', 'Generated-input search against an explicit oracle: ' + m.RULE),
            'design_ref': 'DESIGN.md section 2, ' + pid,
        },
        'level_note': getattr(m, 'LEVEL_NOTE', '; '.join(getattr(m, 'ASSUMPTIONS', [])) or 'oracle written from the property statement and the GW-BASIC manual; pcbasic imported from /repo working tree'),
        'technique': getattr(m, 'TECHNIQUE', 'property-based testing (Hypothesis / enumeration) against a reference model'),
    })
manifest = {
    'version': 1,
    'setup_cmd': './setup.sh',
    'hooks': {
        'guard': 'PCBASIC_VERIF',
        'enable': 'no source hooks exist: checks import pcbasic from /repo working tree and instrument sessions from outside (instance attributes, audit hooks, recording queues); ./check exports PCBASIC_VERIF=1 for completeness',
        'baseline_off_cmd': '/verif/tools/baseline.py',
        'source_commits': [],
        'add_only': True,
    },
    'engines': [{
        'name': 'vlib', 'path': 'vlib/run.py',
        'serves_properties': [c['property_id'] for c in checks],
        'kind_free_text': 'Python runner: sharded Hypothesis strategies / enumerations / operation-sequence machines judged by per-property oracles; collects failure buckets, shrinks, writes replay JSON and evidence',
    }],
    'checks': checks,
    'not_applicable': na,
    'notes': 'See DESIGN.md. known_findings.json lists open findings (suppressed by exact bucket key) and fixed ones (kept as regression cases). seeded/ holds independently written breaking changes used to test sensitivity.',
}
json.dump(manifest, open(os.path.join(HERE, 'MANIFEST.json'), 'w'), indent=1)
print('checks: %d  not_applicable: %d' % (len(checks), len(na)))
