#!/venv/bin/python
"""
Confirm a seeded breaking change and run the property check against it.

  tools/seedtest.py <ID> [--src DIR] [--tier quick] [--no-tests] [--seed N] [--checks C01,C10]

DIR (default /verif/seeded/<ID>, else /tmp/seed_out/<ID>) holds patch.diff, demo.py, meta.json.
Works in a scratch git worktree of /repo HEAD under /tmp (removed afterwards); the check imports
pcbasic from there through VERIF_REPO, so /repo itself is never touched.
"""
import os, sys, json, subprocess, shutil, argparse, time
import xml.etree.ElementTree as ET

ap = argparse.ArgumentParser()
ap.add_argument('pid')
ap.add_argument('--src')
ap.add_argument('--tier', default='quick')
ap.add_argument('--no-tests', action='store_true')
ap.add_argument('--seed', default='1')
ap.add_argument('--checks', default=None)
ap.add_argument('--jobs', default='16')
args = ap.parse_args()
pid = args.pid
src = args.src or ('/verif/seeded/%s' % pid if os.path.isdir('/verif/seeded/%s' % pid)
                   else '/tmp/seed_out/%s' % pid)
wt = '/tmp/sw_%s_%d' % (pid, os.getpid())


def sh(cmd, **kw):
    return subprocess.run(cmd, shell=True, stdout=subprocess.PIPE, stderr=subprocess.STDOUT,
                          universal_newlines=True, **kw)


def demo(tree):
    env = dict(os.environ, PYTHONPATH=tree, PYTHONHASHSEED='0')
    try:
        r = subprocess.run(['/venv/bin/python', os.path.join(src, 'demo.py')], env=env, cwd='/tmp',
                           stdout=subprocess.PIPE, stderr=subprocess.STDOUT,
                           universal_newlines=True, timeout=300)
        return r.returncode, r.stdout[-300:]
    except subprocess.TimeoutExpired:
        return 'timeout', ''


def unit_tests(tree):
    base = json.load(open('/root/.vp/BASELINE.json'))
    junit = '/tmp/junit_%d.xml' % os.getpid()
    sh('cd %s && /venv/bin/python -m pytest -q -p no:cacheprovider --timeout=900 '
       '--continue-on-collection-errors --junitxml=%s' % (tree, junit))
    passed = set()
    for tc in ET.parse(junit).getroot().iter('testcase'):
        if not any(ch.tag in ('failure', 'error', 'skipped') for ch in tc):
            passed.add('%s::%s' % (tc.get('classname'), tc.get('name')))
    os.unlink(junit)
    return [t for t in base['stable_pass'] if t not in passed and 'test_interactive_shell' not in t]


result = {'property': pid, 'src': src}
try:
    r = sh('git -C /repo worktree add -q --detach %s HEAD' % wt)
    assert r.returncode == 0, r.stdout
    result['demo_unpatched'] = demo(wt)
    r = sh('git -C %s apply %s/patch.diff' % (wt, src))
    if r.returncode != 0:
        r = sh('git -C %s apply --3way %s/patch.diff' % (wt, src))
    result['applies'] = (r.returncode == 0)
    if r.returncode != 0:
        result['apply_error'] = r.stdout[-400:]
    else:
        result['demo_patched'] = demo(wt)
        if not args.no_tests:
            result['tests_missing'] = unit_tests(wt)
        checks = (args.checks.split(',') if args.checks else [pid])
        if args.checks == 'NONE':
            checks = []
        result['checks'] = {}
        for c in checks:
            t0 = time.time()
            env = dict(os.environ, VERIF_REPO=wt, VERIF_SEED=args.seed)
            r = subprocess.run(['/verif/check', c, '--tier', args.tier, '--jobs', args.jobs],
                               env=env, stdout=subprocess.PIPE,
                               stderr=subprocess.STDOUT, universal_newlines=True)
            viol = [l for l in r.stdout.splitlines() if l.startswith('VIOLATION')]
            buckets = [l.strip()[:300] for l in r.stdout.splitlines() if l.startswith('  bucket')]
            result['checks'][c] = {'exit': r.returncode, 'violations': len(viol),
                                   'buckets': buckets[:6], 'wall': round(time.time() - t0, 1),
                                   'tail': r.stdout[-300:] if r.returncode not in (0, 1) else ''}
finally:
    sh('git -C /repo worktree remove --force %s' % wt)
    shutil.rmtree(wt, ignore_errors=True)
    # replay files written for the mutant are not evidence about /repo
    for c in ([] if args.checks == 'NONE' else args.checks.split(',') if args.checks else [pid]):
        d = '/verif/replays/%s' % c
        if os.path.isdir(d):
            for f in os.listdir(d):
                if f.startswith('viol_'):
                    os.unlink(os.path.join(d, f))
print(json.dumps(result, indent=1))
