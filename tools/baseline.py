#!/venv/bin/python
"""Run the repository's pinned test suite (guard off) and compare with BASELINE.json stable_pass."""
import json, os, subprocess, sys, tempfile
import xml.etree.ElementTree as ET

base = json.load(open('/root/.vp/BASELINE.json'))
fd, junit = tempfile.mkstemp(suffix='.xml'); os.close(fd)
env = dict(os.environ)
env.pop('PCBASIC_VERIF', None)
cmd = base['cmd'].replace('<file>', junit)
subprocess.run(cmd, shell=True, env=env, stdout=subprocess.DEVNULL, stderr=subprocess.DEVNULL)
passed = set()
for tc in ET.parse(junit).getroot().iter('testcase'):
    if not any(ch.tag in ('failure', 'error', 'skipped') for ch in tc):
        passed.add('%s::%s' % (tc.get('classname'), tc.get('name')))
os.unlink(junit)
missing = [t for t in base['stable_pass'] if t not in passed]
# timing-dependent tests (interactive shell) can fail when the machine is loaded: retry alone
still = []
for t in missing:
    cls, name = t.split('::')
    parts = cls.split('.')
    nodeid = '/'.join(parts[:-1]) + '.py::' + parts[-1] + '::' + name
    for _ in range(4):
        r = subprocess.run('cd /repo && /venv/bin/python -m pytest -q -p no:cacheprovider '
                           '--continue-on-collection-errors "%s"' % nodeid, shell=True, env=env,
                           stdout=subprocess.DEVNULL, stderr=subprocess.DEVNULL)
        if r.returncode == 0:
            print('  (passed on retry alone: %s)' % t)
            break
    else:
        still.append(t)
missing = still
print('baseline: %d/%d stable tests pass' % (len(base['stable_pass']) - len(missing), len(base['stable_pass'])))
for m in missing:
    print('  MISSING', m)
sys.exit(1 if missing else 0)
