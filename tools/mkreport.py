#!/venv/bin/python
"""Print the per-property status table for DESIGN.md section 8 from evidence/, seeded/ and the modules."""
import os, sys, json, glob, importlib
HERE = os.path.dirname(os.path.dirname(os.path.abspath(__file__)))
sys.path[:0] = ['/repo', HERE]
rows = []
for path in sorted(glob.glob(os.path.join(HERE, 'vlib', 'props', 'c[0-9]*_*.py'))):
    m = importlib.import_module('vlib.props.' + os.path.basename(path)[:-3])
    pid = m.ID
    try:
        ev = json.load(open(os.path.join(HERE, 'evidence', pid + '.json')))
        cov = ev['coverage']
        evals, nt, wall = cov['evaluations'], cov['distinct_nontrivial'], ev['wall_s']
        units = ', '.join('%s' % u for u in cov.get('units', {}) if u != 'regressions')
    except Exception:
        evals = nt = wall = '?'; units = ''
    seeds = []
    for suffix in ('', 'b', 'c', 'd', 'e'):
        mp = os.path.join(HERE, 'seeded', pid + suffix, 'meta.json')
        if not os.path.exists(mp):
            continue
        meta = json.load(open(mp))
        cr = meta.get('check_result', {})
        if meta.get('status', '').startswith('superseded'):
            s = 'superseded'
        elif meta.get('status', '').startswith('not caught by design'):
            s = 'not caught by design'
        elif cr.get('exit') == 1:
            b = (cr.get('first_buckets') or [''])[0]
            b = b.replace('bucket ', '').split(':')[0][:45]
            s = 'caught (`%s`)' % b + (' after strengthening' if cr.get('history') else '')
        elif cr.get('exit') == 0:
            s = 'NOT caught'
        else:
            s = '?'
        seeds.append('%s%s: %s' % (pid, suffix or 'a', s))
    kills = len(getattr(m, 'KILLS', []))
    rows.append((pid, units, evals, nt, wall, kills, '; '.join(seeds)))
print('| ID | units (quick tier) | evaluations | distinct non-trivial | wall s | hand mutations recorded | seeded changes |')
print('|---|---|---|---|---|---|---|')
for r in rows:
    print('| %s | %s | %s | %s | %s | %s | %s |' % r)
