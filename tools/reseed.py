#!/venv/bin/python
"""Re-run the quick check against stored seeded changes (seeded/<NAME>) and update their meta.json.

usage: tools/reseed.py C01d C03d ...   (NAME = property id + wave suffix)
A seed that was missed before and is caught now gets a 'history' note; nothing else is rewritten.
"""
import os, sys, json, subprocess
HERE = os.path.dirname(os.path.dirname(os.path.abspath(__file__)))
for name in sys.argv[1:]:
    pid = name[:3]
    d = os.path.join(HERE, 'seeded', name)
    out = subprocess.run([os.path.join(HERE, 'tools', 'seedtest.py'), pid, '--src', d, '--no-tests'],
                         capture_output=True, text=True).stdout
    try:
        res = json.loads(out)
    except Exception:
        print(name, 'ERR', out[-300:]); continue
    c = res.get('checks', {}).get(pid, {})
    mp = os.path.join(d, 'meta.json')
    meta = json.load(open(mp))
    old = meta.get('check_result', {})
    new = {'command': 'tools/seedtest.py: VERIF_REPO=<scratch worktree of /repo HEAD with patch.diff applied> ./check %s --tier quick (seed 1)' % pid,
           'exit': c.get('exit'), 'violations': c.get('violations'), 'first_buckets': c.get('buckets', [])[:3]}
    if old.get('history'):
        new['history'] = old['history']
    elif old.get('exit') == 0 and c.get('exit') == 1:
        new['history'] = 'missed by the earlier version of the check (exit 0); caught after the check was strengthened (see DESIGN.md section 8)'
    meta['check_result'] = new
    json.dump(meta, open(mp, 'w'), indent=1)
    print(name, 'demo', res.get('demo_unpatched', [None])[0], (res.get('demo_patched') or [None])[0],
          'check exit', c.get('exit'), 'viol', c.get('violations'), 'wall', c.get('wall'), (c.get('buckets') or [''])[0][:120])
