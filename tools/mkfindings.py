#!/venv/bin/python
"""
Regenerate known_findings.json from the table below (edited by hand; never at check run time).

Each row: (properties, key, status, commit, what). A row with several properties is expanded to one
entry per property. 'fixed' entries suppress nothing; they document the fix commit and the bucket
that the property module's REGRESSIONS case falls in should the defect return.
"""
import json, os

F = 'fixed'
O = 'open'
ROWS = [
 (['C02', 'C19'], 'for.sequence', F, '51068ba5', 'FOR I%=-50 TO -32768 STEP -256 wrapped to 32718 instead of raising Overflow (Integer.iadd never detected negative overflow)'),
 (['C01', 'C44'], 'escaped.ValueError@clock.py:time_', F, '8babcf7d', 'TIME$="-1:00:00" escaped as ValueError instead of Illegal function call'),
 (['C01'], 'escaped.TypeError@machine.py:_get_memory', F, 'aff66908', 'default Session(): PRINT PEEK(0) escaped as TypeError (peek_values=None)'),
 (['C01', 'C44'], 'escaped.ValueError@python3.py:setenvu', F, '44c4f3b6', 'ENVIRON "a=b"+CHR$(0) escaped as ValueError (embedded null byte)'),
 (['C01', 'C14'], 'escaped.KeyError@interpreter.py:renum_', F, '3076c9fb', 'RENUM with an ON ERROR / ON KEY line outside the renumbered range escaped as KeyError'),
 (['C04', 'C05'], 'mul.double.underflow-band', F, '9479e0ab', 'double products with exact value in [2^-128, 2^-96) returned 0 (1D-31*1# = 0; x*1 = 0)'),
 (['C01', 'C18'], 'escaped.AttributeError@values.py:imp_', F, '916ec638', '1 IMP "a" escaped as AttributeError instead of Type mismatch'),
 (['C11'], 'peek.array.second', F, '25ee326e', 'with two arrays PEEK(VARPTR(B%(1))) returned bytes of the first array\'s record'),
 (['C11', 'C33'], 'draw.x-substring.array', F, '2b9a5f90', 'DRAW "X"+VARPTR$(A$(1)) with two string arrays executed the contents of the other array (Arrays.dereference)'),
 (['C26'], 'lock.containing-accepted', F, '4d4fdd37', 'LOCK #1,3 TO 4 then LOCK #2,2 TO 5 was accepted (only endpoints were tested)'),
 (['C24'], 'inputstr.crlf-inside-chunk', F, '23cca69d', 'file ab CR LF cd CR LF read with INPUT$(5,#1) gave ab CR CR c (CR LF only folded at chunk start)'),
 (['C25'], 'put.gap.small-file', F, '24257d3f', 'LEN=2, 2-byte file, PUT #1,5 wrote the record into slot 4 (record index compared with byte length)'),
 (['C10', 'C01'], 'escaped.KeyError@strings.py:_retrieve', F, '23d8c7a7', 'RIGHT$("abc",0) / LEFT$(x,0) / MID$ past end / INSTR early return, then a garbage collection: KeyError Dereferencing detached string'),
 (['C22'], 'syntax-error.line.first-item-of-data', F, 'e13220fb', '10 READ A$,B / 20 DATA x / 30 DATA y reported Syntax error in 20 (should name 30)'),
 (['C35'], 'scroll.background.pixels', F, '3d0797ac', 'text scroll with COLOR 7,1 left attribute-0 pixels in the emulator buffer while the display was told to paint 1'),
 (['C40'], 'tamper.accepted.format_version', F, '68d5bb59', 'altering bytes 4-7 (format_version) of a state file still loaded'),
 (['C40'], 'diff.*.after-jump', F, '498e4eab', 'Exit at the boundary right after GOTO / IF..THEN n / NEXT / RETURN resumed after the jumping statement (jump lost)'),
 (['C29'], 'data.len254.next-file-lost', F, 'cbc1ad73', 'a cassette text file of 255k-1 bytes got no closing record: next file header read as data, next file lost'),
 (['C17', 'C13', 'C14'], '*.qmark-in-jump-context', F, '6fde958d', "10 IF A THEN ? 5 stored 5 as a line reference; listing re-entered differently; RENUM rewrote the constant"),
 (['C30', 'C01'], 'page.switch-with-view.AssertionError', F, 'fc57e203', 'SCREEN 7: VIEW (1,1)-(10,10): SCREEN ,,1,0 escaped as AssertionError'),
 (['C36'], 'locate.last-column-after-full-line', F, '7fd0d51c', 'PRINT STRING$(80,"x");:LOCATE 5,80 left CSRLIN=6, POS=1'),
 (['C36', 'C01'], 'modechange.keybar-cursor-beyond-new-width.escaped.IndexError@buffers.py:get_charwidth', F, '9fc6683d', 'KEY ON: LOCATE 1,50: WIDTH 40 escaped as IndexError'),
 (['C36'], 'print.after-cursor-right', F, 'a7ddac9f', 'WIDTH 40: PRINT STRING$(40,"x");CHR$(28);: PRINT "abc"; reports POS=1 but writes from column 2 (overflow flag survives the wrap)'),
 (['C36'], 'window.outside-changed', F, '670b1bda', 'LOCATE 25,61: VIEW PRINT 24 TO 24: PRINT CHR$(13)+"X"; wrote X on row 25 (bottom-row flag survived VIEW PRINT); found by the thorough tier'),
 (['C37'], 'clear.stale-ring16', F, '1579f054', 'POKE 1050,PEEK(1052) with keys waiting delivered the keys plus stale entries'),
 (['C37'], 'clear.keys-remain', F, '1579f054', 'POKE 1050,PEEK(1052) after >= 16 keystrokes discarded nothing'),
 (['C10', 'C01'], 'escaped.KeyError@strings.py:_retrieve.after-error', F, '8b0d6f2c', 'A$="qq"+CHR$(300) then PRINT FRE(""): KeyError (operand stack not released after an error)'),
 (['C10', 'C01'], 'escaped.TypeError@strings.py:is_permanent', F, '43ccddd6', 'garbage collection inside a string expression with no permanent string: TypeError int > None'),
 (['C10'], 'value.*.aliased-gc', F, 'd124a4a2', 'collector stored a string once per pointer: string space overflowed into variables under low memory'),
 (['C27'], 'dotdot-blank.escape', F, '0237db6d', 'OPEN ".. \\SECRET.TXT", KILL, MKDIR, CHDIR ".. " reached files above the mount root'),
 (['C27'], 'basename-dotdot.attempt', F, '0237db6d', 'RMDIR ".." at the drive root issued os.rmdir on the parent of the mount root'),
 (['C13', 'C14', 'C15', 'C22'], '*.rem-byte-in-string', F, 'c95f3f06', 'byte 0x8F inside a string literal hid the rest of the line from DATA search, RENUM and the line dictionary rebuilt on LOAD'),
 (['C10'], 'escaped.KeyError@strings.py:_retrieve.midset-copy-gc', F, '1c276ed0', 'MID$ statement on a code-resident target with a temporary source lost the source during a collection'),
 (['C18'], 'dangling.operator-applied-to-outer-operand', F, '5b77a5ff', 'PRINT 1 OR 0/ printed Division by zero before Missing operand; 2>1 AND "a"< gave Type mismatch'),
 (['C20'], 'result.parameter-read-after-rebinding', F, 'bdb77144', 'X=9:DEF FNA(X)=X:PRINT FNA(3) printed 9; FNB(Y,X) with DEF FNB(X,Y)=X-Y gave 0'),
 (['C20'], 'caller-var.string-parameter-lost-in-gc', F, 'bdb77144', 'a string global named like a parameter was lost when garbage was collected during the call'),
 (['C20', 'C01'], 'gc-after-failed-call.leaked-string-argument', F, 'bdb77144', 'recursion / failing later argument leaked string arguments; the next collection escaped as KeyError'),
 (['C09'], 'string$.empty-char', F, '6560a3b0', 'STRING$(3,"") returned "" instead of Illegal function call'),
 (['C09'], 'midset.position-unchecked-len0', F, '58a8a5a4', 'MID$(A$,0,0)="x" was accepted'),
 (['C19'], 'for.zerotrip-next-list.syntax-error', F, '7a22afc6', '10 FOR I=1 TO 2:FOR J=3 TO 1:NEXT J,I stopped with Syntax error'),
 (['C24', 'C15'], 'lineinput.line-after-255-char-line', F, '8d2b9643', 'LINE INPUT# after a line of exactly 255 characters returned an empty line'),
 (['C24'], 'input.string.leading-crlf-in-quotes', F, '1ba8183c', 'soft_linefeed: WRITE #1,CHR$(13)+CHR$(10) read back as CHR$(13)'),
 (['C27', 'C01'], 'escaped.KeyError@files.py:_get_diskdevice_and_path', F, '4a576eca', 'KILL ":X", CHDIR "CD:SUB", FILES "AB:" escaped as KeyError'),
 (['C35'], 'chars-bytes.scroll-down', F, '9ed66617', 'after a downward scroll get_chars()/SCREEN() kept the old bottom row'),
 (['C35'], 'chars-bytes.after-pcopy', F, '10536925', 'PCOPY shared the unicode text rows between pages'),
 (['C35', 'C33', 'C01'], 'draw.colour-out-of-range.escaped.ValueError@bytematrix.py:__setitem__', F, '2d18f9ce', 'SCREEN 1:DRAW "C256R5" escaped as ValueError'),
 (['C38'], 'timer.elapsed-while-off-fires-at-on', F, '79ed299f', 'a TIMER period that ran out while the trap was OFF fired right after TIMER ON'),
 (['C44'], 'clock.underscore-accepted', F, 'bf6c76bd', 'TIME$="1_0" and DATE$="1_0-1_0-1990" were accepted'),
 (['C40'], 'append-open.*', F, 'd86cb280', 'a file open FOR APPEND at suspend time got a 0x1A embedded in the middle after resume'),
 (['C12'], 'optionbase.explicit-forgotten-after-erase', F, '53d02912', 'DIM A(3): OPTION BASE 0: ERASE A: OPTION BASE 1 was accepted'),
 (['C34', 'C01'], 'escaped.ValueError@framebuffer.py:get_memory', F, '99e0b311', 'SCREEN 1: DEF SEG=&HD400: BSAVE "X",0,100 escaped as ValueError (negative count)'),
 (['C01'], 'escaped.ZeroDivisionError@formatter.py:_print_tab', F, '6e6e639c', 'WIDTH #1,0 then PRINT#1,TAB(5) escaped as ZeroDivisionError'),
 (['C43'], 'set.single.truncated-mantissa', F, 'cfabab43', "set_variable('A!', 180.9972381591797) stored 180.99722290039062 (23-bit truncation in Float.from_value)"),
 (['C23'], 'reset.clear.gosub-stack-survives', F, '1f0151ca', '10 GOSUB 100:PRINT "back":END / 100 CLEAR:RETURN printed back'),
 (['C29'], 'skip.body-not-skipped', F, 'ab228b4a', 'records of a skipped tape file were scanned for headers (count byte 0xA5 taken for a header)'),
 (['C29'], 'timeout.tape-stays-open', F, 'ab228b4a', 'after a search ran off the tape every OPEN on CAS1: failed with File already open'),
 (['C28'], 'dotfile.*', F, '89bac787', 'OPEN ".y" FOR OUTPUT created host file .Y that FILES hides and KILL cannot find'),
 (['C34'], 'block-read.bank-crossing', F, '573ea747', 'cga SCREEN 1: BSAVE "B",&H1F8C,264 held zeros where PEEK returns pixels (block starting mid-bank)'),
 (['C34'], 'block-write.bank-crossing', F, '573ea747', 'BLOAD of a block starting mid-bank dropped the bytes behind the bank boundary'),
 (['C34'], 'block-read.tandy6-odd-address', F, 'fd5cad22', 'Tandy SCREEN 6 block from an odd address read every second byte from the previous byte pair'),
 (['C34'], 'block-write.tandy6-odd-address', F, 'fd5cad22', 'Tandy SCREEN 6 block to an odd address wrote every second byte to the previous byte pair'),
 (['C43'], 'set.single.below-pow2-loses-bit', F, 'dca85c97', "set_variable('A!', 7.999999999999999) stored 7.999999046325684"),
 (['C07'], 'print.double.carry-to-pow10', F, 'f381997f', 'the double 1D+20 - 2ulp printed as 1D+19'),
 (['C08'], 'using.sci.carry-to-pow10', F, 'f381997f', 'PRINT USING "+#.##^^^^"; 9.996 showed +1.00E+00'),
 (['C07'], 'parse.zero-mantissa-posexp', F, '840d7c81', 'VAL("0E5") gave 1.469368E-34'),
 (['C07'], 'parse.double.ulp.ge17digits', F, '840d7c81', 'double literals with >= 17 digits were up to 2.4 ulp off'),
 (['C07'], 'parse.single.ulp.ge8digits', F, '840d7c81', 'single literals whose digits exceed 2^24 were up to 1.2 ulp off'),
 (['C08'], 'using.fixed.round-below-last-decimal', F, '81d93a78', 'PRINT USING "#.##"; .007 showed 0.00'),
 (['C35'], 'chars-bytes.scroll-down.empty-range', F, 'fc1f010e', 'tandy: LOCATE 25 + Ctrl+J blanked row 25 on the display but not in the byte buffer'),
 (['C15', 'C01'], 'escaped.UnboundLocalError@protect.py:unprotect', F, 'e54c752d', 'LOAD of a file consisting of FE alone escaped as UnboundLocalError'),
 (['C15'], 'cipher.empty', F, 'e54c752d', 'protect(b"") / unprotect(b"") raised UnboundLocalError'),
 (['C01'], 'escaped.AttributeError@parports.py:do_print', F, '14ba8d77', 'RUN "LPT2:" with nothing attached escaped as AttributeError'),
 (['C01'], 'escaped.AttributeError@parports.py:write', F, '14ba8d77', 'OPEN "LPT2:" FOR OUTPUT AS 1:PRINT#1,"x" escaped as AttributeError'),
 (['C01'], 'close.escaped.AttributeError@parports.py:do_print', F, '14ba8d77', 'Session.close() with a file on an unattached LPT2: escaped as AttributeError'),
 (['C01'], 'escaped.AttributeError@files.py:width_', F, 'a715113e', 'WIDTH "LPT2:",10 escaped as AttributeError'),
 (['C01'], 'escaped.AttributeError@files.py:put_', F, '38698765', 'OPEN "SCRN:" FOR RANDOM AS 1: PUT 1 escaped as AttributeError'),
 (['C01'], 'escaped.AttributeError@machine.py:bload_', F, '869ad00d', 'BLOAD "KYBD:" escaped as AttributeError'),
 (['C01'], 'escaped.IndexError@memory.py:_get_field_memory', F, 'e113a955', 'PRINT PEEK(4073) escaped as IndexError'),
 (['C01'], 'escaped.ValueError@memory.py:_set_field_memory', F, 'e113a955', 'POKE 4073,1 escaped as ValueError'),
 (['C01'], 'escaped.KeyError@values.py:from_bytes', F, '2e3616a2', 'LIST of a tokenised file ending inside a number constant escaped as KeyError'),
 (['C01'], 'escaped.TypeError@lister.py:_detokenise_number', F, '2e3616a2', 'the same with 3 bytes left escaped as TypeError'),
 (['C01', 'C23'], 'escaped.ValueError@memory.py:_get_field_offset', F, '20f54037', 'CHAIN "Q",,ALL with a string-valued DEF FN defined escaped as ValueError'),
 (['C01'], 'escaped.AttributeError@program.py:merge', F, '87c27cba', 'CHAIN MERGE of a tokenised file escaped as AttributeError'),
 (['C01'], 'escaped.RecursionError@graphics.py:_draw', F, '0df61812', 'a DRAW substring that executes itself escaped as RecursionError'),
 (['C01'], 'escaped.UnboundLocalError@files.py:_get_device_param', F, '23162950', 'OPEN "CON" AS 3 escaped as UnboundLocalError'),
 (['C01'], 'escaped.AttributeError@implementation.py:_input_file', F, 'ddf62a7a', 'OPEN "SCRN:" FOR RANDOM AS #2: INPUT#2,A escaped as AttributeError'),
 (['C01'], 'escaped.error@display.py:palette_using_', F, 'ea2ac2ec', 'DIM R%(20): PALETTE USING R%(-1) escaped as struct.error'),
 (['C01'], 'escaped.KeyError@program.py:edit', F, 'e94fe429', "execute('EDIT 10'), execute('NEW'), interact() escaped as KeyError"),
 (['C01'], 'escaped.ValueError@numbers.py:from_oct', F, '4d9657db', 'PRINT &O1 7 escaped as ValueError'),
 (['C23', 'C04'], 'reset.soft-math-errors-stay-hard', F, 'b8edb98c', 'after ON ERROR GOTO had been used, RUN/NEW/CLEAR did not restore soft handling: 10 PRINT 1/0:PRINT "after" stopped with Division by zero in 10'),
 (['C01', 'C33', 'C42'], 'escaped.KeyError@memory.py:get_value_for_varptrstr', F, '8b223888', 'DRAW "X"+CHR$(1)+CHR$(0)+CHR$(0) escaped as KeyError'),
 (['C01'], 'escaped.ValueError@numbers.py:from_token', F, '26932cf2', 'RUN of a tokenised file ending inside a number constant escaped as ValueError'),
 (['C01', 'C10', 'C23'], 'escaped.error@strings.py:collect_garbage', F, '6a0c43ef', 'CLEAR ,1,16777216 then PRINT FRE("") escaped as struct.error (sizes applied one by one, no lower bound)'),
 (['C01'], 'escaped.error@strings.py:from_pointer', F, '6a0c43ef', 'CLEAR 0,256 then CHAIN MERGE ...,ALL escaped as struct.error (same cause)'),
 (['C10', 'C11'], 'clear.memory-size-ignored', F, '8e64e579', 'CLEAR ,n without a stack size no longer changed the memory size (regression introduced by 6a0c43ef; reported by a seeding agent)'),
 (['C01'], 'escaped.AttributeError@machine.py:out_', F, '0108e7d1', 'OUT &H3C5,1 (or &H3CF) in text mode escaped as AttributeError'),
 (['C01', 'C33', 'C42'], 'escaped.AttributeError@mlparser.py:_parse_indices', F, 'b37e0de9', 'DRAW "U=A(B$);" / PLAY "L=A(B$);" escaped as AttributeError instead of Type mismatch'),
 (['C01', 'C15'], 'escaped.error@program.py:rebuild_line_dict', F, 'ded692ca', 'LOAD of a tokenised file larger than 64K escaped as struct.error; oversized files were not refused with Out of memory'),
 (['C01'], 'escaped.AttributeError@machine.py:inp', F, 'b11dd3aa', 'A=INP(&H379) / WAIT 889,4,15 on a default session escaped as AttributeError (LPT stream without get_status)'),
 (['C01'], 'escaped.AttributeError@machine.py:out_', F, 'b11dd3aa', 'OUT &H37A,0 on a default session escaped as AttributeError (LPT stream without set_control)'),
 (['C01'], 'escaped.TypeError@machine.py:_get_memory', F, '2a546dd3', 'DEF SEG=0: SCREEN 2: PRINT PEEK(1126) escaped as TypeError (colour info byte not returned in graphics modes)'),
 (['C01', 'C33', 'C42'], 'escaped.KeyError@values.py:from_bytes', F, '026d1fb1', 'PLAY "T="+LEFT$(VARPTR$(D#(1)),2)+";" escaped as KeyError (pointer just beyond the last array)'),
 (['C01', 'C13'], 'escaped.error@program.py:update_line_dict', F, '339e1ebf', 'entering/LOADing lines in front of a nearly full program grew it past the memory limit and escaped as struct.error'),
 (['C01'], 'escaped.AttributeError@implementation.py:line_input_', F, '7a9a75fa', 'OPEN "SCRN:" FOR RANDOM AS #2: LINE INPUT#2,T$ escaped as AttributeError'),
 (['C01'], 'escaped.ValueError@program.py:edit', F, '69455d23', 'pending EDIT prompt after the line was replaced escaped as ValueError (min of empty sequence)'),
 (['C01'], 'escaped.error@program.py:renum', F, 'ecc8fcf4', 'LOAD of the file FF 49 53 0E then RENUM escaped as struct.error'),
 (['C01'], 'escaped.error@numbers.py:from_int', F, 'df13de14', 'PRINT TAB(-65537)1 escaped as struct.error'),
 (['C01', 'C44'], 'escaped.ValueError@python3.py:setenvu', F, '62afcd32', 'codepage 932/874: ENVIRON "A="+CHR$(255) escaped as ValueError (undefined code point converts to U+0000)'),
 # open findings (not repaired): identified by bucket key
 (['C24'], 'input.item-after-255-byte-string', O, None, 'WRITE #1,A$,N% with LEN(A$)=255 then INPUT #1,B$,M%: B$ is intact but the item after the 255-byte string is lost (reader stops at 255 characters, GW-BASIC-compatible limit)'),
 (['C25'], 'alias.*', O, None, 'two file numbers open FOR RANDOM on the same file do not see each other\'s records: OPEN "R",1,"A.DAT",4: OPEN "R",2,"a.dat",4: PUT #1,1: GET #2,1 returns NUL bytes (each number has its own buffered stream; an unbuffered stream would break suspend/resume)'),
]

out = {"_format": "open entries suppress exactly the failure bucket named by 'key' (fnmatch pattern; printed as "
                  "KNOWN-FINDING when observed); fixed entries suppress nothing: the directed case stays in the "
                  "property module's REGRESSIONS and a return of the defect is reported as a VIOLATION. "
                  "Generated by tools/mkfindings.py from a hand-edited table; never written at check run time.",
       "findings": []}
for props, key, status, commit, what in ROWS:
    for p in props:
        e = {"property": p, "key": key, "status": status, "what": what}
        if status == F:
            e["commit"] = commit
            e["line"] = "fixed: property=%s %s %s" % (p, commit, what)
        out["findings"].append(e)
here = os.path.dirname(os.path.dirname(os.path.abspath(__file__)))
json.dump(out, open(os.path.join(here, 'known_findings.json'), 'w'), indent=1)
print(len(out["findings"]), 'entries;', sum(1 for e in out['findings'] if e['status'] == O), 'open')
