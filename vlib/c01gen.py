"""
Generators for C01 (no BASIC input produces an internal interpreter error).

Everything here is written from the GW-BASIC / PC-BASIC manual, not from the parser tables: statement
templates with typed slots for every statement keyword and every function, a boundary value pool,
and an expander that turns a list of small integers (Hypothesis entropy) into concrete text. The
property module records only the concrete text, so a replay never depends on this file.
"""
import re

# --------------------------------------------------------------------------------------------
# value pools

NUMS = [
    '0', '1', '-1', '2', '7', '255', '256', '-32768', '32767', '32768', '-32769', '65535', '65536',
    '1E38', '-1E38', '1.7E38', '3.4E38', '1E39', '1D308', '1D-39', '1E-39', '.5', '2.5', '-.0001',
    '100000', '16777216', '&H7FFF', '&HFFFF', '&H8000', '&O177777', '1#', '3!', '9%', '1D0',
    '4294967296', '-65536', '640', '200', '25', '80', '40', '3.14159', '1E10', '12', '15', '16', '31',
    '1200', '3945', '4000', '4100', '4500', '4720', '4730', '5000', '60000',
]
SMALLNUMS = ['0', '1', '2', '3', '4', '5', '7', '8', '9', '10', '12', '15', '16', '25', '40', '80', '-1',
             '255']
STRS = [
    '""', '"A"', '"abc"', '"hello world"', 'CHR$(0)', 'CHR$(255)', 'STRING$(255,65)', 'SPACE$(0)',
    '"a"+CHR$(34)+"b"', 'CHR$(255)+CHR$(255)', 'MKI$(1)', 'MKS$(1)', 'MKD$(1)', 'CHR$(13)+CHR$(10)',
    'CHR$(26)', 'CHR$(7)+CHR$(12)', '"12"', '"-1"', '"1E39"', '"&HFFFF"', '" 3 "', '"F.TXT"', '"Z:"',
    'STRING$(40,"#")', '"%"', '"1:00:00"', '"U10"', '"COM1:"', '"a=b"',
]
# slot-specific pools: boundary strings where they matter
TIMES = ['"1:00:00"', '"-1:00:00"', '"25:61:61"', '"23:59:59"', '"24:00:00"', '"1"', '"1:2"', '"1:-2:3"',
         '"0:0:-1"', '"::"', '":"', '""', '"12:00:00:00"', '"1.5:0:0"', '"+1:+2:+3"', '" 12: 0: 0"',
         '"99999999999:0:0"', '"1:00:60"', '"a:b:c"', 'CHR$(0)', 'STRING$(255,":")', '"12:00"+CHR$(0)']
DATES = ['"12-31-1999"', '"1/1/80"', '"99-99-9999"', '"-1-1-1980"', '"1--1-1980"', '"1-1--1980"',
         '"2-30-2000"', '"2-29-1900"', '"12-31-2099"', '"1-1-2100"', '"1-1-79"', '"1-1-0"', '"0-0-0"',
         '"//"', '"-"', '""', '"1-1"', '"1-1-1980-1"', '"1.5-1-1980"', '"a-b-c"', 'CHR$(0)',
         '"01-01-00001980"', '"13-1-1980"', '"1-32-1980"', '"1-1-99999999999"', '"2-31-1999"',
         '"4-31-1985"', '"6-31-2001"', '"9-31-2020"', '"11-31-1990"', '"2-29-1981"', '"0-1-1990"',
         '"1-0-1990"', '"0-0-1980"', '"2-29-2000"']
ENVS = ['"PATH=x"', 'CHR$(0)+"a=b"', '"a=b"+CHR$(0)', '"a"+CHR$(0)+"=b"', '"=b"', '"a="', '"a"', '""',
        '"a=b=c"', '"A="+STRING$(250,66)', 'CHR$(255)+"=1"', '"a=;"', '" = "', '"PATH"', '"a=b"']
FNAMES = ['"F.TXT"', '"P.BAS"', '"Q.BAS"', '"R.DAT"', '"Z:"', '"A:\\X"', '"*.*"', '"??????????.???"',
          '"COM1:"', '"LPT1:"', '"LPT2:"', '"COM2:"', '"SCRN:"', '"KYBD:"', '"CAS1:"', '"CAS1:NAME"', '"\\"',
          '".."', '"Z:\\D\\F"', '"NUL"', '"CON"', '"@:X"', '"F.TXT"+CHR$(0)', 'CHR$(0)', '" F"', '"F.T.X"',
          '"12345678.123"', '"123456789.1234"', 'STRING$(64,"\\")', '"Z:D"', '"D"', '"D\\"', '"."', '""',
          '"F."', '".T"', '"Z:\\..\\.."', '"A:F"', '"B:F"', '"F/G"', '"f.txt"', 'CHR$(255)', '":"',
          '"LPT3:"', '"COM1:9600,N,8,1"', '"COM1:,,,,,"', '"COM1:1,X,9,9,RS,CS0,DS,CD,LF,PE"', '"ZZ:"',
          'STRING$(255,"A")', '"D\\..\\F.TXT"', '"F .T"', '"\\F.TXT"']
MMLS = ['"mbO3L8cdeT255"', '"MFX"', '"MN"', '"O7B#"', '"O0C-"', '"L0"', '"L65"', '"T31"', '"T256"', '"N85"',
        '"N-1"', '"P0"', '"C1......"', '"XS$;"', '"X"', '"=A;"', '"T=I%;"', '"V16"', '">>>>>>>>C"', '"<<<<<<<C"',
        '"MS MLC2."', '""', 'CHR$(0)', '"Z"', '"C;D"', '"L=C#;"', '"O=S$;"', '"N=B!;"', '"1"', '"MB"+STRING$(120,"CD")']
GMLS = ['"U10R10D10L10"', '"BM320,100M+5,-5"', '"XS$;"', '"TA90S8C1"', '"TA361"', '"A4"', '"S256"', '"C99"',
        '"P1,2"', '"P"', '"M,"', '"M1"', '"BNU-5"', '"U=A;"', '"E32768"', '"F-32769"', '"M+40000,0"', '""',
        'CHR$(0)', '"Q"', '"X"', '"U=S$;"', '"M=A;,=B!;"', '"P=I%;,1"', '"TA=C#;"', '"U"+STRING$(200,"9")']
FMTS = ['"###.##"', '"**$##,.##^^^^"', '"\\  \\"', '"!&_"', '"+#-"', 'STRING$(40,"#")', '"%"', '""', '"_"',
        '"#,"', '".#"', '"^^^^"', '"$$"', '"**"', '"+"', '"&"', '"!"', 'STRING$(255,"#")', '"#"+STRING$(25,".#")',
        '"abc"', '"\\"', 'CHR$(0)', '"##"+CHR$(0)+"##"', '"-#"', '"#-+"', '"**$$##"', '"_#"', '"###^^^^^"']
DEVS = ['"SCRN:"', '"KYBD:"', '"LPT1:"', '"LPT2:"', '"LPT3:"', '"COM1:"', '"COM2:"', '"CAS1:"', '"A:"', '"Z:"',
        '"@:"']


def spec_pool(sep):
    """
    Boundary strings (as BASIC string expressions) for arguments of the form name<sep>value:
    empty name, empty value, only the separator, separator first/last/doubled, no separator,
    NUL and high bytes on either side, 254-byte halves.
    """
    def lit(text):
        return '"%s"' % text
    halves = [('', '""'), ('a', lit('a')), ('PATH', lit('PATH')), (' ', lit(' ')), ('nul', 'CHR$(0)'),
              ('hi', 'CHR$(255)'), ('long', 'STRING$(254,"N")'), ('a-nul', '"a"+CHR$(0)'),
              ('hi-a', 'CHR$(255)+"a"'), ('quote', 'CHR$(34)')]
    sepx = lit(sep)
    out = []
    for _, n in halves:
        for _, v in halves:
            parts = [x for x in (n, sepx, v) if x != '""']
            out.append('+'.join(parts))
    for _, n in halves:
        parts = [x for x in (n,) if x != '""']
        out.append('+'.join(parts + [sepx, sepx]) if parts else lit(sep + sep))       # doubled, last
        out.append('+'.join([sepx, sepx] + parts))                                   # doubled, first
        out.append('+'.join(parts + [sepx, lit('b'), sepx, lit('c')]))               # two separators
        out.append('+'.join(parts) if parts else '""')                               # no separator
    # merge adjacent plain literals: "a"+"="+"b" -> "a=b" (shorter lines, same value)
    merged = []
    for e in out:
        while True:
            e2 = re.sub(r'"([^"]*)"\+"([^"]*)"', r'"\1\2"', e)
            if e2 == e:
                break
            e = e2
        merged.append(e)
    seen = []
    for e in merged:
        if e not in seen:
            seen.append(e)
    return seen


# statements taking a name<sep>value / spec string, with the separator that matters to them
SPEC_STATEMENTS = [
    ('=', 'ENVIRON {x}'), ('=', 'PRINT ENVIRON$({x})'), ('=', 'KEY 1,{x}'), ('=', 'KEY 15,{x}'),
    ('=', 'PLAY {x}'), ('=', 'PLAY "T"+{x}+";"'), ('=', 'DRAW {x}'), ('=', 'DRAW "U"+{x}+";"'),
    ('=', 'SHELL {x}'),
    (':', 'OPEN {x} FOR OUTPUT AS 1:CLOSE'), (':', 'OPEN "O",1,{x}:CLOSE'), (':', 'OPEN {x} AS 1:CLOSE'),
    (':', 'OPEN "COM1"+{x} AS 1:CLOSE'), (':', 'NAME {x} AS "T1"'), (':', 'NAME "F.TXT" AS {x}'),
    (':', 'CHDIR {x}'), (':', 'MKDIR {x}'), (':', 'RMDIR {x}'), (':', 'KILL {x}'), (':', 'FILES {x}'),
    (':', 'LOAD {x}'), (':', 'SAVE {x}'), (':', 'BLOAD {x}'), (':', 'WIDTH {x},80'), (':', 'TIME$={x}'),
    ('-', 'DATE$={x}'), ('/', 'DATE$={x}'), ('\\', 'CHDIR {x}'), ('\\', 'OPEN {x} FOR INPUT AS 1:CLOSE'),
    ('.', 'OPEN {x} FOR OUTPUT AS 1:CLOSE'), (',', 'OPEN "COM1:"+{x} AS 1:CLOSE'),
    (';', 'PLAY "L4C"+{x}'), (';', 'DRAW "U1"+{x}'), ('#', 'PRINT USING {x};1'), (',', 'PRINT USING {x};1;"s"'),
]


def spec_statements():
    """All (statement, separator) x spec_pool(separator) expansions, in a fixed order."""
    out = []
    for sep, tmpl in SPEC_STATEMENTS:
        for x in spec_pool(sep):
            out.append(tmpl.replace('{x}', x)[:250])
    return out


NUMVARS = ['A', 'B!', 'C#', 'I%', 'R(1)', 'R%(2)', 'D#(0)', 'J', 'K']
STRVARS = ['S$', 'T$', 'Q$(0)', 'X$', 'Y$']
LINES = ['10', '20', '30', '40', '50', '100', '0', '65529', '65530', '65535', '1', '5']
FILENUMS = ['1', '2', '3', '0', '4', '255', '256', '-1', 'I%']
LETTERS = 'ABCIRSXZ'
MODES = ['INPUT', 'OUTPUT', 'APPEND', 'RANDOM']
ACCESS = ['', ' ACCESS READ', ' ACCESS WRITE', ' ACCESS READ WRITE']
LOCKS = ['', ' SHARED', ' LOCK READ', ' LOCK WRITE', ' LOCK READ WRITE']

NUMFUNCS = [
    'ABS({n})', 'SGN({n})', 'INT({n})', 'FIX({n})', 'SQR({n})', 'SIN({n})', 'COS({n})', 'TAN({n})',
    'ATN({n})', 'LOG({n})', 'EXP({n})', 'RND', 'RND({n})', 'CINT({n})', 'CSNG({n})', 'CDBL({n})',
    'CVI({s})', 'CVS({s})', 'CVD({s})', 'LEN({s})', 'VAL({s})', 'ASC({s})', 'INSTR({s},{s})',
    'INSTR({n},{s},{s})', 'PEEK({n})', 'INP({n})', 'FRE({n})', 'FRE({s})', 'POS({n})', 'LPOS({n})',
    'CSRLIN', 'EOF({f})', 'LOC({f})', 'LOF({f})', 'PEN({n})', 'STICK({n})', 'STRIG({n})', 'PLAY({n})',
    'TIMER', 'ERL', 'ERR', 'ERDEV', 'EXTERR({n})', 'POINT({n},{n})', 'POINT({n})', 'PMAP({n},{n})',
    'SCREEN({n},{n})', 'SCREEN({n},{n},{n})', 'VARPTR({v})', 'VARPTR(#{f})', 'USR({n})', 'USR1({n})',
    'FNA({n})', 'FNB({n},{n})', '{n}+{n}', '{n}-{n}', '{n}*{n}', '{n}/{n}', '{n}\\{n}', '{n} MOD {n}',
    '{n}^{n}', '-{n}', 'NOT {n}', '{n} AND {n}', '{n} OR {n}', '{n} XOR {n}', '{n} EQV {n}',
    '{n} IMP {n}', '{n}={n}', '{n}<>{n}', '{n}<{n}', '{s}={s}', '{s}<{s}', '({n})', '{s}>={s}',
]
STRFUNCS = [
    'CHR$({n})', 'STR$({n})', 'SPACE$({n})', 'STRING$({n},{n})', 'STRING$({n},{s})', 'OCT$({n})',
    'HEX$({n})', 'MKI$({n})', 'MKS$({n})', 'MKD$({n})', 'LEFT$({s},{n})', 'RIGHT$({s},{n})',
    'MID$({s},{n})', 'MID$({s},{n},{n})', 'INKEY$', 'INPUT$({n})', 'INPUT$({n},#{f})', 'DATE$', 'TIME$',
    'ENVIRON$({env})', 'ENVIRON$({n})', 'IOCTL$(#{f})', 'ERDEV$', 'VARPTR$({v})', 'FNS$({s})',
    '{s}+{s}', '({s})',
]

# --------------------------------------------------------------------------------------------
# statement templates.  {n} numeric expr  {s} string expr  {a} any expr  {v} numeric variable
# {sv} string variable  {l} line number  {f} file number  {o} optional numeric  {sn} small number
# {st} a nested statement  {c} letter  {md} open mode  {ac} access clause  {lk} lock clause

STATEMENTS = [
    # output
    'PRINT {a};{a},{a}', 'PRINT', 'PRINT {a}', '?{a};', 'PRINT USING {fmt};{a};{a}', 'PRINT USING {fmt};{n},{s}',
    'PRINT#{f},{a};{a}', 'PRINT#{f},USING {fmt};{a}', 'LPRINT {a};{a}', 'LPRINT USING {fmt};{n}',
    'WRITE {a},{a}', 'WRITE#{f},{a},{a}', 'PRINT TAB({n});SPC({n});{a}', 'LPRINT TAB({n}){a}',
    # input
    'INPUT#{f},{v}', 'INPUT#{f},{sv},{v}', 'LINE INPUT#{f},{sv}', 'INPUT {v}', 'INPUT;"p";{v},{sv}',
    'INPUT "p",{sv}', 'LINE INPUT {sv}', 'LINE INPUT;"p";{sv}', 'READ {v}', 'READ {sv},{v}',
    'DATA 1,"a",x,,&H10', 'DATA "unterminated', 'RESTORE', 'RESTORE {l}', 'RANDOMIZE {n}', 'RANDOMIZE',
    # assignment and variables
    'LET {v}={n}', '{v}={n}', '{sv}={s}', '{v}={s}', '{sv}={n}', 'MID$({sv},{n},{n})={s}',
    'MID$({sv},{n})={s}', 'LSET {sv}={s}', 'RSET {sv}={s}', 'SWAP {v},{v}', 'SWAP {sv},{sv}',
    'SWAP {sv},{v}', 'ERASE R', 'ERASE R,Q$', 'ERASE ZZ', 'DIM R({n})', 'DIM ZZ({sn},{sn}),Q$({sn})',
    'DIM W({n},{n},{n})', 'OPTION BASE {sn}', 'DEFINT A-Z', 'DEFSTR {c}', 'DEFDBL {c}-{c}', 'DEFSNG {c},{c}',
    'CLEAR', 'CLEAR {o},{o},{o}', 'CLEAR ,{n}', 'CLEAR ,,{n}',
    # flow
    'NEW', 'RUN', 'RUN {l}', 'RUN {fn}', 'RUN {fn},R', 'CONT', 'STOP', 'END', 'GOTO {l}', 'GOSUB {l}', 'RETURN',
    'RETURN {l}', 'ON {n} GOTO {l},{l}', 'ON {n} GOSUB {l},{l},{l}', 'IF {n} THEN {st} ELSE {st}',
    'IF {n} THEN {l}', 'IF {n} GOTO {l} ELSE {l}', 'IF {s} THEN {st}', 'FOR {v}={n} TO {n} STEP {n}',
    'FOR {v}={n} TO {n}', 'FOR {v}={sn} TO {sn}:{st}:NEXT', 'NEXT', 'NEXT {v}', 'NEXT {v},{v}',
    'WHILE {n}', 'WEND', 'WHILE {sn}:{st}:WEND', 'ON ERROR GOTO {l}', 'ON ERROR GOTO 0', 'RESUME',
    'RESUME NEXT', 'RESUME {l}', 'ERROR {n}', 'ERROR {sn}',
    # definitions, memory, machine
    'DEF FNA(X)={n}', 'DEF FNB(X,Y%)=X+Y%*{n}', 'DEF FNS$(X$)={s}', 'DEF FNA(X)=FNA(X)', 'DEF FNR=FNR+1',
    'DEF SEG', 'DEF SEG={n}', 'DEF USR={n}', 'DEF USR{sn}={n}', 'POKE {n},{n}', 'OUT {n},{n}',
    'WAIT {n},{n},{n}', 'WAIT {n},{n}', 'CALL {v}', 'CALL A(B,C$,R(1))', 'CALLS A', 'CALL {n}',
    # files
    'OPEN {fn} FOR {md}{ac}{lk} AS #{f}', 'OPEN {fn} FOR {md} AS {f} LEN={n}', 'OPEN {s},{f},{fn}',
    'OPEN {s},#{f},{fn},{n}', 'OPEN {fn} AS {f}', 'OPEN "O",1,"F.TXT"', 'OPEN "R",2,"R.DAT",{n}',
    'OPEN "I",3,"F.TXT"', 'OPEN "A",#1,"F.TXT"', 'OPEN "COM1:9600,N,8,1" AS {f}',
    'OPEN "LPT1:" FOR OUTPUT AS {f}', 'OPEN "SCRN:" FOR OUTPUT AS {f}', 'OPEN "KYBD:" FOR INPUT AS {f}',
    'OPEN "CAS1:T" FOR OUTPUT AS {f}', 'OPEN "CAS1:" FOR INPUT AS {f}', 'CLOSE', 'CLOSE #{f},{f}',
    'CLOSE {f}', 'RESET', 'FIELD #{f},{n} AS X$,{n} AS Y$', 'FIELD {f}', 'FIELD #2,8 AS X$,8 AS Y$',
    'PUT #{f},{n}', 'GET #{f},{n}', 'PUT #{f}', 'GET {f}', 'PUT 2,{n}', 'GET 2,{n}',
    'LOCK #{f},{n} TO {n}', 'UNLOCK #{f},{n} TO {n}', 'LOCK #{f}', 'UNLOCK {f},{n}', 'WIDTH #{f},{n}',
    'WIDTH {fn},{n}', 'WIDTH {n},{n}', 'WIDTH {n}', 'WIDTH LPRINT {n}', 'FILES', 'FILES {fn}', 'KILL {fn}',
    'NAME {fn} AS {fn}', 'MKDIR {fn}', 'CHDIR {fn}', 'RMDIR {fn}', 'LOAD {fn}', 'LOAD {fn},R', 'MERGE {fn}',
    'SAVE {fn}', 'SAVE {fn},A', 'SAVE {fn},P', 'SAVE "P.BAS"', 'SAVE "Q.BAS",A', 'SAVE "R.BAS",P',
    'LOAD "P.BAS"', 'LOAD "R.BAS"', 'MERGE "Q.BAS"', 'CHAIN {fn}', 'CHAIN "Q.BAS",{l}',
    'CHAIN MERGE {fn},{l},ALL,DELETE {l}-{l}', 'CHAIN MERGE "Q.BAS",{l},DELETE {l}-{l}', 'COMMON A,B$,R()',
    'BSAVE {fn},{n},{n}', 'BLOAD {fn},{n}', 'BLOAD {fn}', 'BSAVE "M.BIN",0,{n}', 'BLOAD "M.BIN",{n}',
    'IOCTL #{f},{s}', 'MOTOR {o}', 'LCOPY {o}', 'OPEN {dv} FOR {md} AS #{f}', 'OPEN {dv} AS #{f} LEN={n}',
    'BLOAD {dv}', 'BSAVE {dv},{n},{n}', 'LOAD {dv}', 'SAVE {dv}', 'SAVE {dv},A', 'MERGE {dv}', 'RUN {dv}', 'CHAIN {dv}',
    'OPEN {dv} FOR RANDOM AS #1:FIELD #1,{sn} AS X$:PUT #1:GET #1:CLOSE',
    'OPEN {dv} FOR {md} AS #1:PRINT#1,{a}:PRINT LOF(1);LOC(1);EOF(1):CLOSE',
    'OPEN {dv} FOR {md} AS #2:INPUT#2,{v}:LINE INPUT#2,{sv}:{sv}=INPUT$(1,2)', 'OPEN {dv} FOR {md} AS #3:WIDTH #3,{n}:LOCK #3:UNLOCK #3',
    'FILES {dv}', 'KILL {dv}', 'NAME {dv} AS {fn}', 'CHDIR {dv}', 'WIDTH {dv},{n}',
    # program editing
    'LIST', 'LIST {l}-{l}', 'LIST {l}-,{fn}', 'LIST -{l}', 'LIST .', 'LLIST', 'LLIST {l}-', 'DELETE {l}-{l}',
    'DELETE {l}', 'DELETE -{l}', 'RENUM', 'RENUM {l},{l},{n}', 'RENUM {l}', 'RENUM ,,{n}', 'AUTO {l},{n}', 'AUTO',
    'EDIT {l}', 'EDIT .', 'TRON', 'TROFF',
    # screen and graphics
    'SCREEN {o},{o},{o},{o}', 'SCREEN {sn}', 'SCREEN {n},{n},{n},{n},{n}', 'COLOR {o},{o},{o}', 'COLOR {n}',
    'CLS', 'CLS {n}', 'LOCATE {o},{o},{o},{o},{o}', 'LOCATE {sn},{sn}', 'LOCATE ,,{n}', 'KEY ON', 'KEY OFF',
    'KEY LIST', 'KEY {n},{s}', 'KEY {sn},{s}', 'KEY({n}) ON', 'KEY({sn}) STOP', 'KEY({n}) OFF',
    'ON KEY({n}) GOSUB {l}', 'VIEW PRINT {n} TO {n}', 'VIEW PRINT', 'VIEW ({n},{n})-({n},{n}),{o},{o}',
    'VIEW SCREEN ({sn},{sn})-({n},{n})', 'VIEW', 'WINDOW ({n},{n})-({n},{n})',
    'WINDOW SCREEN ({n},{n})-({n},{n})', 'WINDOW', 'PSET({n},{n}),{o}', 'PSET STEP({n},{n})',
    'PRESET({n},{n})', 'PRESET STEP({n},{n}),{n}', 'LINE ({n},{n})-({n},{n}),{o},BF,{n}',
    'LINE ({n},{n})-({n},{n}),{o},B', 'LINE -({n},{n})', 'LINE -STEP({n},{n}),{n},,{n}',
    'LINE ({sn},{sn})-({sn},{sn})', 'CIRCLE ({n},{n}),{n},{o},{o},{o},{o}', 'CIRCLE STEP({n},{n}),{n}',
    'CIRCLE ({sn},{sn}),{sn},,-1,-{n},{n}', 'PAINT ({n},{n}),{a},{o},{s}', 'PAINT ({sn},{sn}),{sn},{sn}',
    'PAINT STEP({n},{n})', 'PAINT ({sn},{sn}),{s}', 'DRAW {gml}', 'GET ({n},{n})-({n},{n}),R%',
    'GET ({sn},{sn})-STEP({sn},{sn}),G%', 'PUT ({n},{n}),R%,XOR', 'PUT ({sn},{sn}),G%', 'PUT ({sn},{sn}),G%,PSET',
    'PUT ({n},{n}),ZZ', 'PALETTE {o},{o}', 'PALETTE', 'PALETTE USING R%({n})', 'PALETTE USING G%(0)',
    'PCOPY {n},{n}', 'PCOPY {sn},{sn}', 'ZS$="XZS$;":DRAW ZS$', 'ZS$="U1XZS$;":DRAW "L2"+ZS$',
    # sound and events
    'SOUND {n},{n}', 'SOUND {n},{n},{n},{n}', 'SOUND ON', 'SOUND OFF', 'BEEP', 'BEEP ON', 'BEEP OFF',
    'PLAY {mml}', 'PLAY {mml},{mml},{mml}', 'PLAY ON', 'PLAY OFF', 'PLAY STOP', 'ON PLAY({n}) GOSUB {l}',
    'NOISE {n},{n},{n}', 'PEN ON', 'PEN OFF', 'PEN STOP', 'ON PEN GOSUB {l}', 'STRIG ON', 'STRIG OFF',
    'STRIG({n}) ON', 'STRIG({sn}) STOP', 'ON STRIG({n}) GOSUB {l}', 'TIMER ON', 'TIMER OFF', 'TIMER STOP',
    'ON TIMER({n}) GOSUB {l}', 'COM({n}) ON', 'COM({sn}) OFF', 'ON COM({n}) GOSUB {l}',
    # clock, environment, shell, misc
    'DATE$={dt}', 'TIME$={tm}', 'DATE$={n}', 'TIME$={n}', 'ENVIRON {env}', 'ENVIRON {n}', 'SHELL', 'SHELL {fn}', 'TERM',
    'REM x:PRINT', "' comment", ':', '_EXT {n}', 'SYSTEM',
]

# direct commands used between program lines
KEYWORDS = sorted(set(re.findall(r'[A-Z]+\$?', ' '.join(STATEMENTS + NUMFUNCS + STRFUNCS))) - {
    'A', 'B', 'C', 'X', 'Y', 'R', 'S', 'T', 'Q', 'G', 'W', 'ZZ', 'P', 'F', 'M', 'D', 'K', 'J', 'I', 'N', 'U',
    'BF', 'BAS', 'BIN', 'DAT', 'TXT', 'EXT', 'FNA', 'FNB', 'FNR', 'FNS$', 'CON', 'NUL', 'MFX', 'XS$',
    'TA', 'BM', 'PATH', 'PSET', 'MB', 'MBO', 'CDE', 'H', 'HFFFF', 'O', 'E', 'Z'} | {'PSET', 'USING', 'TAB',
    'SPC', 'STEP', 'THEN', 'ELSE', 'TO', 'AS', 'BASE', 'SEG', 'ALL', 'ACCESS', 'SHARED', 'FN', 'USR'})


ENVS = ENVS + spec_pool('=')
FNAMES = FNAMES + spec_pool(':')[::3] + spec_pool('\\')[::5] + spec_pool('.')[::5]
MMLS = MMLS + ['"T"+' + x + '+";"' for x in spec_pool('=')[::4]]
GMLS = GMLS + ['"U"+' + x + '+";"' for x in spec_pool('=')[::4]]
TIMES = TIMES + spec_pool(':')[::4]
DATES = DATES + spec_pool('-')[::4]

SPECIFIC = {'dv': DEVS, 'tm': TIMES, 'dt': DATES, 'env': ENVS, 'fn': FNAMES, 'mml': MMLS, 'gml': GMLS, 'fmt': FMTS}


class Entropy(object):
    """A finite list of small integers used as choices; 0 when exhausted (simplest choice)."""

    def __init__(self, ints):
        self.ints = list(ints)
        self.i = 0

    def next(self, n):
        if n <= 0:
            return 0
        if self.i >= len(self.ints):
            return 0
        v = self.ints[self.i]
        self.i += 1
        return v % n

    def pick(self, seq):
        return seq[self.next(len(seq))]


_SLOT = re.compile(r'\{(\w+)\}')


def expand(template, ent, depth=0):
    def sub(m):
        return slot(m.group(1), ent, depth)
    return _SLOT.sub(sub, template)


def numexpr(ent, depth):
    k = ent.next(10)
    if depth >= 3 or k < 4:
        return ent.pick(NUMS)
    if k < 5:
        return ent.pick(NUMVARS)
    if k < 6:
        return ent.pick(SMALLNUMS)
    if k == 9 and depth < 2:
        # type confusion
        return strexpr(ent, depth + 1)
    return expand(ent.pick(NUMFUNCS), ent, depth + 1)


def strexpr(ent, depth):
    k = ent.next(10)
    if depth >= 3 or k < 4:
        return ent.pick(STRS)
    if k < 6:
        return ent.pick(STRVARS)
    if k == 9 and depth < 2:
        return numexpr(ent, depth + 1)
    return expand(ent.pick(STRFUNCS), ent, depth + 1)


def slot(name, ent, depth):
    if name == 'n':
        return numexpr(ent, depth)
    if name == 's':
        return strexpr(ent, depth)
    if name in SPECIFIC:
        if ent.next(10) < 7:
            return ent.pick(SPECIFIC[name])
        return strexpr(ent, depth)
    if name == 'a':
        return numexpr(ent, depth) if ent.next(2) == 0 else strexpr(ent, depth)
    if name == 'v':
        return ent.pick(NUMVARS)
    if name == 'sv':
        return ent.pick(STRVARS)
    if name == 'l':
        return ent.pick(LINES)
    if name == 'f':
        return ent.pick(FILENUMS)
    if name == 'o':
        return '' if ent.next(3) == 0 else numexpr(ent, depth)
    if name == 'sn':
        return ent.pick(SMALLNUMS)
    if name == 'c':
        return ent.pick(LETTERS)
    if name == 'md':
        return ent.pick(MODES)
    if name == 'ac':
        return ent.pick(ACCESS)
    if name == 'lk':
        return ent.pick(LOCKS)
    if name == 'st':
        if depth >= 2:
            return 'PRINT 1'
        return expand(ent.pick(STATEMENTS), ent, depth + 1)
    raise KeyError(name)


def statement(idx, ints):
    ent = Entropy(ints)
    return expand(STATEMENTS[idx % len(STATEMENTS)], ent)


def keyword_of(text):
    m = re.match(r"\s*\d*\s*([A-Z]+\$?|\?|'|_|:)", text.upper())
    return m.group(1) if m else '?'


# --------------------------------------------------------------------------------------------
# corpus mutation

_TOKEN = re.compile(r'"[^"]*"?|\d+\.?\d*(?:[ED][+-]?\d+)?[%!#]?|&[HO]?[0-9A-F]+|[A-Za-z][A-Za-z0-9.]*[$%!#]?|\s+|.')


def tokenize(line):
    return _TOKEN.findall(line)


def mutate_line(line, ops, ent):
    toks = tokenize(line)
    for op in ops:
        if not toks:
            break
        i = ent.next(len(toks))
        if op == 0:
            del toks[i]
        elif op == 1:
            toks.insert(i, toks[i])
        elif op == 2:
            j = ent.next(len(toks))
            toks[i], toks[j] = toks[j], toks[i]
        elif op == 3:
            # replace the next numeric literal at or after i with a boundary value
            for k in list(range(i, len(toks))) + list(range(0, i)):
                if re.match(r'\d|&', toks[k]) and k > 0:
                    toks[k] = ent.pick(NUMS)
                    break
        elif op == 4:
            for k in list(range(i, len(toks))) + list(range(0, i)):
                if toks[k].startswith('"'):
                    toks[k] = ent.pick(STRS)
                    break
        elif op == 5:
            toks.insert(i, ent.pick(KEYWORDS))
        elif op == 6:
            toks.insert(i, ent.pick([',', ';', '(', ')', '"', ':', '#', '-', '=', '$', '%', "'", '&H']))
        elif op == 7:
            toks = toks[:i]
    return ''.join(toks)[:250]


# --------------------------------------------------------------------------------------------
# token soup alphabet

SOUP_WORDS = KEYWORDS + NUMS + ['"', '"', ',', ';', ':', '(', ')', '#', '=', '-', '+', '*', '/', '\\', '^',
                                '<', '>', '$', '%', '!', '&H', '&O', '&', "'", '.', ' ', ' ', '_', '?', '@',
                                '\x00', '\x01', '\x07', '\x0a', '\x0d', '\x1a', '\x7f', '\x80', '\xfd',
                                '\xfe', '\xff', '\xe9', 'A', 'B$', 'R(', 'FN', 'E', 'D', '1E', '1D+']
