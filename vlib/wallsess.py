"""
Session wrapper used by C27/C29/C44: notices when the runner's per-case wall limit (SIGALRM ->
CaseTimeout raised at an arbitrary point inside the interpreter) was swallowed by the harness'
exception classification.  After that the session state is arbitrary (a statement was cut short),
so the whole case must be counted inconclusive and none of its later observations trusted.
"""
from vlib import harness

_hits = [0]


class WallSess(harness.Sess):
    """harness.Sess that records a swallowed CaseTimeout."""

    def _run(self, fn, out=None):
        o = harness.Sess._run(self, fn, out)
        if o.kind == 'escaped' and o.exc == 'CaseTimeout':
            _hits[0] += 1
        return o

    def close(self):
        k = harness.Sess.close(self)
        if k is not None and k.exc == 'CaseTimeout':
            _hits[0] += 1
        return k


def reset():
    _hits[0] = 0


def hit():
    return _hits[0] > 0
