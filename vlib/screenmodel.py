"""
Reference consumer of pcbasic video signals (used by C35) and a recording interface to attach to a
Session.

`ReferenceDisplay` is written from the handler semantics of pcbasic/interface/video_sdl2.py (pixel
canvas: set_mode / update / clear_rows / scroll) and of the text plugins video_curses.py /
video_ansi.py (character cells carried by `update`, blanked by clear_rows and by the row vacated by a
scroll). It shares no code with the interpreter: the canvas is a list of bytearrays.

`RecordingInterface` is what `Session.attach()` expects: `get_queues()` returns a real input
queue.Queue plus two recording queues whose qsize() is 0 (so the interpreter never waits for them to
drain) and which keep every signal put on them.
"""
import queue


class RecordingQueue(object):
    """Queue look-alike that records what is put and always looks empty."""

    def __init__(self):
        self.items = []

    def qsize(self):
        return 0

    def empty(self):
        return True

    def full(self):
        return False

    def put(self, item, block=False, timeout=None):
        self.items.append(item)

    def put_nowait(self, item):
        self.items.append(item)

    def get(self, block=False, timeout=None):
        raise queue.Empty

    def get_nowait(self):
        raise queue.Empty

    def task_done(self):
        pass

    def join(self):
        pass

    def drain(self):
        """Return and forget the recorded items."""
        items, self.items = self.items, []
        return items


class RecordingInterface(object):
    """Interface object for Session.attach()."""

    def __init__(self):
        self.inputs = queue.Queue()
        self.video = RecordingQueue()
        self.audio = RecordingQueue()

    def get_queues(self):
        return self.inputs, self.video, self.audio


class ReferenceDisplay(object):
    """Applies video signals to a pixel canvas and a character grid."""

    def __init__(self):
        self.mode_set = False
        self.canvas = []            # list of bytearray, one per scan line
        self.width = self.height = 0
        self.text_width = self.text_height = 0
        self.font_height = self.font_width = 0
        self.text = []              # list of list of unicode, one per cell
        self.attrs = []
        self.counts = {}
        self.problems = []          # malformed signals (reported by the check as violations)
        self.border = None
        self.palette = None
        self.cursor = None

    # -- dispatch
    def apply(self, event):
        name = event.event_type
        self.counts[name] = self.counts.get(name, 0) + 1
        handler = getattr(self, 'on_' + str(name), None)
        if handler is None:
            return
        if not self.mode_set and name != 'set_mode' and name in (
                'update', 'clear_rows', 'scroll'):
            self.problems.append('%s before any set_mode' % name)
            return
        handler(*event.params)

    def apply_all(self, events):
        for e in events:
            self.apply(e)

    # -- handlers (names are the signal names of pcbasic.basic.base.signals)
    def on_set_mode(self, canvas_height, canvas_width, text_height, text_width):
        self.height, self.width = canvas_height, canvas_width
        self.text_height, self.text_width = text_height, text_width
        self.font_height = -(-canvas_height // text_height)
        self.font_width = canvas_width // text_width
        self.canvas = [bytearray(canvas_width) for _ in range(canvas_height)]
        self.text = [[u' '] * text_width for _ in range(text_height)]
        self.attrs = [[None] * text_width for _ in range(text_height)]
        self.mode_set = True

    def on_update(self, row, col, unicode_matrix, attr_matrix, y0, x0, sprite):
        # pixels: paste the sprite at (y0, x0), clipped at the bottom and right edges
        data, sw, sh = sprite.to_bytes(), sprite.width, sprite.height
        if y0 < 0 or x0 < 0:
            self.problems.append('update at negative position (%d, %d)' % (y0, x0))
            return
        n = min(sw, self.width - x0)
        if n > 0:
            for dy in range(min(sh, self.height - y0)):
                self.canvas[y0 + dy][x0:x0 + n] = data[dy * sw:dy * sw + n]
        # character cells
        for dr, (trow, arow) in enumerate(zip(unicode_matrix, attr_matrix)):
            r = row - 1 + dr
            if not 0 <= r < self.text_height:
                self.problems.append('update text row %d outside the screen' % (r + 1))
                continue
            for dc, ch in enumerate(trow):
                c = col - 1 + dc
                if not 0 <= c < self.text_width:
                    self.problems.append('update text column %d outside the screen' % (c + 1))
                    break
                self.text[r][c] = ch
                if dc < len(arow):
                    self.attrs[r][c] = arow[dc]

    def on_clear_rows(self, back_attr, start, stop):
        fh = self.font_height
        fill = bytes(bytearray([back_attr])) * self.width
        for y in range(max(0, (start - 1) * fh), min(self.height, stop * fh)):
            self.canvas[y][:] = fill
        for r in range(max(1, start), min(self.text_height, stop) + 1):
            self.text[r - 1] = [u' '] * self.text_width
            self.attrs[r - 1] = [None] * self.text_width

    def on_scroll(self, direction, from_line, scroll_height, back_attr):
        fh = self.font_height
        fill = bytes(bytearray([back_attr])) * self.width
        hi_y0, hi_y1 = (from_line - 1) * fh, (scroll_height - 1) * fh
        lo_y0, lo_y1 = from_line * fh, scroll_height * fh
        if not (1 <= from_line <= self.text_height and 1 <= scroll_height <= self.text_height):
            self.problems.append('scroll rows %r..%r outside the screen' % (
                from_line, scroll_height))
            return
        # from_line > scroll_height is degenerate: video_sdl2's slices are then empty (nothing
        # moves) but the "vacated" row is still painted; the text plugins clear that row too
        nrows = max(0, hi_y1 - hi_y0)
        if direction == -1:
            for i in range(nrows):
                src, dst = lo_y0 + i, hi_y0 + i
                if src < self.height and dst < self.height:
                    self.canvas[dst] = bytearray(self.canvas[src])
            for y in range(hi_y1, min(lo_y1, self.height)):
                self.canvas[y] = bytearray(fill)
            if from_line < scroll_height:
                self.text[from_line - 1:scroll_height - 1] = self.text[from_line:scroll_height]
                self.attrs[from_line - 1:scroll_height - 1] = self.attrs[from_line:scroll_height]
            self.text[scroll_height - 1] = [u' '] * self.text_width
            self.attrs[scroll_height - 1] = [None] * self.text_width
        else:
            for i in reversed(range(nrows)):
                src, dst = hi_y0 + i, lo_y0 + i
                if src < self.height and dst < self.height:
                    self.canvas[dst] = bytearray(self.canvas[src])
            for y in range(hi_y0, min(lo_y0, self.height)):
                self.canvas[y] = bytearray(fill)
            if from_line < scroll_height:
                self.text[from_line:scroll_height] = self.text[from_line - 1:scroll_height - 1]
                self.attrs[from_line:scroll_height] = self.attrs[from_line - 1:scroll_height - 1]
            self.text[from_line - 1] = [u' '] * self.text_width
            self.attrs[from_line - 1] = [None] * self.text_width

    # consumed, not compared
    def on_set_palette(self, attributes, pack_pixels):
        self.palette = attributes

    def on_set_border_attr(self, attr):
        self.border = attr

    def on_move_cursor(self, row, col, attr, width):
        self.cursor = (row, col)

    # -- comparison helpers
    def pixel_rows(self):
        return [bytes(r) for r in self.canvas]

    def diff_pixels(self, pixels):
        """Compare with Session.get_pixels() -> None or a description of the first difference."""
        if len(pixels) != self.height or (pixels and len(pixels[0]) != self.width):
            return 'canvas is %dx%d, emulator reports %dx%d' % (
                self.width, self.height, len(pixels[0]) if pixels else 0, len(pixels))
        ndiff, first = 0, None
        for y, (mine, theirs) in enumerate(zip(self.canvas, pixels)):
            tb = bytes(bytearray(theirs))
            if bytes(mine) != tb:
                for x in range(self.width):
                    if mine[x] != tb[x]:
                        ndiff += 1
                        if first is None:
                            first = (y, x, mine[x], tb[x])
        if first is None:
            return None
        return '%d pixels differ; first at y=%d x=%d: display shows %d, emulator reports %d' % (
            (ndiff,) + first)

    def diff_text(self, chars):
        """Compare with Session.get_chars(as_type=str) -> None or description."""
        if len(chars) != self.text_height or (chars and len(chars[0]) != self.text_width):
            return 'text grid is %dx%d, emulator reports %dx%d' % (
                self.text_width, self.text_height, len(chars[0]) if chars else 0, len(chars))
        for r, (mine, theirs) in enumerate(zip(self.text, chars)):
            for c, (a, b) in enumerate(zip(mine, theirs)):
                a = u' ' if a == u'\0' else a
                b = u' ' if b == u'\0' else b
                if a != b:
                    return 'row %d col %d: display shows %r, emulator reports %r' % (
                        r + 1, c + 1, a, b)
        return None
