"""
Core data types: Result of one case, Unit of work, per-shard evidence accumulator.
"""
import json
import hashlib
import collections


class Result(object):
    """Verdict of the oracle on one generated case."""

    __slots__ = ('fails', 'nontrivial', 'labels', 'excluded', 'inconclusive')

    def __init__(self):
        self.fails = []            # list of (bucket key, message)
        self.nontrivial = False
        self.labels = []
        self.excluded = 0          # sub-assertions skipped because of a listed finding
        self.inconclusive = False  # budget exhausted or similar

    def fail(self, key, msg=''):
        self.fails.append((key, str(msg)[:2000]))
        return self

    def label(self, *labels):
        self.labels.extend(labels)
        return self

    def nt(self, flag=True):
        if flag:
            self.nontrivial = True
        return self

    def keys(self):
        return [k for k, _ in self.fails]


class Unit(object):
    """
    A unit of generation work inside a property check.

    kind == 'hyp' : `strategy` is a zero-argument callable returning a Hypothesis strategy of
                    JSON-serialisable cases; each case is judged by module.check_case(case).
                    `examples` maps tier -> examples per shard.
    kind == 'enum': `gen(shard, nshards, tier, seed)` yields JSON cases judged by check_case.
    kind == 'bulk': `run(shard, nshards, tier, seed, ev)` does its own loop and records into the
                    ShardEvidence `ev` (for tight enumerations of millions of operand tuples);
                    failing cases it records must be re-judgeable by check_case.
    """

    def __init__(self, name, kind, shards=None, examples=None, strategy=None, gen=None, run=None,
                 exhaustive=False, per_case_timeout=30.0):
        self.name = name
        self.kind = kind
        self.shards = shards or {'quick': 16, 'thorough': 16}
        if isinstance(self.shards, int):
            self.shards = {'quick': self.shards, 'thorough': self.shards}
        self.examples = examples or {'quick': 100, 'thorough': 1000}
        self.strategy = strategy
        self.gen = gen
        self.run = run
        self.exhaustive = exhaustive
        self.per_case_timeout = per_case_timeout


def case_hash(case):
    data = json.dumps(case, sort_keys=True, default=repr).encode()
    return int.from_bytes(hashlib.blake2b(data, digest_size=8).digest(), 'big')


class ShardEvidence(object):
    """Counters collected by one shard; merged by the runner."""

    MAX_SAMPLES = 4
    MAX_FAIL_PER_KEY = 3

    def __init__(self, unit):
        self.unit = unit
        self.evaluations = 0
        self.nt_hashes = set()
        self.nt_constructed = 0       # distinct-by-construction non-trivial cases (bulk units)
        self.labels = collections.Counter()
        self.samples = []
        self.nt_samples = []
        self.failures = {}            # key -> list of {case, msg}
        self.excluded = 0
        self.inconclusive = 0
        self.harness_errors = []
        self.shrunk = {}              # key -> {case, msg}

    def record(self, case, res):
        self.evaluations += 1
        if res.inconclusive:
            self.inconclusive += 1
        self.excluded += res.excluded
        for lab in res.labels:
            self.labels[lab] += 1
        if res.nontrivial:
            self.nt_hashes.add(case_hash(case))
            if len(self.nt_samples) < self.MAX_SAMPLES:
                self.nt_samples.append(case)
        elif len(self.samples) < 1:
            self.samples.append(case)
        for key, msg in res.fails:
            lst = self.failures.setdefault(key, [])
            if len(lst) < self.MAX_FAIL_PER_KEY:
                lst.append({'case': case, 'msg': msg})

    # bulk interface
    def count(self, n=1, nontrivial=0, label=None):
        self.evaluations += n
        self.nt_constructed += nontrivial
        if label:
            self.labels[label] += n

    def sample(self, case, nontrivial=True):
        tgt = self.nt_samples if nontrivial else self.samples
        if len(tgt) < self.MAX_SAMPLES:
            tgt.append(case)

    def fail(self, key, case, msg=''):
        lst = self.failures.setdefault(key, [])
        if len(lst) < self.MAX_FAIL_PER_KEY:
            lst.append({'case': case, 'msg': str(msg)[:2000]})

    def export(self):
        return {
            'unit': self.unit,
            'evaluations': self.evaluations,
            'nt_hashes': self.nt_hashes,
            'nt_constructed': self.nt_constructed,
            'labels': dict(self.labels),
            'samples': self.samples,
            'nt_samples': self.nt_samples,
            'failures': self.failures,
            'excluded': self.excluded,
            'inconclusive': self.inconclusive,
            'harness_errors': self.harness_errors,
            'shrunk': self.shrunk,
        }
