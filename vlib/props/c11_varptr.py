"""
C11 - variable storage is faithfully exposed (VARPTR / PEEK / VARPTR$) and never aliased.

A case is an operation list (create scalars, DIM, assign, SWAP, ERASE, string growth, forced
collection) interpreted against one fresh session and a model of every variable's stored bytes.
After every operation the address of every live scalar and array element is read with VARPTR
(disjointness, containment in the variable / array areas given by the documented pointers), all
values are re-read (untouched ones must not change), and the stored bytes of the touched and of a
rotating sample of other variables are read with PEEK and compared with the model; after ERASE and
at the end every variable is PEEKed.
"""
import random
import struct
from fractions import Fraction

from hypothesis import strategies as st

from vlib.core import Result, Unit
from vlib import harness
from vlib import mbf
from vlib import bstr_common as bc

ID = 'C11'
LEVEL = 'exploration'
TECHNIQUE = ("model-based stateful testing: operation lists interpreted against a byte-level model "
             "of every variable; PEEK/VARPTR/VARPTR$ observations after every step")
RULE = ("Histories of 4..40 (thorough ..150) operations: create/assign scalars of type % ! # $ "
        "with names of 1..40 characters (shared two-character prefixes, same name with different "
        "sigils, same name as an array), DIM statements for 1..3 arrays of 1..3 dimensions (OPTION "
        "BASE unset/0/1, up to 6 live arrays), assign elements, SWAP, ERASE statements naming "
        "1..4 arrays in any order relative to their allocation order (survivors before, between "
        "and after the erased ones), optionally followed at once by a new DIM, string re-assignment/growth and FRE(\"\") "
        "(string moves). Values: small literals and arbitrary byte patterns assigned through "
        "CVI/CVS/CVD. Non-trivial: at the time of some check at least two arrays existed, or an "
        "ERASE or a collection with live strings had happened; distinct = distinct operation list.")
ASSUMPTIONS = [
    "numbers are assigned either as short decimal literals that are exactly representable "
    "(expected bytes from the independent MBF model vlib/mbf.py) or as CVI/CVS/CVD of explicit "
    "bytes (expected bytes are those bytes; exponent byte 0 only for the all-zero pattern)",
    "scalars must lie in [PEEK(&H358..9), PEEK(&H35A..B)), array elements in [PEEK(&H35A..B), "
    "PEEK(&H35C..D)) (documented low-memory pointers)",
    "the bytes of a zero-length string's address are not asserted",
    "the record header before the value (type byte, name) is not asserted: the statement only "
    "speaks about the value bytes; an internally consistent change of the header size is therefore "
    "not detectable",
    "the array area [PEEK(&H35A..B), PEEK(&H35C..D)) must be empty when no array exists and, "
    "when every live array was dimensioned by a DIM statement of its own, exactly as large as the "
    "growth observed at those DIMs (ERASE returns the room; no layout knowledge is used)",
    "the checker forces FRE(\"\") when FRE(0) < 30000 so that no collection runs between reading a "
    "string pointer and reading its characters",
]

SIZES = {'%': 2, '!': 4, '#': 8, '$': 3}
MK = {'%': b'MKI$', '!': b'MKS$', '#': b'MKD$'}
CV = {'%': b'CVI', '!': b'CVS', '#': b'CVD'}
NAME_CHARS = 'QXZJKVW'
NAME_TAIL = 'QXZJKVW0123456789.'
PREFIXES = ['QX', 'QX', 'ZJ', 'K', 'Q', 'QXZ', 'V9', 'W.']


MAX_ARRAYS = 6


class Stop(Exception):
    pass


# --------------------------------------------------------------------------------------------
# values

def value_bytes(ty, val):
    """Model bytes of a value spec: {'lit': [k, j]} = k / 2^j, {'raw': [..]}, {'s': text}."""
    if ty == '$':
        return val['s'].encode('latin-1')
    if 'raw' in val:
        raw = bytes(val['raw'][:SIZES[ty]]).ljust(SIZES[ty], b'\x01')
        if ty != '%' and raw[-1] == 0:
            raw = bytes(SIZES[ty])
        return raw
    k, j = val['lit']
    if ty == '%':
        return mbf.int16_bytes(max(-32768, min(32767, k)))
    return mbf.encode_value(Fraction(k, 2 ** j), SIZES[ty])


def value_text(ty, val):
    """BASIC expression producing the value."""
    if ty == '$':
        s = val['s'].encode('latin-1')
        parts = []
        cur = b''
        for c in s:
            if c < 32 or c == 34:
                if cur:
                    parts.append(b'"' + cur + b'"')
                    cur = b''
                parts.append(b'CHR$(%d)' % c)
            else:
                cur += bytes([c])
        if cur or not parts:
            parts.append(b'"' + cur + b'"')
        # "+" of a literal and "" so that the value always lives in string space
        return b'+'.join(parts) + b'+""'
    if 'raw' in val:
        raw = value_bytes(ty, val)
        return CV[ty] + b'(' + b'+'.join(b'CHR$(%d)' % c for c in raw) + b')'
    k, j = val['lit']
    if ty == '%':
        return b'%d' % max(-32768, min(32767, k))
    fr = Fraction(k, 2 ** j)
    # exact decimal expansion of a dyadic rational
    sign = b'-' if fr < 0 else b''
    fr = abs(fr)
    ip = fr.numerator // fr.denominator
    frac = fr - ip
    digits = b''
    while frac:
        frac *= 10
        d = frac.numerator // frac.denominator
        digits += b'%d' % d
        frac -= d
    txt = sign + b'%d' % ip + (b'.' + digits if digits else b'')
    return txt + (b'#' if ty == '#' else b'!')


# --------------------------------------------------------------------------------------------
# model

class Arr(object):
    def __init__(self, name, ty, dims, base):
        self.name = name
        self.ty = ty
        self.dims = dims
        self.base = base
        self.cells = {}
        for idx in self.indices():
            self.cells[idx] = b'' if ty == '$' else bytes(SIZES[ty])

    def indices(self):
        out = [()]
        for d in self.dims:
            out = [t + (i,) for t in out for i in range(self.base, d + 1)]
        return out


class Model(object):
    def __init__(self):
        self.scalars = {}     # full name (with sigil) -> bytes  (insertion ordered)
        self.arrays = {}      # full name -> Arr

    def items(self):
        """[(kind, fullname, index tuple or None, type)] in a fixed order."""
        out = []
        for n in self.scalars:
            out.append(('s', n, None, n[-1]))
        for n, a in self.arrays.items():
            for idx in a.indices():
                out.append(('a', n, idx, a.ty))
        return out

    def get(self, it):
        if it[0] == 's':
            return self.scalars[it[1]]
        return self.arrays[it[1]].cells[it[2]]

    def set(self, it, b):
        if it[0] == 's':
            self.scalars[it[1]] = b
        else:
            self.arrays[it[1]].cells[it[2]] = b


def ref(it):
    """BASIC text of a variable reference."""
    if it[0] == 's':
        return it[1].encode()
    return b'%s(%s)' % (it[1].encode(), b','.join(b'%d' % i for i in it[2]))


# --------------------------------------------------------------------------------------------
# interpretation

class Runner(object):

    def __init__(self, case, res):
        self.case = case
        self.res = res
        self.m = Model()
        self.base = 0
        self.erased = False
        self.moved = False
        self.nt = False
        self.snapshot = None
        self.asize = {}       # array name -> observed size of its record + data in the array area

    def fail(self, key, msg):
        self.res.fail(key, msg)
        raise Stop()

    def run(self, text, what, allow_error=False):
        o = self.sess.execute(text)
        if o.kind == 'budget':
            self.res.inconclusive = True
            raise Stop()
        if o.kind != 'ok':
            self.fail(bc.escaped_key(o), '%s %r: %s' % (what, text, (o.tb or '')[-500:]))
        if o.errors and not allow_error:
            self.fail('stmt.error', '%s %r -> error %r' % (what, text, o.errors))
        return o

    def ev(self, text):
        o = self.sess.evaluate(text)
        if o.kind == 'budget':
            self.res.inconclusive = True
            raise Stop()
        if o.kind != 'ok':
            self.fail(bc.escaped_key(o), 'evaluate %r: %s' % (text, (o.tb or '')[-500:]))
        if o.errors:
            self.fail('observe.error', 'evaluate %r -> error %r' % (text, o.errors))
        return o.value

    def peek16(self, a):
        return int(self.ev(b'PEEK(%d)' % a)) + 256 * int(self.ev(b'PEEK(%d)' % (a + 1)))

    # -- observations

    def addresses(self, where):
        """VARPTR of every item; disjointness and containment."""
        m = self.m
        items = m.items()
        vstart, astart, aend = self.peek16(0x358), self.peek16(0x35a), self.peek16(0x35c)
        spans = []
        for it in items:
            a = int(self.ev(b'VARPTR(%s)' % ref(it))) & 0xffff
            size = SIZES[it[3]]
            lo, hi = (vstart, astart) if it[0] == 's' else (astart, aend)
            if not (lo <= a and a + size <= hi):
                self.fail('varptr.outside-area.%s' % ('scalar' if it[0] == 's' else 'array'),
                          '%s: VARPTR(%s)=%d size %d not inside [%d,%d) (areas %d/%d/%d)' % (
                              where, ref(it).decode(), a, size, lo, hi, vstart, astart, aend))
            spans.append((a, a + size, it))
        spans.sort(key=lambda t: (t[0], t[1]))
        for (a0, e0, i0), (a1, e1, i1) in zip(spans, spans[1:]):
            if a1 < e0:
                self.fail('varptr.overlap', '%s: %s at [%d,%d) overlaps %s at [%d,%d)' % (
                    where, ref(i0).decode(), a0, e0, ref(i1).decode(), a1, e1))
        return {(it[1], it[2]): a for a, _, it in spans}

    def read_values(self):
        """All values through the API (used only to show that untouched variables keep theirs)."""
        m = self.m
        out = {}
        try:
            for n in m.scalars:
                out[(n, None)] = self.sess.get(n)
            for n, a in m.arrays.items():
                flat = self.sess.get(n + '()')
                for _ in a.dims[1:]:
                    flat = [x for row in flat for x in row]
                idxs = a.indices()
                if len(flat) != len(idxs):
                    self.fail('value.array-shape', '%s() has %d elements, model %d' % (
                        n, len(flat), len(idxs)))
                for idx, v in zip(idxs, flat):
                    out[(n, idx)] = v
        except Exception as e:      # noqa: B902
            self.fail(bc.exc_key(e), 'reading values: %r' % (e,))
        return out

    def deep(self, it, addr, where):
        """PEEK the stored bytes of one item and compare with the model."""
        m = self.m
        ty = it[3]
        size = SIZES[ty]
        r = ref(it)
        exp = m.get(it)
        peeks = b''.join(b'+CHR$(PEEK(VARPTR(%s)+%d))' % (r, k) for k in range(size))
        if ty == '$':
            got = self.ev(b'VARPTR$(%s)+MKI$(VARPTR(%s))%s' % (r, r, peeks))
            vps, vp, raw = got[:3], got[3:5], got[5:]
        else:
            got = self.ev(b'%s(%s)+VARPTR$(%s)+MKI$(VARPTR(%s))%s' % (MK[ty], r, r, r, peeks))
            mk, vps, vp, raw = got[:size], got[size:size + 3], got[size + 3:size + 5], got[size + 5:]
        region = self.array_region(it)
        if vp != struct.pack('<H', addr):
            self.fail('varptr.unstable', '%s: VARPTR(%s) %d then %r' % (where, r.decode(), addr, vp))
        if vps != bytes([size]) + struct.pack('<H', addr):
            self.fail('varptr$.encoding', '%s: VARPTR$(%s)=%r, expected %r' % (
                where, r.decode(), vps, bytes([size]) + struct.pack('<H', addr)))
        if ty != '$':
            if mk != exp:
                self.fail('value.number', '%s: %s(%s)=%r, model %r' % (
                    where, MK[ty].decode(), r.decode(), mk, exp))
            if raw != exp:
                self.fail('peek.%s' % region, '%s: PEEK at VARPTR(%s)=%d gives %r, stored value %r'
                          % (where, r.decode(), addr, raw, exp))
            return
        if raw[0] != len(exp):
            self.fail('peek.%s.strlen' % region, '%s: PEEK at VARPTR(%s)=%d gives %r, model string '
                      '%r' % (where, r.decode(), addr, raw, exp))
        if exp:
            saddr = raw[1] | (raw[2] << 8)
            chars = self.ev(b'+'.join(b'CHR$(PEEK(%d))' % (saddr + j) for j in range(len(exp))))
            if chars != exp:
                self.fail('peek.%s.strdata' % region, '%s: %s -> pointer %r; PEEK(%d..) gives %r, '
                          'model %r' % (where, r.decode(), raw, saddr, chars, exp))

    def array_region(self, it):
        if it[0] == 's':
            return 'scalar'
        names = list(self.m.arrays)
        return 'array.first' if names.index(it[1]) == 0 else 'array.second'

    def observe(self, step, touched, full, where):
        m = self.m
        # keep collections out of the observation itself
        if self.ev(b'FRE(0)') < 30000:
            self.ev(b'FRE("")')
            self.res.label('checker-forced-gc')
            self.note_move()
        items = m.items()
        if len(m.arrays) >= 2 or self.erased or self.moved:
            self.nt = True
        addrs = self.addresses(where)
        vals = self.read_values()
        if self.snapshot is not None:
            tnames = set((it[1], it[2]) for it in touched)
            for k, v in self.snapshot.items():
                if k in vals and k not in tnames and vals[k] != v:
                    self.fail('value.other-changed', '%s: %s was %r, now %r' % (where, k[0], v, vals[k]))
        self.snapshot = vals
        if full:
            chosen = items
        else:
            chosen = list(touched)
            others = [it for it in items if it not in touched]
            for j in range(min(5, len(others))):
                chosen.append(others[(step * 7 + j * 3) % len(others)])
        seen = set()
        for it in chosen:
            key = (it[1], it[2])
            if key in seen or key not in addrs:
                continue
            seen.add(key)
            self.deep(it, addrs[key], where)
        self.res.label('deep-checks:%s' % ('full' if full else 'sample'))

    def note_move(self):
        m = self.m
        live = any(n.endswith('$') and v for n, v in m.scalars.items()) or any(
            a.ty == '$' and any(a.cells.values()) for a in m.arrays.values())
        if live:
            self.moved = True

    # -- operations

    def pick_items(self, ty=None):
        items = self.m.items()
        if ty:
            items = [it for it in items if it[3] == ty]
        return items

    def area_size(self):
        return self.peek16(0x35c) - self.peek16(0x35a)

    def check_area(self, where):
        """The array area holds exactly the live arrays: sizes observed at DIM time add up."""
        m = self.m
        size = self.area_size()
        if not m.arrays:
            if size != 0:
                self.fail('erase.area-not-released', '%s: no array exists but the array area '
                          '[PEEK(&H35A..B), PEEK(&H35C..D)) still has %d bytes' % (where, size))
        elif all(n in self.asize for n in m.arrays):
            exp = sum(self.asize[n] for n in m.arrays)
            if size != exp:
                self.fail('erase.area-not-released', '%s: array area has %d bytes, the live arrays '
                          '%s took %d bytes when they were dimensioned' % (
                              where, size, sorted(m.arrays), exp))

    def do_dim(self, arrs, idx):
        m = self.m
        todo = []
        for a in arrs:
            name = a['name'] + a['ty']
            if name in m.arrays or name in [n for n, _, _ in todo] or \
                    len(m.arrays) + len(todo) >= MAX_ARRAYS:
                continue
            todo.append((name, a['ty'], [max(self.base, d) for d in a['dims']]))
        if not todo:
            self.res.label('skipped-dim')
            return False
        before = self.area_size()
        self.run(b'DIM ' + b','.join(b'%s(%s)' % (n.encode(), b','.join(b'%d' % d for d in dims))
                                     for n, _, dims in todo), 'step %d' % idx)
        grown = self.area_size() - before
        for n, ty, dims in todo:
            m.arrays[n] = Arr(n, ty, dims, self.base)
            self.res.label('dims:%d' % len(dims))
        if len(todo) == 1:
            # (an array of the same name, type and shape always takes the same room)
            self.asize[todo[0][0]] = grown
        else:
            for n, _, _ in todo:
                self.asize.pop(n, None)
        self.res.label('dim-arrays:%d' % len(todo))
        return True

    def step(self, idx, op):
        m = self.m
        o = op['o']
        self.res.label('op:' + o)
        touched = []
        full = False
        if o == 'scalar':
            name = op['name'] + op['ty']
            it = ('s', name, None, op['ty'])
            b = value_bytes(op['ty'], op['val'])
            self.run(b'%s=%s' % (name.encode(), value_text(op['ty'], op['val'])), 'step %d' % idx)
            if name not in m.scalars:
                self.res.label('new-scalar', 'namelen:%s' % (
                    '1-2' if len(op['name']) <= 2 else '3-8' if len(op['name']) <= 8 else '9-40'))
            m.scalars[name] = b
            touched = [it]
        elif o == 'dim':
            # one DIM statement for 1..3 arrays (old cases: a single name/ty/dims in the op)
            if not self.do_dim(op.get('arrs') or [op], idx):
                return
            full = True
        elif o == 'assign':
            items = self.pick_items()
            if not items:
                return
            it = items[op['k'] % len(items)]
            val = op['val'][it[3]]
            self.run(b'%s=%s' % (ref(it), value_text(it[3], val)), 'step %d' % idx)
            m.set(it, value_bytes(it[3], val))
            touched = [it]
        elif o == 'grow':
            items = self.pick_items('$')
            if not items:
                return
            it = items[op['k'] % len(items)]
            cur = m.get(it)
            add = op['s'].encode('latin-1')[:max(0, 40 - len(cur))]
            self.run(b'%s=%s+%s' % (ref(it), ref(it), value_text('$', {'s': add.decode('latin-1')})),
                     'step %d' % idx)
            m.set(it, cur + add)
            touched = [it]
        elif o == 'swap':
            items = self.pick_items()
            if not items:
                return
            a = items[op['k1'] % len(items)]
            same = self.pick_items(a[3])
            b = same[op['k2'] % len(same)]
            self.run(b'SWAP %s,%s' % (ref(a), ref(b)), 'step %d' % idx)
            va, vb = m.get(a), m.get(b)
            m.set(a, vb)
            m.set(b, va)
            touched = [a, b]
        elif o == 'erase':
            # one ERASE statement naming 1..4 existing arrays, in the order given by the op
            names = list(m.arrays)
            if not names:
                return
            ks = op['k'] if isinstance(op['k'], list) else [op['k']]
            chosen = []
            for k in ks:
                nm = names[k % len(names)]
                if nm not in chosen:
                    chosen.append(nm)
            pos = [names.index(nm) for nm in chosen]
            survivors = [i for i in range(len(names)) if i not in pos]
            self.res.label('erase-names:%d' % len(chosen))
            if len(chosen) == 1:
                self.res.label('erase:%s' % ('last' if pos[0] == len(names) - 1 else 'not-last'))
            else:
                self.res.label('multi-erase:%s' % ('allocation-order' if pos == sorted(pos)
                                                   else 'other-order'))
                if any(min(pos) < i < max(pos) for i in survivors):
                    self.res.label('multi-erase:survivor-between')
                if any(i > max(pos) for i in survivors):
                    self.res.label('multi-erase:survivor-after-all')
                if any(i < min(pos) for i in survivors):
                    self.res.label('multi-erase:survivor-before')
            self.run(b'ERASE %s' % b','.join(nm.encode() for nm in chosen), 'step %d' % idx)
            for nm in chosen:
                del m.arrays[nm]
            self.erased = True
            self.check_area('after step %d (erase %s)' % (idx, ','.join(chosen)))
            self.observe(idx, [], True, 'after step %d (erase %s)' % (idx, ','.join(chosen)))
            # optionally allocate again at once: a stale address record shows as an overlap
            if op.get('redim'):
                self.do_dim(op['redim'], idx)
            full = True
        elif o == 'gc':
            self.ev(b'FRE("")')
            self.note_move()
            full = bool(op.get('full'))
        else:
            raise ValueError(o)
        self.observe(idx, touched, full, 'after step %d (%s)' % (idx, o))

    def go(self):
        case = self.case
        with harness.Sess(sandbox=bc.shared_sandbox(), budget=50000) as sess:
            self.sess = sess
            base = case.get('base')
            if base in (0, 1):
                self.run(b'OPTION BASE %d' % base, 'setup')
                self.base = base
            self.res.label('base:%s' % base)
            for idx, op in enumerate(case['ops']):
                self.step(idx, op)
            self.observe(len(case['ops']), [], True, 'at the end')


def check_case(case):
    res = Result()
    r = Runner(case, res)
    try:
        r.go()
    except Stop:
        pass
    res.nt(r.nt)
    if r.moved:
        res.label('string-move')
    if r.erased:
        res.label('had-erase')
    res.label('arrays-at-end:%d' % len(r.m.arrays))
    return res


# --------------------------------------------------------------------------------------------
# generators

TYPES = ['%', '!', '#', '$']


def gen_name(ch):
    k = ch.int(0, 9)
    if k < 3:
        return ch.choice(['Q', 'X', 'QX', 'ZJ', 'K'])
    prefix = ch.choice(PREFIXES)
    if k < 7:
        n = ch.int(0, 6)
    elif k < 9:
        n = ch.int(7, 20)
    else:
        n = 40 - len(prefix) - ch.int(0, 1)
    return prefix + ''.join(ch.choice(NAME_TAIL) for _ in range(n))


def gen_val(ch, ty):
    if ty == '$':
        n = ch.choice([0, 1, 2, 3, 5, 8, 13, 20])
        salt = ch.int(0, 200)
        if ch.int(0, 3) == 0:
            return {'s': ''.join(chr((salt + 37 * i) % 256) for i in range(n))}
        return {'s': ''.join(chr(35 + (salt + 3 * i) % 88) for i in range(n))}
    if ch.int(0, 1):
        raw = [ch.int(0, 255) for _ in range(SIZES[ty])]
        if ty != '%' and raw[-1] == 0:
            raw[-1] = 129
        return {'raw': raw}
    if ty == '%':
        return {'lit': [ch.choice([0, 1, -1, 255, 256, 32767, -32768, 4660, -2]), 0]}
    return {'lit': [ch.choice([0, 1, -1, 3, 5, -7, 255, 1027, 8191]), ch.choice([0, 0, 1, 2, 3])]}


def gen_arr(ch):
    nd = ch.choice([1, 1, 2, 2, 3])
    dims = [ch.int(0, 3) for _ in range(nd)]
    while (dims[0] + 1) * (dims[1] + 1 if nd > 1 else 1) * (dims[2] + 1 if nd > 2 else 1) > 9:
        dims[dims.index(max(dims))] -= 1
    return {'name': gen_name(ch), 'ty': ch.choice(TYPES), 'dims': dims}


def gen_op(ch):
    o = ch.weighted([(20, 'scalar'), (16, 'dim'), (26, 'assign'), (8, 'grow'), (12, 'swap'),
                     (9, 'erase'), (6, 'gc')])
    if o == 'scalar':
        ty = ch.choice(TYPES)
        return {'o': 'scalar', 'name': gen_name(ch), 'ty': ty, 'val': gen_val(ch, ty)}
    if o == 'dim':
        return {'o': 'dim', 'arrs': [gen_arr(ch) for _ in range(ch.choice([1, 1, 2, 2, 3]))]}
    if o == 'assign':
        return {'o': 'assign', 'k': ch.int(0, 999), 'val': {t: gen_val(ch, t) for t in TYPES}}
    if o == 'grow':
        salt = ch.int(0, 80)
        return {'o': 'grow', 'k': ch.int(0, 999),
                's': ''.join(chr(40 + (salt + i) % 80) for i in range(ch.int(1, 12)))}
    if o == 'swap':
        return {'o': 'swap', 'k1': ch.int(0, 999), 'k2': ch.int(0, 999)}
    if o == 'erase':
        n = ch.choice([1, 1, 2, 2, 2, 3, 4])
        op = {'o': 'erase', 'k': [ch.int(0, 11) for _ in range(n)]}
        if ch.int(0, 2) == 0:
            op['redim'] = [gen_arr(ch) for _ in range(ch.choice([1, 2]))]
        return op
    return {'o': 'gc', 'full': bool(ch.int(0, 1))}


def gen_case(ch, maxsteps):
    n = ch.int(4, maxsteps)
    return {'base': ch.choice([None, 0, 1, 1]), 'ops': [gen_op(ch) for _ in range(n)]}


def max_steps():
    import os
    return 40 if os.environ.get('VERIF_TIER', 'quick') == 'quick' else 150


@st.composite
def strat_case(draw):
    return gen_case(bc.HypChooser(draw), max_steps())


def gen_bulk(shard, nshards, tier, seed):
    ch = bc.RandomChooser(random.Random(seed))
    n = 45 if tier == 'quick' else 600
    steps = 40 if tier == 'quick' else 150
    for _ in range(n):
        yield gen_case(ch, steps)


def units(tier):
    return [
        Unit('histories-bulk', 'enum', shards=16, gen=gen_bulk, per_case_timeout=120.0),
        Unit('histories', 'hyp', shards=16, examples={'quick': 12, 'thorough': 100},
             strategy=strat_case, per_case_timeout=120.0),
    ]


REGRESSIONS = [
    # one ERASE statement naming two arrays while an array allocated after the first one survives
    # (seeded change: address records moved up only for the last erased array)
    {'base': None, 'ops': [
        {'o': 'dim', 'arrs': [{'name': 'QA', 'ty': '%', 'dims': [3]},
                              {'name': 'QB', 'ty': '$', 'dims': [2, 2]},
                              {'name': 'QC', 'ty': '#', 'dims': [2]},
                              {'name': 'QD', 'ty': '!', 'dims': [1, 1]}]},
        {'o': 'assign', 'k': 14, 'val': {'%': {'lit': [7, 0]}, '!': {'raw': [9, 8, 7, 130]},
                                         '#': {'raw': [1, 2, 3, 4, 5, 6, 7, 140]},
                                         '$': {'s': 'pq'}}},
        {'o': 'erase', 'k': [0, 1], 'redim': [{'name': 'QE', 'ty': '%', 'dims': [5]}]},
        {'o': 'erase', 'k': [2, 0]}]},
    {'base': 1, 'ops': [
        {'o': 'dim', 'arrs': [{'name': 'K', 'ty': '$', 'dims': [2]},
                              {'name': 'K', 'ty': '%', 'dims': [2, 2]}]},
        {'o': 'dim', 'arrs': [{'name': 'QX', 'ty': '#', 'dims': [3]},
                              {'name': 'ZJ', 'ty': '!', 'dims': [1, 2]}]},
        {'o': 'erase', 'k': [2, 0], 'redim': [{'name': 'V9', 'ty': '#', 'dims': [1]},
                                              {'name': 'W.', 'ty': '$', 'dims': [1]}]}]},
    # fixed 25ee326e: PEEK into the second array returned bytes of the first array's record
    {'base': None, 'ops': [
        {'o': 'dim', 'name': 'QX', 'ty': '%', 'dims': [2]},
        {'o': 'dim', 'name': 'ZJ', 'ty': '%', 'dims': [2]},
        {'o': 'assign', 'k': 4, 'val': {'%': {'lit': [4660, 0]}, '!': {'lit': [1, 0]},
                                        '#': {'lit': [1, 0]}, '$': {'s': 'x'}}}]},
    {'base': 1, 'ops': [
        {'o': 'dim', 'name': 'QX', 'ty': '$', 'dims': [2, 1]},
        {'o': 'dim', 'name': 'QX', 'ty': '#', 'dims': [2]},
        {'o': 'dim', 'name': 'K', 'ty': '!', 'dims': [1, 1, 1]},
        {'o': 'assign', 'k': 7, 'val': {'%': {'lit': [1, 0]}, '!': {'raw': [1, 2, 3, 132]},
                                        '#': {'raw': [1, 2, 3, 4, 5, 6, 7, 140]}, '$': {'s': 'abc'}}},
        {'o': 'erase', 'k': 0},
        {'o': 'gc', 'full': True}]},
]

KILLS = [
    'revert 25ee326e (Arrays.get_memory picks the first array)  => peek.array.second, peek.array.second.strlen',
    'arrays.py erase_: array_ptr not shifted  => varptr.outside-area.array',
    'arrays.py varptr: ignore OPTION BASE (index + base)  => varptr.outside-area.array',
    'memory.py varptr_str_: size byte always 2  => varptr$.encoding',
    'strings.py get_memory: off-by-one offset  => peek.scalar.strdata, peek.array.*.strdata',
    'memory.py swap_: swap only the first two bytes  => value.number, peek.*',
    'arrays.py erase_: address records of later arrays moved up once, for the last name only (ERASE A,B)  => varptr.outside-area.array (REGRESSIONS 1-2 and histories)',
    'arrays.py erase_: threshold of the move taken from the first erased array for all names  => varptr.outside-area.array, varptr.overlap',
    'arrays.py erase_: current reduced only for the last erased array  => erase.area-not-released',
    'arrays.py _record_size +1 (erase_ frees one byte less than DIM took)  => erase.area-not-released',
    'SURVIVES: scalars.py _record_size +1: header grows by one byte, every pointer shifts consistently; the statement does not cover the record header',
    'SURVIVES: arrays.py index: area *= dimensions[i]+1 (ignoring base): buffers get larger, addresses stay distinct and inside the array area',
]
