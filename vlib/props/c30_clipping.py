"""
C30 - graphics never draws outside the viewport or the active page; text modes => Illegal
function call and nothing changes.

One case = one session in an (adapter, SCREEN mode, active page, visual page) and a history of
1-12 statements (VIEW / VIEW SCREEN with fill and border, WINDOW / WINDOW SCREEN, PSET, PRESET,
LINE plain/B/BF/styled, CIRCLE with arcs and aspect, PAINT solid and tiled, DRAW, GET+PUT with all
verbs, SCREEN ,,apage,vpage, and SCREEN <mode>[,,apage[,vpage]] between the graphics modes of the
adapter and through SCREEN 0). Every statement runs through the silent ON ERROR runner of
vlib.gfxutil; before and after each one the active page is snapshotted and all other pages are
compared with their snapshots. The oracle tracks only the viewport rectangle (set by successful
VIEW statements) and the active page number.
"""
import random

from hypothesis import strategies as st

from vlib.core import Result, Unit
from vlib import gfxutil
from vlib.gfxutil import MODE_BY_NAME, GfxSess

ID = 'C30'
LEVEL = 'exploration'
RULE = ("Seed-driven histories of 1-14 statements (graphics statements, page switches and mode "
        "changes that keep or set the pages) - histories of 1-12 graphics statements in every graphics mode of "
        "every adapter (modes sampled per case, low resolution weighted 3:1; active page != "
        "visual page in about half the cases), coordinates drawn per axis from {inside the "
        "viewport, on its edges, +-1 outside it, on/over the screen edge, +-20000, +-32767/8, "
        "40000, 1E9} in absolute, STEP, VIEW-relative and WINDOW-logical form; a second unit "
        "runs the same statements in SCREEN 0 (40/80 columns) of every adapter incl. MDA. "
        "Non-trivial: a viewport smaller than the screen is active and the statement has a "
        "coordinate on or beyond its boundary, or the active page differs from the visual page "
        "and the statement changed pixels; text mode: every case. distinct = distinct case.")
ASSUMPTIONS = [
    "a successful VIEW may change pixels inside its new rectangle grown by one pixel (it draws "
    "its border just outside the area it declares); a failing VIEW leaves the old viewport",
    "the viewport is re-declared by an explicit VIEW after every SCREEN ,,apage,vpage so the "
    "oracle never has to know whether a page switch keeps the viewport",
    "any BASIC error (Overflow, Illegal function call, ...) is acceptable in graphics modes as "
    "long as no pixel outside the viewport / on another page changes; Python exceptions are not",
    "text modes: the error must be 5; when a number outside -32768..32767 occurs in the statement "
    "Overflow (6) is accepted as well (argument evaluation order is unspecified)",
    "SCREEN with a mode number (graphics->graphics, graphics->text->graphics, same mode, invalid "
    "number; page arguments given or omitted = kept) is part of the histories; the oracle derives "
    "the active page from the SCREEN history (explicit apage, else kept) and cross-checks it after "
    "every successful SCREEN by printing a character and observing which page's pixels change "
    "(text subsystem, independent of the graphics statements); page contents after a real mode "
    "change are not asserted (re-snapshotted); a failing SCREEN must change nothing and is "
    "accepted only with error 5 and an unavailable mode number or a non-zero page number involved",
    "PCjr: a kept page number beyond the new mode's page count silently becomes 0 (accepted when "
    "the print probe shows page 0); Olivetti: SCREEN 3-255 are the 640x400 mode",
    "in the SCREEN 0 phases of a history every graphics statement must raise 5 and change nothing",
    "CLS and PCOPY are not part of the statement list",
]
TECHNIQUE = "Hypothesis statement histories; page-snapshot invariant after every statement"


# --------------------------------------------------------------------------------------------
# oracle

def _rect_of_view(op):
    x0, y0, x1, y1 = op['rect']
    return min(x0, x1), min(y0, y1), max(x0, x1), max(y0, y1)


def _mode_for(mode, screen):
    """Graphics Mode of the same adapter with the given SCREEN number (manual table) or None."""
    if mode.adapter == 'olivetti' and 3 <= screen <= 255:
        screen = 3              # manual: SCREEN 3-255 all select the 640x400 mode on Olivetti
    return MODE_BY_NAME.get('%s/%d' % (mode.adapter, screen))


def check_case(case):
    if case.get('text') is not None:
        return check_text(case)
    res = Result()
    mode0 = MODE_BY_NAME[case['mode']]
    ops = case['ops']
    g = GfxSess(mode0, case.get('ap', 0), case.get('vp', 0))
    try:
        if g.setup_error:
            res.fail('setup', g.setup_error)
            return res
        probe = ['LOCATE 1,1:PRINT " ";', 'LOCATE 1,1:PRINT CHR$(219);']
        stmts = ['DIM A%(4000)'] + [op['t'] for op in ops] + probe
        p1, p2 = len(stmts) - 2, len(stmts) - 1
        o = g.load(stmts)
        if o is not None:
            res.fail('setup.load', 'storing the program: %r' % (o,))
            return res
        if case.get('bg') is not None:
            for p in range(g.npages):
                g.put_rows(gfxutil.noise_rows(case['bg'] + p, mode0.width, mode0.height,
                                              mode0.nattr, 64), page=p)
        err, o = g.run(0)
        if err != 0:
            res.fail('setup.dim', 'DIM: %r %r' % (err, o))
            return res
        res.label('mode:' + mode0.name, 'pages:%s' % ('same' if g.apage == g.vpage else 'split'))
        # ---- model state: current mode (None = text), active page, viewport --------------------
        cur = mode0
        W, H = cur.width, cur.height
        ap = g.apage
        view = (0, 0, W - 1, H - 1)
        snaps = g.snap_all()
        nt = False

        def history(i):
            return ' : '.join(q['t'] for q in ops[:i])

        def probe_active_page(i, expected):
            """Where does console output land? (page-visible cross-check of the active page,
            through the text subsystem - independent of the graphics statements under test)"""
            nonlocal snaps
            e1, o1 = g.run(p1, allow_output=True)
            base = g.snap_all()
            e2, o2 = g.run(p2, allow_output=True)
            if e1 != 0 or e2 != 0:
                res.fail('probe.err', 'PRINT probe after %s: %r %r' % (ops[i]['t'], e1, e2))
                snaps = g.snap_all()
                return expected
            hit = g.changed_pages(base)
            snaps = g.snap_all()
            if hit == [expected]:
                return expected
            npg = len(g.display.pages)
            if mode0.adapter == 'pcjr' and expected >= npg and hit == [0]:
                # PCjr: a kept page number beyond the new mode's pages silently becomes 0
                res.label('pcjr-page-reset')
                return 0
            res.fail('mode.active-page', 'after %s in %s (history: %s) console output lands on '
                     'page(s) %r but the SCREEN history makes page %d the active page' % (
                         ops[i]['t'], mode0.adapter, history(i), hit, expected))
            return hit[0] if len(hit) == 1 else expected

        for i, op in enumerate(ops):
            kind = op['k']
            npages = len(g.display.pages)
            before = snaps[ap] if ap < len(snaps) else None
            err, o = g.run(i + 1)
            where = cur.name if cur is not None else '%s/text' % mode0.adapter
            if err is None:
                if o.kind == 'budget':
                    res.inconclusive = True
                    res.label('budget')
                    break
                key = gfxutil.escaped_key(o) if o.kind == 'escaped' else 'not-silent.' + kind
                if (kind == 'page' and view != (0, 0, W - 1, H - 1) and o.kind == 'escaped'
                        and o.exc == 'AssertionError' and (o.frame or '').endswith(':set_page')):
                    # finding (fixed fc57e203): page switch while a viewport is active
                    key = 'page.switch-with-view.AssertionError'
                res.fail(key, '%s in %s: %r %s' % (op['t'], where, o, o.tb or ''))
                break
            res.label('k:' + kind, 'err:%d' % err if err else 'ok')

            # ---- SCREEN with a mode number ------------------------------------------------------
            if kind == 'mode':
                target = None if op['screen'] == 0 else _mode_for(mode0, op['screen'])
                known = op['screen'] == 0 or target is not None
                want_ap = op['ap'] if op.get('ap') is not None else ap
                want_vp = op.get('vp')
                same_mode = (target is cur) if known else False
                if err != 0:
                    # manual: unavailable mode number or page numbers beyond the mode's pages => 5
                    excusable = (not known) or want_ap >= 1 or (want_vp or 0) >= 1
                    if err != 5 or not excusable:
                        res.fail('mode.err', '%s raised error %d in %s (active page %d); history: %s'
                                 % (op['t'], err, where, ap, history(i)))
                    ch = g.changed_pages(snaps) if len(snaps) == npages else [-1]
                    if ch:
                        res.fail('nochange.mode', '%s failed with error %d but changed page(s) %r'
                                 % (op['t'], err, ch))
                        snaps = g.snap_all()
                    continue
                if not known:
                    res.fail('mode.err', '%s succeeded but the manual lists no such mode for %s'
                             % (op['t'], mode0.adapter))
                    break
                res.label('mode-change:%s->%s' % (
                    'text' if cur is None else 'gfx', 'text' if target is None else 'gfx')
                    if not same_mode else 'mode-same')
                if same_mode:
                    ch = g.changed_pages(snaps)
                    if ch:
                        res.fail('nochange.mode', '%s (same mode) changed page(s) %r' % (op['t'], ch))
                cur = target
                if cur is not None:
                    pix = g.display.pages[0].pixels
                    if (pix.width, pix.height) != (cur.width, cur.height):
                        res.fail('mode.dims', '%s: page is %dx%d, manual says %dx%d' % (
                            op['t'], pix.width, pix.height, cur.width, cur.height))
                        break
                    W, H = cur.width, cur.height
                else:
                    pix = g.display.pages[0].pixels
                    W, H = pix.width, pix.height
                view = (0, 0, W - 1, H - 1)
                ap = probe_active_page(i, want_ap)
                if ap != case.get('ap', 0) or not same_mode:
                    nt = True
                continue

            # ---- text mode: every graphics statement => Illegal function call, nothing changes ---
            if cur is None and kind != 'page':
                okset = {5, 6} if op.get('big') else {5}
                if err not in okset:
                    res.fail('text.err.' + kind, '%s in SCREEN 0 of %s: error %d, expected Illegal '
                             'function call; history: %s' % (op['t'], mode0.adapter, err, history(i)))
                ch = g.changed_pages(snaps)
                if ch:
                    res.fail('text.changed.' + kind, '%s in SCREEN 0 of %s changed page(s) %r' % (
                        op['t'], mode0.adapter, ch))
                    snaps = g.snap_all()
                nt = True
                continue

            # ---- graphics mode: which rectangle of the active page may have changed? -------------
            new_ap = ap
            if kind == 'view' and err == 0:
                vx0, vy0, vx1, vy1 = _rect_of_view(op)
                allowed = (vx0 - 1, vy0 - 1, vx1 + 1, vy1 + 1)
                newview = (vx0, vy0, vx1, vy1)
            elif kind == 'view-reset' and err == 0:
                allowed = None
                newview = (0, 0, W - 1, H - 1)
            elif kind in ('window', 'page', 'view-reset', 'get'):
                allowed = None
                newview = view
                if kind == 'page':
                    valid = op['ap'] < npages and op['vp'] < npages
                    if valid and err == 0:
                        new_ap = op['ap']
                    elif valid or err != 5:
                        # manual: page numbers beyond the mode's pages => Illegal function call
                        res.fail('page.err', '%s raised %d with %d pages' % (op['t'], err, npages))
            else:
                allowed = view
                newview = view
            after = g.snap(ap)
            changed = after != before
            if changed:
                if allowed is None:
                    res.fail('nochange.' + kind, '%s (err %d) in %s changed pixels: %s' % (
                        op['t'], err, where, gfxutil.describe_diff(before, after)))
                elif not gfxutil.outside_rect_equal(before, after, allowed):
                    bad = [(x, y) for x, y in gfxutil.diff_pixels(before, after)
                           if not (allowed[0] <= x <= allowed[2] and allowed[1] <= y <= allowed[3])]
                    res.fail('clip.' + kind, '%s (err %d) in %s with viewport %r changed %d pixels '
                             'outside %r, e.g. %r; history: %s' % (
                                 op['t'], err, where, view, len(bad), allowed, bad[:3], history(i)))
            snaps[ap] = after
            for p in g.changed_pages(snaps, skip=ap):
                res.fail('page.' + kind, '%s (err %d) in %s changed page %d while page %d is '
                         'active (visual %d); history: %s' % (
                             op['t'], err, where, p, ap, g.display.vpagenum, history(i)))
                snaps[p] = g.snap(p)
            small = view != (0, 0, W - 1, H - 1)
            if (small and op.get('x')) or (changed and ap != g.display.vpagenum):
                nt = True
            if small and op.get('x'):
                res.label('crossing')
            view = newview
            if kind == 'page' and err == 0:
                ap = probe_active_page(i, new_ap)
            else:
                ap = new_ap
        res.nt(nt)
    finally:
        g.close()
    return res


def check_text(case):
    res = Result()
    name, kw = gfxutil.TEXT_CONFIGS[case['text'] % len(gfxutil.TEXT_CONFIGS)]
    ops = case['ops']
    g = GfxSess(None, kwargs=kw)
    try:
        stmts = ['DIM A%(400)', 'LOCATE 3,2:PRINT "text mode";:COLOR 2,1:PRINT " x";'] + [
            op['t'] for op in ops]
        o = g.load(stmts)
        if o is not None:
            res.fail('setup.load', 'storing the program: %r' % (o,))
            return res
        for k in (0, 1):
            err, o = g.run(k, allow_output=True)
            if err != 0:
                res.fail('setup.text', '%s: %r %r' % (stmts[k], err, o))
                return res
        res.label('text:%s/%d' % (name, kw['text_width']))
        res.nt(True)
        snaps = g.snap_all()
        text0 = g.text_state()
        for i, op in enumerate(ops):
            err, o = g.run(i + 2)
            if err is None:
                if o.kind == 'budget':
                    res.inconclusive = True
                    break
                key = gfxutil.escaped_key(o) if o.kind == 'escaped' else 'not-silent.' + op['k']
                res.fail(key, '%s in text mode %s: %r %s' % (op['t'], name, o, o.tb or ''))
                break
            res.label('k:' + op['k'], 'err:%d' % err)
            ok = {5, 6} if op.get('big') else {5}
            if err not in ok:
                res.fail('text.err.' + op['k'], '%s in SCREEN 0 of %s: error %d, expected Illegal '
                         'function call' % (op['t'], name, err))
            ch = g.changed_pages(snaps)
            if ch:
                res.fail('text.changed.' + op['k'], '%s in SCREEN 0 of %s changed page(s) %r' % (
                    op['t'], name, ch))
                snaps = g.snap_all()
        if g.text_state() != text0:
            res.fail('text.buffer', 'character/attribute buffers changed in SCREEN 0 of %s: %s' % (
                name, ' : '.join(op['t'] for op in ops)))
    finally:
        g.close()
    return res


# --------------------------------------------------------------------------------------------
# generators
#
# Histories are produced by a deterministic pseudo-random builder driven by an integer seed that
# Hypothesis draws (plus a length n, so that failing histories shrink to their shortest failing
# prefix). Building the statements from nested Hypothesis draws was tried first and gave 4x fewer
# distinct statements per 300 cases (the engine's span-mutation phase keeps re-using fragments).

MODE_WEIGHTED = gfxutil.LOWRES * 3 + gfxutil.HIRES
VERBS = ['PSET', 'PRESET', 'AND', 'OR', 'XOR', None]


class _R(object):
    def __init__(self, seed):
        self.r = random.Random(seed)

    def pick(self, seq):
        return seq[self.r.randrange(len(seq))]

    def int(self, a, b):
        if b < a:
            return a
        return self.r.randint(a, b)

    def one_in(self, n):
        return self.r.randrange(n) == 0

    def coin(self):
        return self.r.random() < 0.5


def _num(v):
    if isinstance(v, float):
        if v == int(v) and abs(v) >= 1e6:
            digits = len(str(int(abs(v)))) - 1
            return '%dE%d' % (int(v / 10 ** digits), digits)
        return ('%.3f' % v).rstrip('0').rstrip('.') or '0'
    return str(v)


def _p(x, y):
    return '(%s,%s)' % (_num(x), _num(y))


class _State(object):
    """Generator-side idea of the coordinate system (only used to aim coordinates)."""

    def __init__(self, W, H, adapter=None, nattr=None):
        self.adapter = adapter
        self.nattr = nattr
        self.reset(W, H)

    def reset(self, W, H):
        self.W, self.H = W, H
        self.view = (0, 0, W - 1, H - 1)
        self.vscreen = True          # statement coordinates are absolute
        self.win = None              # (x0, y0, x1, y1, screenflag)

    def full(self):
        return self.view == (0, 0, self.W - 1, self.H - 1)

    def axis_bounds(self, axis):
        """(a, b, sa, sb): viewport and screen extent along an axis in statement coordinates."""
        v0, v1 = (self.view[0], self.view[2]) if axis == 0 else (self.view[1], self.view[3])
        n = self.W if axis == 0 else self.H
        if self.vscreen:
            return v0, v1, 0, n - 1
        return 0, v1 - v0, -v0, n - 1 - v0

    def to_logical(self, axis, p):
        if self.win is None:
            return p
        a, b, _, _ = self.axis_bounds(axis)
        w0, w1 = (self.win[0], self.win[2]) if axis == 0 else (self.win[1], self.win[3])
        w0, w1 = min(w0, w1), max(w0, w1)
        n = max(1, b - a)
        if self.vscreen:
            p = p - a
        f = float(p) / n
        if axis == 1 and not self.win[4]:
            f = 1.0 - f
        return round(w0 + f * (w1 - w0), 3)


AXIS_CLASSES = (['in'] * 8 + ['edge'] * 3 + ['out1'] * 3 + ['scr'] * 2 + ['scrout'] * 2 +
                ['far'] * 2 + ['ovf'])


def _axis(r, state, axis):
    a, b, sa, sb = state.axis_bounds(axis)
    cls = r.pick(AXIS_CLASSES)
    if cls == 'in':
        v = r.int(a, b)
    elif cls == 'edge':
        v = r.pick([a, b])
    elif cls == 'out1':
        v = r.pick([a - 1, b + 1, a - 2, b + 2])
    elif cls == 'scr':
        v = r.pick([sa, sb])
    elif cls == 'scrout':
        v = r.pick([sa - 1, sb + 1])
    elif cls == 'far':
        return r.pick([32767, -32768, -32767, 20000, -20000, 1000, -1000]), cls
    else:
        return r.pick([40000, -40000, 1e9, -1e9, 32768, -32769]), cls
    return state.to_logical(axis, v), cls


def _pt(r, state):
    x, cx = _axis(r, state, 0)
    y, cy = _axis(r, state, 1)
    return x, y, (cx != 'in' or cy != 'in'), (cx == 'ovf' or cy == 'ovf')


def _attr(r, N):
    k = r.int(0, 9)
    if k < 6:
        return r.int(0, N - 1)
    if k < 8:
        return None
    return r.pick([N, 17, 255, N - 1])


def _draw_string(r, state):
    toks = []
    for _ in range(r.int(1, 8)):
        k = r.pick(['mv', 'mv', 'mv', 'mv', 'M', 'M', 'S', 'A', 'TA', 'C', 'P'])
        if k == 'mv':
            pre = r.pick(['', '', '', 'B', 'N', 'BN'])
            n = r.pick(['', r.int(0, 40), r.int(0, 800),
                        r.pick([20000, 32767, 40000, 99999, -5, -300, -20000])])
            toks.append('%s%s%s' % (pre, r.pick('UDLREFGH'), n))
        elif k == 'M':
            pre = r.pick(['', '', 'B', 'N'])
            if r.coin():
                a, b, sa, sb = state.axis_bounds(0)
                x = r.pick([a, b, a - 1, b + 1, sa, sb + 1, (a + b) // 2, 9999, r.int(a, b)])
                a, b, sa, sb = state.axis_bounds(1)
                y = r.pick([a, b, a - 1, b + 1, sa, sb + 1, (a + b) // 2, 9999, r.int(a, b)])
                toks.append('%sM%d,%d' % (pre, x, y))
            else:
                x = r.pick([0, 3, 50, 700, 9999, r.int(0, 100)])
                y = r.pick([0, 3, 50, 700, 9999, r.int(0, 100)])
                toks.append('%sM%s%d,%s%d' % (pre, r.pick('+-'), x, r.pick(['', '-', '+']), y))
        elif k == 'S':
            toks.append('S%d' % r.pick([1, 3, 4, 7, 16, 100, 255]))
        elif k == 'A':
            toks.append('A%d' % r.int(0, 3))
        elif k == 'TA':
            toks.append('TA%d' % r.pick([0, 30, 45, 90, -90, 123, 180, 270, -360]))
        elif k == 'C':
            toks.append('C%d' % r.int(0, 3))
        else:
            toks.append('P%d,%d' % (r.int(0, 3), r.int(0, 3)))
    return r.pick(['', ';', ' ']).join(toks)


def _view_op(r, state, N, force_small=False):
    W, H = state.W, state.H
    if not force_small and r.one_in(10):
        state.view = (0, 0, W - 1, H - 1)
        state.vscreen = True
        return {'k': 'view-reset', 't': 'VIEW'}
    x0 = r.pick([r.int(0, W - 2), r.int(0, W - 2), 0, 1, 8])
    y0 = r.pick([r.int(0, H - 2), r.int(0, H - 2), 0, 1, 8])
    x1 = r.pick([r.int(x0 + 1, W - 1), r.int(x0 + 1, min(W - 1, x0 + 60)),
                 r.int(x0 + 1, min(W - 1, x0 + 60)), W - 1])
    y1 = r.pick([r.int(y0 + 1, H - 1), r.int(y0 + 1, min(H - 1, y0 + 40)),
                 r.int(y0 + 1, min(H - 1, y0 + 40)), H - 1])
    if r.one_in(8):
        x0, x1 = x1, x0
    if r.one_in(8):
        y0, y1 = y1, y0
    scr = r.coin()
    fill = r.pick([None, None, r.int(0, N - 1)])
    border = r.pick([None, r.int(0, N - 1), r.int(1, N - 1)])
    t = 'VIEW %s(%d,%d)-(%d,%d)' % ('SCREEN ' if scr else '', x0, y0, x1, y1)
    if fill is not None or border is not None:
        t += ',%s' % ('' if fill is None else fill)
        if border is not None:
            t += ',%d' % border
    state.view = (min(x0, x1), min(y0, y1), max(x0, x1), max(y0, y1))
    state.vscreen = scr
    return {'k': 'view', 't': t, 'rect': [x0, y0, x1, y1]}


def _ops(r, state, N, kind, npages):
    """One macro: a list of op dicts."""
    if kind == 'view':
        return [_view_op(r, state, N)]
    if kind == 'window':
        if r.one_in(6):
            state.win = None
            return [{'k': 'window', 't': 'WINDOW'}]
        x0 = r.pick([0, -1, -100, 10, -1000.5, 0.25])
        y0 = r.pick([0, -1, -100, 10, -1000.5, 0.25])
        x1 = x0 + r.pick([1, 2, 100, 320, 1000, 30000, 0.5])
        y1 = y0 + r.pick([1, 2, 100, 200, 1000, 30000, 0.5])
        scr = r.coin()
        state.win = (x0, y0, x1, y1, scr)
        return [{'k': 'window', 't': 'WINDOW %s%s-%s' % ('SCREEN ' if scr else '',
                                                        _p(x0, y0), _p(x1, y1))}]
    if kind == 'page':
        a, v = r.int(0, npages - 1), r.int(0, npages - 1)
        ops = []
        if r.one_in(3) and not state.full():
            # finding page.switch-with-view (fixed fc57e203): switching pages with an active
            # viewport escaped with an AssertionError. Two thirds of the page switches now happen
            # with the viewport still set; the rest reset it first.
            ops.append({'k': 'view-reset', 't': 'VIEW'})
        ops.append({'k': 'page', 't': 'SCREEN ,,%d,%d' % (a, v), 'ap': a, 'vp': v})
        ops.append(_view_op(r, state, N, force_small=r.coin()))
        return ops
    if kind in ('mode', 'via-text'):
        # SCREEN with a mode number: another graphics mode of the adapter (pages given or kept),
        # optionally through SCREEN 0; always followed by an explicit VIEW and more drawing
        siblings = [m for m in gfxutil.MODES if m.adapter == state.adapter]

        def screen_stmt(number):
            form = r.pick(['keep', 'keep', 'a', 'av', 'av'])
            a, v = r.int(0, 1), r.int(0, 1)
            if form == 'keep':
                return {'k': 'mode', 't': 'SCREEN %d' % number, 'screen': number, 'ap': None,
                        'vp': None}
            if form == 'a':
                return {'k': 'mode', 't': 'SCREEN %d,,%d' % (number, a), 'screen': number,
                        'ap': a, 'vp': None}
            return {'k': 'mode', 't': 'SCREEN %d,,%d,%d' % (number, a, v), 'screen': number,
                    'ap': a, 'vp': v}
        ops = []
        if kind == 'via-text':
            ops.append(screen_stmt(0))
            state.reset(640, 200)
            for _ in range(r.int(0, 2)):
                ops.extend(_ops(r, state, 4, r.pick(['pset', 'line', 'circle', 'paint', 'draw']),
                                npages))
        bad = [n for n in (1, 2, 3, 7, 8, 9, 10, 11, 13) if not any(m.screen == n for m in siblings)]
        if state.adapter == 'olivetti':
            bad = []
        if bad and r.one_in(12):
            ops.append(screen_stmt(r.pick(bad)))
            return ops
        target = r.pick(siblings)
        ops.append(screen_stmt(target.screen))
        state.reset(target.width, target.height)
        state.nattr = target.nattr
        ops.append(_view_op(r, state, target.nattr, force_small=not r.one_in(4)))
        return ops
    if kind in ('pset', 'preset'):
        x, y, ext, big = _pt(r, state)
        c = _attr(r, N)
        t = '%s %s%s%s' % (kind.upper(), 'STEP' if r.one_in(5) else '', _p(x, y),
                           '' if c is None else ',%d' % c)
        return [{'k': 'pset', 't': t, 'x': ext, 'big': big}]
    if kind == 'line':
        x0, y0, e0, b0 = _pt(r, state)
        x1, y1, e1, b1 = _pt(r, state)
        c = _attr(r, N)
        shape = r.pick(['', '', 'B', 'BF'])
        style = r.pick([None, None, None, -21846, 255, 1, -32768, 0x0F0F, 0])
        form = r.pick(['abs', 'abs', 'abs', 'abs', 'last', 'step1', 'step01'])
        if form == 'last':
            t = 'LINE -%s' % _p(x1, y1)
            e0 = b0 = False
        elif form == 'step1':
            t = 'LINE %s-STEP%s' % (_p(x0, y0), _p(x1, y1))
        elif form == 'step01':
            t = 'LINE STEP%s-STEP%s' % (_p(x0, y0), _p(x1, y1))
        else:
            t = 'LINE %s-%s' % (_p(x0, y0), _p(x1, y1))
        tail = ''
        if c is not None or shape or style is not None:
            tail += ',%s' % ('' if c is None else c)
        if shape or style is not None:
            tail += ',%s' % shape
        if style is not None:
            tail += ',%d' % style
        return [{'k': 'line' + shape.lower(), 't': t + tail, 'x': e0 or e1, 'big': b0 or b1}]
    if kind == 'circle':
        x, y, ext, big = _pt(r, state)
        a, b, _, _ = state.axis_bounds(0)
        span = max(2, b - a)
        rad = r.pick([r.int(0, 30), r.int(0, span), r.int(0, 2 * span), span // 2, span, 1000, 5000])
        if r.one_in(40):
            rad = r.pick([20000, 32767, 40000])
            big = big or rad > 32767
        if state.win is not None:
            wx = abs(state.win[2] - state.win[0])
            rad = round(rad * wx / float(span), 3)
        c = _attr(r, N)
        angles = [None, None, None, 0, 0.5, 1.57, 3.14, 4.5, 6.28, -0.5, -1.57, -3.14, -6.28, 2.0, -2.0]
        s0, s1 = r.pick(angles), r.pick(angles)
        asp = r.pick([None, None, None, 0.1, 0.5, 1, 2, 10, 0.833])
        parts = [_num(rad), '' if c is None else str(c), '' if s0 is None else _num(float(s0)),
                 '' if s1 is None else _num(float(s1)), '' if asp is None else _num(float(asp))]
        while parts and parts[-1] == '':
            parts.pop()
        t = 'CIRCLE %s%s,%s' % ('STEP' if r.one_in(6) else '', _p(x, y), ','.join(parts))
        return [{'k': 'circle', 't': t, 'x': bool(ext or rad > 3), 'big': big}]
    if kind == 'paint':
        x, y, ext, big = _pt(r, state)
        tiled = r.one_in(4)
        if tiled:
            tile = [r.pick([0, 255, 0x55, 0xAA, 0x81, 0x0F, 1, 0x80, 0x33]) for _ in range(r.int(1, 8))]
            fill = '+'.join('CHR$(%d)' % b for b in tile)
        else:
            c = _attr(r, N)
            fill = '' if c is None else str(c)
        border = r.pick([None, r.int(0, N - 1)])
        t = 'PAINT %s%s' % ('STEP' if r.one_in(8) else '', _p(x, y))
        if fill or border is not None:
            t += ',' + fill
        if border is not None:
            t += ',%d' % border
            if tiled and r.one_in(4):
                t += ',CHR$(%d)' % r.pick([0, 255, 0x55, 0x0F])
        return [{'k': 'paint' + ('-tile' if tiled else ''), 't': t, 'x': True, 'big': big}]
    if kind == 'draw':
        ops = []
        if r.coin():
            x, y, ext, big = _pt(r, state)
            ops.append({'k': 'pset', 't': 'PSET %s' % _p(x, y), 'x': ext, 'big': big})
        ops.append({'k': 'draw', 't': 'DRAW "%s"' % _draw_string(r, state), 'x': True, 'big': False})
        return ops
    if kind == 'getput':
        # GET from inside the viewport (mostly), PUT fitting / straddling an edge / anywhere
        a, b, sa, sb = state.axis_bounds(0)
        c, d, sc, sd = state.axis_bounds(1)
        gx0, gy0 = r.int(a, b), r.int(c, d)
        over = 1 if r.one_in(10) else 0
        gx1 = min(b + over, gx0 + r.int(0, 40))
        gy1 = min(d + over, gy0 + r.int(0, 24))
        w, h = gx1 - gx0 + 1, gy1 - gy0 + 1
        ops = [{'k': 'get', 't': 'GET %s-%s,A%%' % (
            _p(state.to_logical(0, gx0), state.to_logical(1, gy0)),
            _p(state.to_logical(0, gx1), state.to_logical(1, gy1)))}]

        def place(axis, lo, hi, size):
            how = r.pick(['fit', 'fit', 'fit', 'hi', 'hi', 'hi', 'lo', 'pt', 'pt'])
            if how == 'fit' and hi - size + 1 >= lo:
                return state.to_logical(axis, r.int(lo, hi - size + 1)), False, False
            if how == 'hi' or how == 'fit':
                # first corner inside, second corner beyond the far edge
                return state.to_logical(axis, r.int(max(lo, hi - size + 2), hi)), True, False
            if how == 'lo':
                return state.to_logical(axis, lo - r.int(1, size)), True, False
            v, cls = _axis(r, state, axis)
            return v, cls != 'in', cls == 'ovf'
        for _ in range(r.int(1, 3)):
            x, ex, bx = place(0, a, b, w)
            y, ey, by = place(1, c, d, h)
            verb = r.pick(VERBS)
            ops.append({'k': 'put', 't': 'PUT %s,A%%%s' % (_p(x, y), '' if verb is None
                                                           else ',' + verb),
                        'x': ex or ey, 'big': bx or by})
        return ops
    raise ValueError(kind)


KINDS = (['view'] * 2 + ['window'] * 2 + ['page'] * 2 + ['mode'] * 2 + ['via-text'] +
         ['pset', 'preset'] + ['line'] * 6 + ['circle'] * 4 + ['paint'] * 4 + ['draw'] * 4 +
         ['getput'] * 3)

PAGE_PAIRS = [(0, 0), (1, 1), (1, 0), (0, 1), (2, 1), (3, 0), (1, 2)]


def build_case(mname, seed, n):
    """Deterministic history of at most n statements (a prefix of the seed's full history)."""
    mode = MODE_BY_NAME[mname]
    r = _R(seed)
    ap, vp = r.pick(PAGE_PAIRS)
    bg = r.pick([None, r.int(0, 1000)])
    state = _State(mode.width, mode.height, mode.adapter, mode.nattr)
    ops = []
    if r.one_in(4):
        # start with a mode change that keeps the (possibly non-zero) pages of the set-up
        ops.extend(_ops(r, state, state.nattr, r.pick(['mode', 'mode', 'via-text']), 8))
    elif not r.one_in(5):
        ops.append(_view_op(r, state, mode.nattr, force_small=True))
    while len(ops) < 14:
        ops.extend(_ops(r, state, state.nattr, r.pick(KINDS), 8))
    return {'mode': mname, 'ap': ap, 'vp': vp, 'bg': bg, 'ops': ops[:max(1, n)]}


def build_text_case(cfg, seed, n):
    width = gfxutil.TEXT_CONFIGS[cfg][1]['text_width']
    r = _R(seed)
    ops = []
    while len(ops) < 10:
        state = _State(width * 8, 200)
        if r.one_in(3):
            state.win = (0, 0, 100, 100, r.coin())
        kind = r.pick([k for k in KINDS if k not in ('page', 'mode', 'via-text')])
        ops.extend(_ops(r, state, 4, kind, 1))
    for op in ops:
        op.setdefault('big', False)
    return {'text': cfg, 'ops': ops[:max(1, n)]}


def strat_case():
    return st.builds(build_case, st.sampled_from(MODE_WEIGHTED), st.integers(0, 2 ** 31),
                     st.integers(1, 14))


def strat_text():
    return st.builds(build_text_case, st.integers(0, len(gfxutil.TEXT_CONFIGS) - 1),
                     st.integers(0, 2 ** 31), st.integers(1, 10))


def units(tier):
    return [
        Unit('histories', 'hyp', shards=16,
             examples=gfxutil.scaled({'quick': 110, 'thorough': 3000}), strategy=strat_case),
        Unit('textmode', 'hyp', shards=16,
             examples=gfxutil.scaled({'quick': 25, 'thorough': 600}), strategy=strat_text),
    ]


REGRESSIONS = [
    # seeded mutation that survived an earlier version (Graphics.set_page returning early when the
    # page number is unchanged): a mode change keeps active page 1, init_mode re-binds the viewport
    # to page 0 and nothing re-points it
    {'mode': 'ega/7', 'ap': 1, 'vp': 1, 'bg': None, 'ops': [
        {'k': 'mode', 't': 'SCREEN 9', 'screen': 9, 'ap': None, 'vp': None},
        {'k': 'view', 't': 'VIEW (10,10)-(50,40)', 'rect': [10, 10, 50, 40]},
        {'k': 'line', 't': 'LINE (0,0)-(100,100),3', 'x': True, 'big': False}]},
    {'mode': 'vga/7', 'ap': 0, 'vp': 0, 'bg': None, 'ops': [
        {'k': 'mode', 't': 'SCREEN 0,,1,1', 'screen': 0, 'ap': 1, 'vp': 1},
        {'k': 'pset', 't': 'PSET (1,1)', 'x': False, 'big': False},
        {'k': 'mode', 't': 'SCREEN 8', 'screen': 8, 'ap': None, 'vp': None},
        {'k': 'view', 't': 'VIEW SCREEN (100,50)-(300,150),1,2', 'rect': [100, 50, 300, 150]},
        {'k': 'circle', 't': 'CIRCLE (200,100),150,3', 'x': True, 'big': False},
        {'k': 'paint', 't': 'PAINT (101,51),2,3', 'x': True, 'big': False}]},
    # finding page.switch-with-view.AssertionError (findings_proposed/C30.json), fixed fc57e203
    {'mode': 'ega/7', 'ap': 0, 'vp': 0, 'bg': None, 'ops': [
        {'k': 'view', 't': 'VIEW (1,1)-(10,10)', 'rect': [1, 1, 10, 10]},
        {'k': 'page', 't': 'SCREEN ,,1,0', 'ap': 1, 'vp': 0}]},
    {'mode': 'ega/7', 'ap': 1, 'vp': 0, 'bg': 3, 'ops': [
        {'k': 'view', 't': 'VIEW (10,10)-(50,40),1,2', 'rect': [10, 10, 50, 40]},
        {'k': 'line', 't': 'LINE (-5,-5)-(100,100),3', 'x': True, 'big': False},
        {'k': 'circle', 't': 'CIRCLE (20,15),30,2', 'x': True, 'big': False},
        {'k': 'paint', 't': 'PAINT (1,1),1,2', 'x': True, 'big': False},
        {'k': 'view-reset', 't': 'VIEW'},
        {'k': 'page', 't': 'SCREEN ,,0,1', 'ap': 0, 'vp': 1},
        {'k': 'view', 't': 'VIEW SCREEN (100,100)-(60,50)', 'rect': [100, 100, 60, 50]},
        {'k': 'draw', 't': 'DRAW "BM80,70;U300R300"', 'x': True, 'big': False}]},
    {'text': 0, 'ops': [{'k': 'pset', 't': 'PSET (1,1)', 'big': False},
                        {'k': 'draw', 't': 'DRAW "U5"', 'big': False},
                        {'k': 'view', 't': 'VIEW (1,1)-(5,5)', 'rect': [1, 1, 5, 5], 'big': False}]},
]

KILLS = [
    "independently seeded mutation, VERIF_REPO=<scratch> ./check C30 --unit histories (full quick counts): Graphics.set_page 'if apagenum == self._apagenum: return' -> exit 1, page.view/page.line/page.lineb/page.linebf/page.circle/page.paint/page.paint-tile/page.draw/page.pset/page.put (survived before mode-changing SCREEN statements were added to the histories)",
    'final code, VERIF_REPO=<scratch> ./check C30 (VERIF_GFX_SCALE=0.15): _convert_slice x1 clamp removed -> exit 1, clip.linebf (shrunk to VIEW SCREEN + one LINE ,BF)',
    'in-process screen (same check_case/strategies as ./check, stops at first failure; Hypothesis units only unless noted)',
    "GraphicsViewPort._convert_slice 'x1 = min(x1, xmax+1)' removed -> clip.linebf (case #53)",
    "_convert_slice 'y1 = min(y1, ymax+1)' removed -> clip.linebf ; 'x0 = max(x0, xmin)' -> max(x0, 0) -> clip.linebf",
    'GraphicsViewPort.contains using the screen bounds -> clip.line, clip.circle, clip.draw',
    'contains(): get_bounds always returns the absolute rect -> clip.line/clip.circle, escaped.IndexError',
    "single-pixel path: 'if not self.contains(..): return empty slice' removed -> escaped.IndexError@bytematrix, clip.draw",
    'Graphics.set_page not re-pointing graph_view -> page.view, page.circle, page.line ...',
    'Display.set_page not calling graphics.set_page -> page.*',
    '_flood_fill reading its bounds from the screen instead of the viewport -> escaped.IndexError@bytematrix.py:__getitem__ (PAINT with seed outside the viewport)',
    'put_: second-corner containment check removed -> clip.put (pixel rows grow) / escaped.AssertionError@bytematrix',
    '_set_view border drawn 2 pixels out -> clip.view ; fill drawn to x1+2 -> clip.view',
    '_draw_circle writing through page coordinates instead of graph_view -> clip.circle',
    'text-mode guards removed from circle_, draw_, view_, _pset_preset -> text.err.<kind>, text.changed.<kind>, text.buffer, escaped.TypeError@graphics.py:_draw',
    'revert of fix fc57e203 (set_page assertion on viewport size) -> page.switch-with-view.AssertionError (case #3)',
]
