"""
C31 - drawing primitives have their specified geometry.

One case = one session in an (adapter, SCREEN mode) with a (possibly noisy) page and a short list
of primitive operations. A reference image (list of rows) is carried along: PSET/PRESET, LINE ,B,
LINE ,BF, GET and PUT (all verbs) are modelled exactly from the manual; for a plain LINE the
pixel set L is observed by drawing the same segment on a uniformly coloured page, L is checked
against the statement (count, endpoints, 8-connected path, one pixel per major coordinate, within
half a pixel of the ideal segment), and the draw on the real page must equal "before with L set to
the colour". After every operation the whole active page must equal the reference image and every
other page must be untouched.
"""
from hypothesis import strategies as st

from vlib.core import Result, Unit
from vlib import gfxutil
from vlib.gfxutil import MODE_BY_NAME, GfxSess

ID = 'C31'
LEVEL = 'exploration'
RULE = ("Hypothesis-generated operation lists (1-6 macro operations: PSET/PRESET+POINT, LINE in "
        "absolute / STEP / from-last-point form over all slope classes and both directions, "
        "LINE ,B and ,BF incl. degenerate boxes, GET+PUT PSET in place, GET+PUT PSET elsewhere, "
        "GET+PUT XOR twice, GET+PUT AND/OR/PRESET, sprites in integer/single/double arrays with "
        "widths 1..screen width) on blank or pseudo-random page contents in every graphics mode "
        "of every adapter (modes sampled per case, low-resolution modes weighted 3:1). "
        "Non-trivial: the case contains a segment that is neither axis-parallel nor exactly "
        "diagonal, or a sprite whose width is not a multiple of 8; distinct = distinct case.")
ASSUMPTIONS = [
    "coordinates are integers inside the screen, no VIEW/WINDOW (the statement says 'unclipped')",
    "a LINE approximates the ideal segment: each pixel lies within half a pixel (inclusive, ties "
    "either way) of it along the minor axis - stronger than the bare statement, own bucket "
    "'line.off-ideal'",
    "PSET/LINE without attribute: any single legal attribute is accepted (statement silent); "
    "PSET attribute above the palette size clamps to the highest attribute (manual); LINE with "
    "such an attribute: any single legal attribute accepted",
    "PUT verbs AND/OR/PRESET are asserted from the manual's table (PRESET = bitwise inverse within "
    "the mode's attribute bits); the statement itself only names PSET and XOR",
    "Tandy/PCjr SCREEN 6: GET stores twice the requested width (manual note) - modelled",
    "the byte layout of the GET array is not asserted (manual says word-aligned rows, GW-BASIC and "
    "the code use byte-aligned rows); only the screen round trips are",
    "random page contents are written straight into the page's pixel matrix (state write), the "
    "oracle only relies on the snapshot taken before each statement",
]
TECHNIQUE = "Hypothesis operation sequences vs. reference image model; observed-set checks for LINE"

ARRAYS = [('A%', 2), ('B!', 4), ('C#', 8)]
VERBS = ['PSET', 'PRESET', 'AND', 'OR', 'XOR']


def bits_of(nattr):
    return {2: 1, 4: 2, 16: 4}[nattr]


def sprite_bytes(w, h, nattr):
    """Upper bound of the GET array size in bytes (covers byte- and word-aligned rows)."""
    bpp = bits_of(nattr)
    return 4 + h * bpp * (2 * ((w + 15) // 16)) + 8


# --------------------------------------------------------------------------------------------
# oracle

def _line_props(res, L, x0, y0, x1, y1):
    """Check the observed pixel set L of a solid line against the statement."""
    dx, dy = abs(x1 - x0), abs(y1 - y0)
    n = max(dx, dy)
    pts = set(L)
    if len(pts) != n + 1:
        res.fail('line.count', 'LINE (%d,%d)-(%d,%d): %d pixels set, expected %d' % (
            x0, y0, x1, y1, len(pts), n + 1))
        return
    if (x0, y0) not in pts or (x1, y1) not in pts:
        res.fail('line.endpoints', 'LINE (%d,%d)-(%d,%d): endpoint not set' % (x0, y0, x1, y1))
        return
    steep = dy > dx
    # one pixel per major-axis coordinate, neighbouring pixels touch (8-connected path)
    if steep:
        seq = sorted((y, x) for x, y in pts)
        m0, m1 = min(y0, y1), max(y0, y1)
    else:
        seq = sorted(pts)
        m0, m1 = min(x0, x1), max(x0, x1)
    majors = [p[0] for p in seq]
    if majors != list(range(m0, m1 + 1)):
        res.fail('line.connected', 'LINE (%d,%d)-(%d,%d): not one pixel per major coordinate' % (
            x0, y0, x1, y1))
        return
    for a, b in zip(seq, seq[1:]):
        if abs(a[1] - b[1]) > 1:
            res.fail('line.connected', 'LINE (%d,%d)-(%d,%d): gap between %r and %r' % (
                x0, y0, x1, y1, a, b))
            return
    # within half a pixel of the ideal segment (exact integer arithmetic)
    for x, y in pts:
        if steep:
            dev = abs(2 * (x - x0) * (y1 - y0) - 2 * (y - y0) * (x1 - x0))
            lim = abs(y1 - y0)
        else:
            dev = abs(2 * (y - y0) * (x1 - x0) - 2 * (x - x0) * (y1 - y0))
            lim = abs(x1 - x0)
        if dev > lim:
            res.fail('line.off-ideal', 'LINE (%d,%d)-(%d,%d): pixel (%d,%d) is more than half a '
                     'pixel from the segment' % (x0, y0, x1, y1, x, y))
            return


def _stmt_for(op):
    """BASIC statements (list) for an operation; for 'line' [L-run stmt, real stmt(s)...]."""
    k = op['op']
    c = op.get('c')
    cs = '' if c is None else ',%d' % c
    if k in ('pset', 'preset'):
        return ['%s (%d,%d)%s' % (k.upper(), op['x'], op['y'], cs)]
    if k in ('line', 'box', 'bf'):
        x0, y0, x1, y1 = op['x0'], op['y0'], op['x1'], op['y1']
        shape = {'line': '', 'box': ',B', 'bf': ',BF'}[k]
        csx = cs if (c is not None or not shape) else ','
        absform = 'LINE (%d,%d)-(%d,%d)%s%s' % (x0, y0, x1, y1, csx, shape)
        form = op.get('form', 'abs')
        if form == 'step':
            real = ['LINE (%d,%d)-STEP(%d,%d)%s%s' % (x0, y0, x1 - x0, y1 - y0, csx, shape)]
        elif form == 'last':
            real = ['PSET (%d,%d)%s' % (x0, y0, cs), 'LINE -(%d,%d)%s%s' % (x1, y1, csx, shape)]
        else:
            real = [absform]
        return [absform] + real
    if k == 'get':
        return ['GET (%d,%d)-(%d,%d),%s' % (op['x0'], op['y0'], op['x1'], op['y1'],
                                            ARRAYS[op['a']][0])]
    raise ValueError(k)       # 'put' and 'point' are planned in check_case


def check_case(case):
    res = Result()
    mode = MODE_BY_NAME[case['mode']]
    W, H, N = mode.width, mode.height, mode.nattr
    ops = case['ops']
    # ---- plan the program: statement list with per-op indices ---------------------------------
    need = [8, 8, 8]
    for op in ops:
        if op['op'] == 'get':
            w = (abs(op['x1'] - op['x0']) + 1) * mode.wfactor
            h = abs(op['y1'] - op['y0']) + 1
            need[op['a']] = max(need[op['a']], sprite_bytes(w, h, N))
    stmts = ['DIM ' + ','.join('%s(%d)' % (nm, need[i] // sz + 1)
                               for i, (nm, sz) in enumerate(ARRAYS))]
    plan = []
    # PUT positions depend on the sprite sizes known from the preceding GETs: resolve them now
    spr_size = {}
    for op in ops:
        k = op['op']
        if k == 'get':
            w = (abs(op['x1'] - op['x0']) + 1) * mode.wfactor
            h = abs(op['y1'] - op['y0']) + 1
            spr_size[op['a']] = (w, h)
            idx = [len(stmts)]
            stmts.extend(_stmt_for(op))
            plan.append((op, idx, None))
        elif k == 'put':
            if op['a'] not in spr_size:
                plan.append((op, None, None))
                continue
            w, h = spr_size[op['a']]
            if op.get('same') is not None:
                px, py = op['same']
            else:
                px, py = op['fx'] % (W - w + 1), op['fy'] % (H - h + 1)
            verb = op['verb']
            idx = [len(stmts)]
            stmts.append('PUT (%d,%d),%s%s' % (px, py, ARRAYS[op['a']][0],
                                               '' if verb is None else ',' + verb))
            plan.append((op, idx, (px, py)))
        elif k == 'point':
            plan.append((op, None, None))
        else:
            ss = _stmt_for(op)
            idx = list(range(len(stmts), len(stmts) + len(ss)))
            stmts.extend(ss)
            plan.append((op, idx, None))

    g = GfxSess(mode, case.get('ap', 0), case.get('vp', 0))
    try:
        if g.setup_error:
            res.fail('setup', g.setup_error)
            return res
        o = g.load(stmts)
        if o is not None:
            res.fail('setup.load', 'storing the program: %r' % (o,))
            return res
        # page contents
        if case.get('bg') is None:
            model = [bytearray(W) for _ in range(H)]
        else:
            model = gfxutil.noise_rows(case['bg'], W, H, N, case.get('dens', 256))
            g.put_rows(model)
        res.label('mode:' + mode.name)
        res.label('bg:' + ('blank' if case.get('bg') is None else 'noise%d' % case.get('dens', 256)))
        others0 = g.snap_all()
        err, o = g.run(0)
        if err != 0:
            res.fail('setup.dim', 'DIM: err=%r %r' % (err, o))
            return res
        sprites = {}
        nt = False

        def run(i, what):
            err, o = g.run(i)
            if err is None:
                if o.kind == 'budget':
                    res.inconclusive = True
                else:
                    res.fail(gfxutil.escaped_key(o) if o.kind == 'escaped' else 'not-silent',
                             '%s: %r %s' % (stmts[i], o, o.tb or ''))
                return False
            if err != 0:
                res.fail(what + '.err', '%s raised error %d in %s' % (stmts[i], err, mode.name))
                return False
            return True

        def compare(what, stmt_text):
            """active page == model ; other pages untouched. Resync model on mismatch."""
            nonlocal model
            got = g.snap()
            ok = True
            if got != model:
                res.fail(what, '%s in %s: %s' % (stmt_text, mode.name,
                                                 gfxutil.describe_diff(model, got)))
                model = gfxutil.rows_of(got)
                ok = False
            if g.npages > 1:
                for i in g.changed_pages(others0, skip=g.apage):
                    res.fail('other-page', '%s in %s changed page %d (active %d)' % (
                        stmt_text, mode.name, i, g.apage))
                    others0[i] = g.snap(i)
            return ok

        for op, idx, extra in plan:
            if res.inconclusive:
                break
            k = op['op']
            if k in ('pset', 'preset'):
                res.label('op:pset')
                x, y, c = op['x'], op['y'], op.get('c')
                if not run(idx[0], 'pset'):
                    continue
                got = g.snap()
                v = got[y][x]
                if c is None:
                    expv = 0 if k == 'preset' else (v if 0 <= v < N else None)
                else:
                    expv = min(c, N - 1)
                if expv is None:
                    res.fail('pset.attr', '%s left illegal attribute %d' % (stmts[idx[0]], v))
                    expv = v
                model[y][x] = expv
                compare('pset.pixels', stmts[idx[0]])
                po = g.sess.evaluate(b'POINT(%d,%d)' % (x, y))
                if po.kind != 'ok' or po.errors:
                    res.fail('point.err', 'POINT(%d,%d): %r' % (x, y, po))
                    model = gfxutil.rows_of(g.snap())
                elif po.value != expv:
                    res.fail('pset.point', '%s then POINT(%d,%d) = %r, expected %d' % (
                        stmts[idx[0]], x, y, po.value, expv))
            elif k == 'point':
                res.label('op:point')
                x, y = op['x'], op['y']
                po = g.sess.evaluate(b'POINT(%d,%d)' % (x, y))
                if po.kind != 'ok' or po.errors:
                    res.fail('point.err', 'POINT(%d,%d): %r' % (x, y, po))
                    model = gfxutil.rows_of(g.snap())
                elif po.value != model[y][x]:
                    res.fail('point.value', 'POINT(%d,%d) = %r, pixel is %d (%s)' % (
                        x, y, po.value, model[y][x], mode.name))
            elif k in ('line', 'box', 'bf'):
                x0, y0, x1, y1, c = op['x0'], op['y0'], op['x1'], op['y1'], op.get('c')
                dx, dy = abs(x1 - x0), abs(y1 - y0)
                res.label('op:' + k)
                legal = c is not None and c < N
                if k == 'line':
                    cls = ('point' if dx == dy == 0 else 'h' if dy == 0 else 'v' if dx == 0 else
                           'diag' if dx == dy else 'shallow' if dx > dy else 'steep')
                    res.label('line:' + cls, 'form:' + op.get('form', 'abs'))
                    if cls in ('shallow', 'steep'):
                        nt = True
                # observation run on a uniform page
                u = 1 if (c == 0) else 0
                g.fill(u)
                if not run(idx[0], k):
                    g.put_rows(model)
                    continue
                obs = g.snap()
                L = gfxutil.pixels_not(obs, u)
                g.put_rows(model)
                if not L:
                    res.fail(k + '.nothing', '%s drew nothing' % stmts[idx[0]])
                    continue
                vals = set(obs[y][x] for x, y in L)
                if len(vals) != 1 or (legal and vals != {c}) or max(vals) >= N:
                    res.fail(k + '.attr', '%s drew attributes %r' % (stmts[idx[0]], sorted(vals)))
                    continue
                cc = vals.pop()
                if k == 'line':
                    _line_props(res, L, x0, y0, x1, y1)
                else:
                    xa, xb = min(x0, x1), max(x0, x1)
                    ya, yb = min(y0, y1), max(y0, y1)
                    if k == 'bf':
                        expset = set((x, y) for x in range(xa, xb + 1) for y in range(ya, yb + 1))
                    else:
                        expset = set((x, y) for x in range(xa, xb + 1) for y in (ya, yb))
                        expset |= set((x, y) for y in range(ya, yb + 1) for x in (xa, xb))
                    if set(L) != expset:
                        miss = sorted(expset - set(L))[:3]
                        extra_ = sorted(set(L) - expset)[:3]
                        res.fail(k + '.pixels', '%s in %s: missing %r, extra %r' % (
                            stmts[idx[0]], mode.name, miss, extra_))
                # real run(s) on the actual page contents
                okrun = True
                for i in idx[1:]:
                    okrun = run(i, k) and okrun
                if not okrun:
                    model = gfxutil.rows_of(g.snap())
                    continue
                for x, y in L:
                    model[y][x] = cc
                if op.get('form') == 'last':
                    model[y0][x0] = cc          # the PSET that positions the pen
                compare(k + '.on-page', ' : '.join(stmts[i] for i in idx[1:]))
            elif k == 'get':
                res.label('op:get', 'arr:' + ARRAYS[op['a']][0])
                xa, ya = min(op['x0'], op['x1']), min(op['y0'], op['y1'])
                w = (abs(op['x1'] - op['x0']) + 1) * mode.wfactor
                h = abs(op['y1'] - op['y0']) + 1
                if ((abs(op['x1'] - op['x0']) + 1) % 8) != 0:
                    nt = True
                    res.label('sprite:odd-width')
                if not run(idx[0], 'get'):
                    sprites.pop(op['a'], None)
                    continue
                sprites[op['a']] = [bytearray(model[ya + j][xa:xa + w]) for j in range(h)]
                compare('get.changed-screen', stmts[idx[0]])
            elif k == 'put':
                if idx is None or op['a'] not in sprites:
                    res.label('put:skipped-no-sprite')
                    continue
                verb = op['verb'] or 'XOR'
                res.label('op:put', 'verb:' + (op['verb'] or 'default'))
                spr = sprites[op['a']]
                px, py = extra
                if not run(idx[0], 'put'):
                    model = gfxutil.rows_of(g.snap())
                    continue
                mask = N - 1
                for j, srow in enumerate(spr):
                    row = model[py + j]
                    for i, sv in enumerate(srow):
                        old = row[px + i]
                        if verb == 'PSET':
                            nv = sv
                        elif verb == 'PRESET':
                            nv = sv ^ mask
                        elif verb == 'AND':
                            nv = old & sv
                        elif verb == 'OR':
                            nv = old | sv
                        else:
                            nv = old ^ sv
                        row[px + i] = nv
                compare('put.' + verb.lower(), stmts[idx[0]])
            else:
                raise ValueError(k)
        res.nt(nt)
    finally:
        g.close()
    return res


# --------------------------------------------------------------------------------------------
# generators

MODE_WEIGHTED = gfxutil.LOWRES * 3 + gfxutil.HIRES


def _coord(n):
    return st.one_of(st.sampled_from(sorted(set([0, 1, n // 2, n - 2, n - 1]))),
                     st.integers(0, n - 1))


def _attr(N, allow_none=True, allow_high=False):
    opts = [st.integers(0, N - 1), st.integers(1, N - 1)]
    if allow_none:
        opts.append(st.none())
    if allow_high:
        opts.append(st.sampled_from([N, N + 1, 17, 128, 255]))
    return st.one_of(*opts)


@st.composite
def _segment(draw, W, H):
    """Endpoints of a segment by slope class."""
    cls = draw(st.sampled_from(['h', 'v', 'diag', 'shallow', 'shallow', 'steep', 'steep',
                                'len1', 'point', 'any']))
    small = draw(st.booleans())
    lim = 14 if small else max(W, H)
    if cls == 'h':
        dx, dy = draw(st.integers(1, min(lim, W - 1))), 0
    elif cls == 'v':
        dx, dy = 0, draw(st.integers(1, min(lim, H - 1)))
    elif cls == 'diag':
        dx = dy = draw(st.integers(1, min(lim, W - 1, H - 1)))
    elif cls == 'shallow':
        dx = draw(st.integers(2, min(lim, W - 1)))
        dy = draw(st.integers(1, min(dx - 1, H - 1)))
    elif cls == 'steep':
        dy = draw(st.integers(2, min(lim, H - 1)))
        dx = draw(st.integers(1, min(dy - 1, W - 1)))
    elif cls == 'len1':
        dx, dy = draw(st.sampled_from([(1, 0), (0, 1), (1, 1)]))
    elif cls == 'point':
        dx = dy = 0
    else:
        dx, dy = draw(st.integers(0, W - 1)), draw(st.integers(0, H - 1))
    sx, sy = draw(st.sampled_from([(1, 1), (1, -1), (-1, 1), (-1, -1)]))
    dx, dy = dx * sx, dy * sy
    x0 = draw(st.integers(max(0, -dx), min(W - 1, W - 1 - dx)))
    y0 = draw(st.integers(max(0, -dy), min(H - 1, H - 1 - dy)))
    if draw(st.integers(0, 5)) == 0:
        # push against an edge
        x0 = max(0, -dx) if draw(st.booleans()) else min(W - 1, W - 1 - dx)
    return x0, y0, x0 + dx, y0 + dy


@st.composite
def _rect(draw, W, H, wfactor=1, maxbytes=6000, bpp=4):
    """Sprite rectangle (x0, y0, x1, y1), ordered corners."""
    wmax = W // wfactor
    w = draw(st.one_of(st.integers(1, min(17, wmax)), st.integers(1, min(70, wmax)),
                       st.sampled_from([wmax, wmax - 1, 7, 8, 9, 15, 16, 24, 31, 32, 33])))
    w = max(1, min(w, wmax))
    h = draw(st.one_of(st.integers(1, 6), st.integers(1, min(40, H)), st.just(H)))
    rowbytes = bpp * (2 * ((w * wfactor + 15) // 16))
    h = max(1, min(h, H, maxbytes // rowbytes))
    x0 = draw(st.one_of(st.just(0), st.just(W - w * wfactor), st.integers(0, W - w * wfactor)))
    y0 = draw(st.one_of(st.just(0), st.just(H - h), st.integers(0, H - h)))
    return x0, y0, x0 + w - 1, y0 + h - 1


@st.composite
def _macro(draw, mode):
    W, H, N = mode.width, mode.height, mode.nattr
    kind = draw(st.sampled_from(['pset', 'pset', 'line', 'line', 'line', 'box', 'bf',
                                 'getput-same', 'getput-other', 'xor2', 'verb', 'point']))
    if kind == 'pset':
        op = draw(st.sampled_from(['pset', 'pset', 'preset']))
        return [{'op': op, 'x': draw(_coord(W)), 'y': draw(_coord(H)),
                 'c': draw(_attr(N, allow_high=True))}]
    if kind == 'point':
        return [{'op': 'point', 'x': draw(_coord(W)), 'y': draw(_coord(H))}]
    if kind in ('line', 'box', 'bf'):
        if kind == 'line':
            x0, y0, x1, y1 = draw(_segment(W, H))
        else:
            big = draw(st.integers(0, 9)) == 0
            x0, x1 = draw(_coord(W)), draw(_coord(W))
            y0, y1 = draw(_coord(H)), draw(_coord(H))
            if not big and kind == 'bf':
                # keep filled boxes small most of the time (set comparisons are per pixel)
                x1 = max(0, min(W - 1, x0 + draw(st.integers(-40, 40))))
                y1 = max(0, min(H - 1, y0 + draw(st.integers(-30, 30))))
        c = draw(_attr(N, allow_high=(draw(st.integers(0, 9)) == 0)))
        form = draw(st.sampled_from(['abs', 'abs', 'step', 'last']))
        if form == 'last' and c is None:
            form = 'abs'
        return [{'op': kind, 'x0': x0, 'y0': y0, 'x1': x1, 'y1': y1, 'c': c, 'form': form}]
    # sprite macros
    a = draw(st.integers(0, 2))
    x0, y0, x1, y1 = draw(_rect(W, H, mode.wfactor, bpp=bits_of(N)))
    get = {'op': 'get', 'x0': x0, 'y0': y0, 'x1': x1, 'y1': y1, 'a': a}
    fx, fy = draw(st.integers(0, 9999)), draw(st.integers(0, 9999))
    if kind == 'getput-same':
        return [get, {'op': 'put', 'a': a, 'verb': 'PSET', 'same': [x0, y0], 'fx': 0, 'fy': 0}]
    if kind == 'getput-other':
        return [get, {'op': 'put', 'a': a, 'verb': 'PSET', 'same': None, 'fx': fx, 'fy': fy}]
    if kind == 'xor2':
        verb = draw(st.sampled_from(['XOR', None]))
        p = {'op': 'put', 'a': a, 'verb': verb, 'same': None, 'fx': fx, 'fy': fy}
        return [get, p, dict(p)]
    verb = draw(st.sampled_from(['AND', 'OR', 'PRESET']))
    return [get, {'op': 'put', 'a': a, 'verb': verb, 'same': None, 'fx': fx, 'fy': fy}]


@st.composite
def strat_case(draw):
    mname = draw(st.sampled_from(MODE_WEIGHTED))
    mode = MODE_BY_NAME[mname]
    bg = draw(st.one_of(st.none(), st.integers(0, 1 << 20), st.integers(0, 1 << 20)))
    dens = draw(st.sampled_from([256, 256, 64, 8]))
    ap, vp = draw(st.sampled_from([(0, 0), (0, 0), (0, 0), (1, 0), (1, 1), (0, 1), (2, 1)]))
    ops = []
    for _ in range(draw(st.integers(1, 5))):
        ops.extend(draw(_macro(mode)))
    return {'mode': mname, 'ap': ap, 'vp': vp, 'bg': bg, 'dens': dens, 'ops': ops}


def gen_directed(shard, nshards, tier, seed):
    """Every mode: a fixed battery (all slope classes at the screen corners, odd sprite widths)."""
    cases = []
    for m in gfxutil.MODES:
        W, H, N = m.width, m.height, m.nattr
        c = N - 1
        segs = [(0, 0, W - 1, H - 1), (W - 1, 0, 0, H - 1), (0, 0, W - 1, 0), (0, H - 1, 0, 0),
                (3, 2, 10, 5), (10, 5, 3, 2), (3, 9, 6, 2), (5, 5, 5, 5), (0, 0, 9, 4),
                (W - 1, H - 1, W - 11, H - 4), (2, 2, 12, 7), (2, 2, 7, 12), (4, 4, 12, 3)]
        ops = [{'op': 'line', 'x0': a, 'y0': b, 'x1': cx, 'y1': d, 'c': c, 'form': 'abs'}
               for a, b, cx, d in segs]
        cases.append({'mode': m.name, 'ap': 0, 'vp': 0, 'bg': 7, 'dens': 64, 'ops': ops})
        wf = m.wfactor
        ops = []
        for i, w in enumerate([1, 3, 5, 7, 9, 13]):
            ops.append({'op': 'get', 'x0': 1, 'y0': 1, 'x1': w, 'y1': 3, 'a': i % 3})
            ops.append({'op': 'put', 'a': i % 3, 'verb': 'PSET', 'same': None,
                        'fx': 31 + i, 'fy': 17})
            ops.append({'op': 'put', 'a': i % 3, 'verb': 'XOR', 'same': None, 'fx': 5, 'fy': 90})
            ops.append({'op': 'put', 'a': i % 3, 'verb': 'XOR', 'same': None, 'fx': 5, 'fy': 90})
        ops.append({'op': 'get', 'x0': 0, 'y0': H - 2, 'x1': W // wf - 1, 'y1': H - 1, 'a': 0})
        ops.append({'op': 'put', 'a': 0, 'verb': 'PSET', 'same': [0, 0], 'fx': 0, 'fy': 0})
        ops.append({'op': 'box', 'x0': 0, 'y0': 0, 'x1': W - 1, 'y1': H - 1, 'c': 1, 'form': 'abs'})
        ops.append({'op': 'bf', 'x0': W - 1, 'y0': H - 1, 'x1': W - 9, 'y1': H - 5, 'c': c,
                    'form': 'step'})
        cases.append({'mode': m.name, 'ap': 1, 'vp': 0, 'bg': 11, 'dens': 256, 'ops': ops})
    for case in cases[shard::nshards]:
        yield case


def units(tier):
    return [
        Unit('directed', 'enum', shards=16, gen=gen_directed),
        Unit('ops', 'hyp', shards=16, examples=gfxutil.scaled({'quick': 150, 'thorough': 6000}),
             strategy=strat_case),
    ]


REGRESSIONS = [
    {'mode': 'cga/1', 'ap': 0, 'vp': 0, 'bg': None, 'dens': 256, 'ops': [
        {'op': 'pset', 'x': 5, 'y': 7, 'c': 2},
        {'op': 'line', 'x0': 0, 'y0': 0, 'x1': 9, 'y1': 4, 'c': 1, 'form': 'abs'},
        {'op': 'get', 'x0': 0, 'y0': 0, 'x1': 10, 'y1': 5, 'a': 0},
        {'op': 'put', 'a': 0, 'verb': 'PSET', 'same': None, 'fx': 33, 'fy': 21}]},
]

KILLS = []
