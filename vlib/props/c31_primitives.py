"""
C31 - drawing primitives have their specified geometry.

One case = one session in an (adapter, SCREEN mode) with a (possibly noisy) page and a short list
of primitive operations. A reference image (list of rows) is carried along: PSET/PRESET, LINE ,B,
LINE ,BF, GET and PUT (all verbs) are modelled exactly from the manual; for a plain LINE the
pixel set L is observed by drawing the same segment on a uniformly coloured page, L is checked
against the statement (count, endpoints, 8-connected path, one pixel per major coordinate, within
half a pixel of the ideal segment), and the draw on the real page must equal "before with L set to
the colour". After every operation the whole active page must equal the reference image and every
other page must be untouched.
"""
import random

from hypothesis import strategies as st

from vlib.core import Result, Unit
from vlib import gfxutil
from vlib.gfxutil import MODE_BY_NAME, GfxSess

ID = 'C31'
LEVEL = 'exploration'
RULE = ("Seed-driven operation lists (1-6 macro operations: PSET/PRESET+POINT, LINE in "
        "absolute / STEP / from-last-point form over all slope classes and both directions, "
        "LINE ,B and ,BF incl. degenerate boxes, GET+PUT PSET in place, GET+PUT PSET elsewhere, "
        "GET+PUT XOR twice, GET+PUT AND/OR/PRESET, sprites in integer/single/double arrays with "
        "widths 1..screen width) on blank or pseudo-random page contents in every graphics mode "
        "of every adapter (modes sampled per case, low-resolution modes weighted 3:1). "
        "Non-trivial: the case contains a segment that is neither axis-parallel nor exactly "
        "diagonal, or a sprite whose width is not a multiple of 8; distinct = distinct case.")
ASSUMPTIONS = [
    "coordinates are integers inside the screen, no VIEW/WINDOW (the statement says 'unclipped')",
    "a LINE approximates the ideal segment: each pixel lies within half a pixel (inclusive, ties "
    "either way) of it along the minor axis - stronger than the bare statement, own bucket "
    "'line.off-ideal'",
    "PSET/LINE without attribute: any single legal attribute is accepted (statement silent); "
    "PSET attribute above the palette size clamps to the highest attribute (manual); LINE with "
    "such an attribute: any single legal attribute accepted",
    "PUT verbs AND/OR/PRESET are asserted from the manual's table (PRESET = bitwise inverse within "
    "the mode's attribute bits); the statement itself only names PSET and XOR",
    "Tandy/PCjr SCREEN 6: GET stores twice the requested width (manual note) - modelled",
    "the byte layout of the GET array is not asserted (manual says word-aligned rows, GW-BASIC and "
    "the code use byte-aligned rows); only the screen round trips are",
    "random page contents are written straight into the page's pixel matrix (state write), the "
    "oracle only relies on the snapshot taken before each statement",
]
TECHNIQUE = "Hypothesis operation sequences vs. reference image model; observed-set checks for LINE"

ARRAYS = [('A%', 2), ('B!', 4), ('C#', 8)]
VERBS = ['PSET', 'PRESET', 'AND', 'OR', 'XOR']


def bits_of(nattr):
    return {2: 1, 4: 2, 16: 4}[nattr]


def sprite_bytes(w, h, nattr):
    """Upper bound of the GET array size in bytes (covers byte- and word-aligned rows)."""
    bpp = bits_of(nattr)
    return 4 + h * bpp * (2 * ((w + 15) // 16)) + 8


# --------------------------------------------------------------------------------------------
# oracle

def _line_props(res, L, x0, y0, x1, y1):
    """Check the observed pixel set L of a solid line against the statement."""
    dx, dy = abs(x1 - x0), abs(y1 - y0)
    n = max(dx, dy)
    pts = set(L)
    if len(pts) != n + 1:
        res.fail('line.count', 'LINE (%d,%d)-(%d,%d): %d pixels set, expected %d' % (
            x0, y0, x1, y1, len(pts), n + 1))
        return
    if (x0, y0) not in pts or (x1, y1) not in pts:
        res.fail('line.endpoints', 'LINE (%d,%d)-(%d,%d): endpoint not set' % (x0, y0, x1, y1))
        return
    steep = dy > dx
    # one pixel per major-axis coordinate, neighbouring pixels touch (8-connected path)
    if steep:
        seq = sorted((y, x) for x, y in pts)
        m0, m1 = min(y0, y1), max(y0, y1)
    else:
        seq = sorted(pts)
        m0, m1 = min(x0, x1), max(x0, x1)
    majors = [p[0] for p in seq]
    if majors != list(range(m0, m1 + 1)):
        res.fail('line.connected', 'LINE (%d,%d)-(%d,%d): not one pixel per major coordinate' % (
            x0, y0, x1, y1))
        return
    for a, b in zip(seq, seq[1:]):
        if abs(a[1] - b[1]) > 1:
            res.fail('line.connected', 'LINE (%d,%d)-(%d,%d): gap between %r and %r' % (
                x0, y0, x1, y1, a, b))
            return
    # within half a pixel of the ideal segment (exact integer arithmetic)
    for x, y in pts:
        if steep:
            dev = abs(2 * (x - x0) * (y1 - y0) - 2 * (y - y0) * (x1 - x0))
            lim = abs(y1 - y0)
        else:
            dev = abs(2 * (y - y0) * (x1 - x0) - 2 * (x - x0) * (y1 - y0))
            lim = abs(x1 - x0)
        if dev > lim:
            res.fail('line.off-ideal', 'LINE (%d,%d)-(%d,%d): pixel (%d,%d) is more than half a '
                     'pixel from the segment' % (x0, y0, x1, y1, x, y))
            return


def _stmt_for(op):
    """BASIC statements (list) for an operation; for 'line' [L-run stmt, real stmt(s)...]."""
    k = op['op']
    c = op.get('c')
    cs = '' if c is None else ',%d' % c
    if k in ('pset', 'preset'):
        return ['%s (%d,%d)%s' % (k.upper(), op['x'], op['y'], cs)]
    if k in ('line', 'box', 'bf'):
        x0, y0, x1, y1 = op['x0'], op['y0'], op['x1'], op['y1']
        shape = {'line': '', 'box': ',B', 'bf': ',BF'}[k]
        csx = cs if (c is not None or not shape) else ','
        absform = 'LINE (%d,%d)-(%d,%d)%s%s' % (x0, y0, x1, y1, csx, shape)
        form = op.get('form', 'abs')
        if form == 'step':
            real = ['LINE (%d,%d)-STEP(%d,%d)%s%s' % (x0, y0, x1 - x0, y1 - y0, csx, shape)]
        elif form == 'last':
            real = ['PSET (%d,%d)%s' % (x0, y0, cs), 'LINE -(%d,%d)%s%s' % (x1, y1, csx, shape)]
        else:
            real = [absform]
        return [absform] + real
    if k == 'get':
        return ['GET (%d,%d)-(%d,%d),%s' % (op['x0'], op['y0'], op['x1'], op['y1'],
                                            ARRAYS[op['a']][0])]
    raise ValueError(k)       # 'put' and 'point' are planned in check_case


def check_case(case):
    res = Result()
    mode = MODE_BY_NAME[case['mode']]
    W, H, N = mode.width, mode.height, mode.nattr
    ops = case['ops']
    # ---- plan the program: statement list with per-op indices ---------------------------------
    need = [8, 8, 8]
    for op in ops:
        if op['op'] == 'get':
            w = (abs(op['x1'] - op['x0']) + 1) * mode.wfactor
            h = abs(op['y1'] - op['y0']) + 1
            need[op['a']] = max(need[op['a']], sprite_bytes(w, h, N))
    stmts = ['DIM ' + ','.join('%s(%d)' % (nm, need[i] // sz + 1)
                               for i, (nm, sz) in enumerate(ARRAYS))]
    plan = []
    # PUT positions depend on the sprite sizes known from the preceding GETs: resolve them now
    spr_size = {}
    for op in ops:
        k = op['op']
        if k == 'get':
            w = (abs(op['x1'] - op['x0']) + 1) * mode.wfactor
            h = abs(op['y1'] - op['y0']) + 1
            spr_size[op['a']] = (w, h)
            idx = [len(stmts)]
            stmts.extend(_stmt_for(op))
            plan.append((op, idx, None))
        elif k == 'put':
            if op['a'] not in spr_size:
                plan.append((op, None, None))
                continue
            w, h = spr_size[op['a']]
            if op.get('same') is not None:
                px, py = op['same']
            else:
                px, py = op['fx'] % (W - w + 1), op['fy'] % (H - h + 1)
            verb = op['verb']
            idx = [len(stmts)]
            stmts.append('PUT (%d,%d),%s%s' % (px, py, ARRAYS[op['a']][0],
                                               '' if verb is None else ',' + verb))
            plan.append((op, idx, (px, py)))
        elif k == 'point':
            plan.append((op, None, None))
        else:
            ss = _stmt_for(op)
            idx = list(range(len(stmts), len(stmts) + len(ss)))
            stmts.extend(ss)
            plan.append((op, idx, None))

    g = GfxSess(mode, case.get('ap', 0), case.get('vp', 0))
    try:
        if g.setup_error:
            res.fail('setup', g.setup_error)
            return res
        o = g.load(stmts)
        if o is not None:
            res.fail('setup.load', 'storing the program: %r' % (o,))
            return res
        # page contents
        if case.get('bg') is None:
            model = [bytearray(W) for _ in range(H)]
        else:
            model = gfxutil.noise_rows(case['bg'], W, H, N, case.get('dens', 256))
            g.put_rows(model)
        res.label('mode:' + mode.name)
        res.label('bg:' + ('blank' if case.get('bg') is None else 'noise%d' % case.get('dens', 256)))
        others0 = g.snap_all()
        err, o = g.run(0)
        if err != 0:
            res.fail('setup.dim', 'DIM: err=%r %r' % (err, o))
            return res
        sprites = {}
        nt = False

        def run(i, what):
            err, o = g.run(i)
            if err is None:
                if o.kind == 'budget':
                    res.inconclusive = True
                else:
                    res.fail(gfxutil.escaped_key(o) if o.kind == 'escaped' else 'not-silent',
                             '%s: %r %s' % (stmts[i], o, o.tb or ''))
                return False
            if err != 0:
                res.fail(what + '.err', '%s raised error %d in %s' % (stmts[i], err, mode.name))
                return False
            return True

        def compare(what, stmt_text):
            """active page == model ; other pages untouched. Resync model on mismatch."""
            nonlocal model
            got = g.snap()
            ok = True
            if got != model:
                res.fail(what, '%s in %s: %s' % (stmt_text, mode.name,
                                                 gfxutil.describe_diff(model, got)))
                model = gfxutil.rows_of(got)
                ok = False
            if g.npages > 1:
                for i in g.changed_pages(others0, skip=g.apage):
                    res.fail('other-page', '%s in %s changed page %d (active %d)' % (
                        stmt_text, mode.name, i, g.apage))
                    others0[i] = g.snap(i)
            return ok

        for op, idx, extra in plan:
            if res.inconclusive:
                break
            k = op['op']
            if k in ('pset', 'preset'):
                res.label('op:pset')
                x, y, c = op['x'], op['y'], op.get('c')
                if not run(idx[0], 'pset'):
                    continue
                got = g.snap()
                v = got[y][x]
                if c is None:
                    expv = 0 if k == 'preset' else (v if 0 <= v < N else None)
                else:
                    expv = min(c, N - 1)
                if expv is None:
                    res.fail('pset.attr', '%s left illegal attribute %d' % (stmts[idx[0]], v))
                    expv = v
                model[y][x] = expv
                compare('pset.pixels', stmts[idx[0]])
                po = g.sess.evaluate(b'POINT(%d,%d)' % (x, y))
                if po.kind != 'ok' or po.errors:
                    res.fail('point.err', 'POINT(%d,%d): %r' % (x, y, po))
                    model = gfxutil.rows_of(g.snap())
                elif po.value != expv:
                    res.fail('pset.point', '%s then POINT(%d,%d) = %r, expected %d' % (
                        stmts[idx[0]], x, y, po.value, expv))
            elif k == 'point':
                res.label('op:point')
                x, y = op['x'], op['y']
                po = g.sess.evaluate(b'POINT(%d,%d)' % (x, y))
                if po.kind != 'ok' or po.errors:
                    res.fail('point.err', 'POINT(%d,%d): %r' % (x, y, po))
                    model = gfxutil.rows_of(g.snap())
                elif po.value != model[y][x]:
                    res.fail('point.value', 'POINT(%d,%d) = %r, pixel is %d (%s)' % (
                        x, y, po.value, model[y][x], mode.name))
            elif k in ('line', 'box', 'bf'):
                x0, y0, x1, y1, c = op['x0'], op['y0'], op['x1'], op['y1'], op.get('c')
                dx, dy = abs(x1 - x0), abs(y1 - y0)
                res.label('op:' + k)
                legal = c is not None and c < N
                if k == 'line':
                    cls = ('point' if dx == dy == 0 else 'h' if dy == 0 else 'v' if dx == 0 else
                           'diag' if dx == dy else 'shallow' if dx > dy else 'steep')
                    res.label('line:' + cls, 'form:' + op.get('form', 'abs'))
                    if cls in ('shallow', 'steep'):
                        nt = True
                # observation run on a uniform page
                u = 1 if (c == 0) else 0
                g.fill(u)
                if not run(idx[0], k):
                    g.put_rows(model)
                    continue
                obs = g.snap()
                L = gfxutil.pixels_not(obs, u)
                g.put_rows(model)
                if not L:
                    res.fail(k + '.nothing', '%s drew nothing' % stmts[idx[0]])
                    continue
                vals = set(obs[y][x] for x, y in L)
                if len(vals) != 1 or (legal and vals != {c}) or max(vals) >= N:
                    res.fail(k + '.attr', '%s drew attributes %r' % (stmts[idx[0]], sorted(vals)))
                    continue
                cc = vals.pop()
                if k == 'line':
                    _line_props(res, L, x0, y0, x1, y1)
                else:
                    xa, xb = min(x0, x1), max(x0, x1)
                    ya, yb = min(y0, y1), max(y0, y1)
                    if k == 'bf':
                        expset = set((x, y) for x in range(xa, xb + 1) for y in range(ya, yb + 1))
                    else:
                        expset = set((x, y) for x in range(xa, xb + 1) for y in (ya, yb))
                        expset |= set((x, y) for y in range(ya, yb + 1) for x in (xa, xb))
                    if set(L) != expset:
                        miss = sorted(expset - set(L))[:3]
                        extra_ = sorted(set(L) - expset)[:3]
                        res.fail(k + '.pixels', '%s in %s: missing %r, extra %r' % (
                            stmts[idx[0]], mode.name, miss, extra_))
                # real run(s) on the actual page contents
                okrun = True
                for i in idx[1:]:
                    okrun = run(i, k) and okrun
                if not okrun:
                    model = gfxutil.rows_of(g.snap())
                    continue
                for x, y in L:
                    model[y][x] = cc
                if op.get('form') == 'last':
                    model[y0][x0] = cc          # the PSET that positions the pen
                compare(k + '.on-page', ' : '.join(stmts[i] for i in idx[1:]))
            elif k == 'get':
                res.label('op:get', 'arr:' + ARRAYS[op['a']][0])
                xa, ya = min(op['x0'], op['x1']), min(op['y0'], op['y1'])
                w = (abs(op['x1'] - op['x0']) + 1) * mode.wfactor
                h = abs(op['y1'] - op['y0']) + 1
                if ((abs(op['x1'] - op['x0']) + 1) % 8) != 0:
                    nt = True
                    res.label('sprite:odd-width')
                if not run(idx[0], 'get'):
                    sprites.pop(op['a'], None)
                    continue
                sprites[op['a']] = [bytearray(model[ya + j][xa:xa + w]) for j in range(h)]
                compare('get.changed-screen', stmts[idx[0]])
            elif k == 'put':
                if idx is None or op['a'] not in sprites:
                    res.label('put:skipped-no-sprite')
                    continue
                verb = op['verb'] or 'XOR'
                res.label('op:put', 'verb:' + (op['verb'] or 'default'))
                spr = sprites[op['a']]
                px, py = extra
                if not run(idx[0], 'put'):
                    model = gfxutil.rows_of(g.snap())
                    continue
                mask = N - 1
                for j, srow in enumerate(spr):
                    row = model[py + j]
                    for i, sv in enumerate(srow):
                        old = row[px + i]
                        if verb == 'PSET':
                            nv = sv
                        elif verb == 'PRESET':
                            nv = sv ^ mask
                        elif verb == 'AND':
                            nv = old & sv
                        elif verb == 'OR':
                            nv = old | sv
                        else:
                            nv = old ^ sv
                        row[px + i] = nv
                compare('put.' + verb.lower(), stmts[idx[0]])
            else:
                raise ValueError(k)
        res.nt(nt)
    finally:
        g.close()
    return res


# --------------------------------------------------------------------------------------------
# generators
#
# Operation lists come from a deterministic builder driven by an integer seed that Hypothesis
# draws (plus the number of macro operations, so failing lists shrink to their shortest failing
# prefix). Nested Hypothesis draws were tried first and produced many near-duplicate cases.

MODE_WEIGHTED = gfxutil.LOWRES * 3 + gfxutil.HIRES


class _R(object):
    def __init__(self, seed):
        self.r = random.Random(seed)

    def pick(self, seq):
        return seq[self.r.randrange(len(seq))]

    def int(self, a, b):
        return a if b < a else self.r.randint(a, b)

    def one_in(self, n):
        return self.r.randrange(n) == 0

    def coin(self):
        return self.r.random() < 0.5


def _coord(r, n):
    if r.one_in(3):
        return r.pick([0, 1, n // 2, n - 2, n - 1])
    return r.int(0, n - 1)


def _attr(r, N, allow_high=False):
    k = r.int(0, 11)
    if k < 8:
        return r.int(0, N - 1) if k < 4 else r.int(1, N - 1)
    if k < 10 or not allow_high:
        return None if k < 10 else r.int(0, N - 1)
    return r.pick([N, N + 1, 17, 128, 255])


def _segment(r, W, H):
    """Endpoints of a segment by slope class."""
    cls = r.pick(['h', 'v', 'diag', 'shallow', 'shallow', 'shallow', 'steep', 'steep', 'steep',
                  'len1', 'point', 'any'])
    lim = 14 if r.coin() else max(W, H)
    if cls == 'h':
        dx, dy = r.int(1, min(lim, W - 1)), 0
    elif cls == 'v':
        dx, dy = 0, r.int(1, min(lim, H - 1))
    elif cls == 'diag':
        dx = dy = r.int(1, min(lim, W - 1, H - 1))
    elif cls == 'shallow':
        dx = r.int(2, min(lim, W - 1))
        dy = r.int(1, min(dx - 1, H - 1))
        if r.one_in(4) and dx % 2 == 0 and dx // 2 <= H - 1:
            dy = dx // 2                # exact half-pixel ties
    elif cls == 'steep':
        dy = r.int(2, min(lim, H - 1))
        dx = r.int(1, min(dy - 1, W - 1))
        if r.one_in(4) and dy % 2 == 0 and dy // 2 <= W - 1:
            dx = dy // 2
    elif cls == 'len1':
        dx, dy = r.pick([(1, 0), (0, 1), (1, 1)])
    elif cls == 'point':
        dx = dy = 0
    else:
        dx, dy = r.int(0, W - 1), r.int(0, H - 1)
    sx, sy = r.pick([(1, 1), (1, -1), (-1, 1), (-1, -1)])
    dx, dy = dx * sx, dy * sy
    x0 = r.int(max(0, -dx), min(W - 1, W - 1 - dx))
    y0 = r.int(max(0, -dy), min(H - 1, H - 1 - dy))
    if r.one_in(6):
        x0 = max(0, -dx) if r.coin() else min(W - 1, W - 1 - dx)     # against an edge
    if r.one_in(6):
        y0 = max(0, -dy) if r.coin() else min(H - 1, H - 1 - dy)
    return x0, y0, x0 + dx, y0 + dy


def _rect(r, W, H, wfactor=1, maxbytes=6000, bpp=4):
    """Sprite rectangle (x0, y0, x1, y1), ordered corners."""
    wmax = W // wfactor
    w = r.pick([r.int(1, min(17, wmax)), r.int(1, min(17, wmax)), r.int(1, min(70, wmax)),
                r.pick([wmax, wmax - 1, 7, 8, 9, 15, 16, 24, 31, 32, 33])])
    w = max(1, min(w, wmax))
    h = r.pick([r.int(1, 6), r.int(1, 6), r.int(1, min(40, H)), H])
    rowbytes = bpp * (2 * ((w * wfactor + 15) // 16))
    h = max(1, min(h, H, maxbytes // rowbytes))
    x0 = r.pick([0, W - w * wfactor, r.int(0, W - w * wfactor), r.int(0, W - w * wfactor)])
    y0 = r.pick([0, H - h, r.int(0, H - h), r.int(0, H - h)])
    return x0, y0, x0 + w - 1, y0 + h - 1


MACROS = ['pset', 'pset', 'line', 'line', 'line', 'line', 'box', 'bf', 'getput-same',
          'getput-other', 'getput-other', 'xor2', 'xor2', 'verb', 'point']


def _macro(r, mode):
    W, H, N = mode.width, mode.height, mode.nattr
    kind = r.pick(MACROS)
    if kind == 'pset':
        return [{'op': r.pick(['pset', 'pset', 'preset']), 'x': _coord(r, W), 'y': _coord(r, H),
                 'c': _attr(r, N, allow_high=True)}]
    if kind == 'point':
        return [{'op': 'point', 'x': _coord(r, W), 'y': _coord(r, H)}]
    if kind in ('line', 'box', 'bf'):
        if kind == 'line':
            x0, y0, x1, y1 = _segment(r, W, H)
        else:
            x0, x1 = _coord(r, W), _coord(r, W)
            y0, y1 = _coord(r, H), _coord(r, H)
            if kind == 'bf' and not r.one_in(10):
                # keep filled boxes small most of the time (set comparisons are per pixel)
                x1 = max(0, min(W - 1, x0 + r.int(-40, 40)))
                y1 = max(0, min(H - 1, y0 + r.int(-30, 30)))
        c = _attr(r, N, allow_high=r.one_in(10))
        form = r.pick(['abs', 'abs', 'step', 'last'])
        if form == 'last' and c is None:
            form = 'abs'
        return [{'op': kind, 'x0': x0, 'y0': y0, 'x1': x1, 'y1': y1, 'c': c, 'form': form}]
    # sprite macros
    a = r.int(0, 2)
    x0, y0, x1, y1 = _rect(r, W, H, mode.wfactor, bpp=bits_of(N))
    get = {'op': 'get', 'x0': x0, 'y0': y0, 'x1': x1, 'y1': y1, 'a': a}
    fx, fy = r.int(0, 9999), r.int(0, 9999)
    if kind == 'getput-same':
        return [get, {'op': 'put', 'a': a, 'verb': 'PSET', 'same': [x0, y0], 'fx': 0, 'fy': 0}]
    if kind == 'getput-other':
        return [get, {'op': 'put', 'a': a, 'verb': 'PSET', 'same': None, 'fx': fx, 'fy': fy}]
    if kind == 'xor2':
        p = {'op': 'put', 'a': a, 'verb': r.pick(['XOR', None]), 'same': None, 'fx': fx, 'fy': fy}
        return [get, p, dict(p)]
    return [get, {'op': 'put', 'a': a, 'verb': r.pick(['AND', 'OR', 'PRESET']), 'same': None,
                  'fx': fx, 'fy': fy}]


def build_case(mname, seed, nmacros):
    mode = MODE_BY_NAME[mname]
    r = _R(seed)
    bg = r.pick([None, r.int(0, 1 << 20), r.int(0, 1 << 20)])
    dens = r.pick([256, 256, 64, 8])
    ap, vp = r.pick([(0, 0), (0, 0), (0, 0), (1, 0), (1, 1), (0, 1), (2, 1)])
    ops = []
    for _ in range(nmacros):
        ops.extend(_macro(r, mode))
    return {'mode': mname, 'ap': ap, 'vp': vp, 'bg': bg, 'dens': dens, 'ops': ops}


def strat_case():
    return st.builds(build_case, st.sampled_from(MODE_WEIGHTED), st.integers(0, 2 ** 31),
                     st.integers(1, 6))


def gen_directed(shard, nshards, tier, seed):
    """Every mode: a fixed battery (all slope classes at the screen corners, odd sprite widths)."""
    cases = []
    for m in gfxutil.MODES:
        W, H, N = m.width, m.height, m.nattr
        c = N - 1
        segs = [(0, 0, W - 1, H - 1), (W - 1, 0, 0, H - 1), (0, 0, W - 1, 0), (0, H - 1, 0, 0),
                (3, 2, 10, 5), (10, 5, 3, 2), (3, 9, 6, 2), (5, 5, 5, 5), (0, 0, 9, 4),
                (W - 1, H - 1, W - 11, H - 4), (2, 2, 12, 7), (2, 2, 7, 12), (4, 4, 12, 3)]
        ops = [{'op': 'line', 'x0': a, 'y0': b, 'x1': cx, 'y1': d, 'c': c, 'form': 'abs'}
               for a, b, cx, d in segs]
        cases.append({'mode': m.name, 'ap': 0, 'vp': 0, 'bg': 7, 'dens': 64, 'ops': ops})
        wf = m.wfactor
        ops = []
        for i, w in enumerate([1, 3, 5, 7, 9, 13]):
            ops.append({'op': 'get', 'x0': 1, 'y0': 1, 'x1': w, 'y1': 3, 'a': i % 3})
            ops.append({'op': 'put', 'a': i % 3, 'verb': 'PSET', 'same': None,
                        'fx': 31 + i, 'fy': 17})
            ops.append({'op': 'put', 'a': i % 3, 'verb': 'XOR', 'same': None, 'fx': 5, 'fy': 90})
            ops.append({'op': 'put', 'a': i % 3, 'verb': 'XOR', 'same': None, 'fx': 5, 'fy': 90})
        ops.append({'op': 'get', 'x0': 0, 'y0': H - 2, 'x1': W // wf - 1, 'y1': H - 1, 'a': 0})
        ops.append({'op': 'put', 'a': 0, 'verb': 'PSET', 'same': [0, 0], 'fx': 0, 'fy': 0})
        ops.append({'op': 'box', 'x0': 0, 'y0': 0, 'x1': W - 1, 'y1': H - 1, 'c': 1, 'form': 'abs'})
        ops.append({'op': 'bf', 'x0': W - 1, 'y0': H - 1, 'x1': W - 9, 'y1': H - 5, 'c': c,
                    'form': 'step'})
        cases.append({'mode': m.name, 'ap': 1, 'vp': 0, 'bg': 11, 'dens': 256, 'ops': ops})
    for case in cases[shard::nshards]:
        yield case


def units(tier):
    return [
        Unit('directed', 'enum', shards=16, gen=gen_directed),
        Unit('ops', 'hyp', shards=16, examples=gfxutil.scaled({'quick': 150, 'thorough': 6000}),
             strategy=strat_case),
    ]


REGRESSIONS = [
    {'mode': 'cga/1', 'ap': 0, 'vp': 0, 'bg': None, 'dens': 256, 'ops': [
        {'op': 'pset', 'x': 5, 'y': 7, 'c': 2},
        {'op': 'line', 'x0': 0, 'y0': 0, 'x1': 9, 'y1': 4, 'c': 1, 'form': 'abs'},
        {'op': 'get', 'x0': 0, 'y0': 0, 'x1': 10, 'y1': 5, 'a': 0},
        {'op': 'put', 'a': 0, 'verb': 'PSET', 'same': None, 'fx': 33, 'fy': 21}]},
]

KILLS = [
    "final code, VERIF_REPO=<scratch> ./check C31 (VERIF_GFX_SCALE=0.15): 'line_error = (dx+1)//2+1' -> exit 1, line.endpoints + line.off-ideal ; unpack row padding -> exit 1, put.pset/put.xor/put.and/put.or/put.preset/put.err",
    "confirmed with VERIF_REPO=<scratch> ./check C31 (exit 1): graphics._draw_line 'line_error = dx' -> line.endpoints, line.on-page",
    "./check: _draw_line 'range(x0, x1, sx)' (no +1) -> line.count, line.nothing",
    "./check: _draw_line 'line_error = 0' -> line.off-ideal",
    './check: PackedSpriteBuilder.unpack row_bytes without +7 (row padding) -> put.pset, put.xor (5 buckets)',
    './check: bytematrix.pack_bytes shifts reversed (bit order) -> put.pset, put.xor, put.and ...',
    './check: PlanedSpriteBuilder.unpack plane order reversed -> put.* (3 buckets)',
    './check: PlanedSpriteBuilder.pack row_bytes (w+8)//8 -> put.* (2 buckets)',
    './check: _draw_box_filled slice x0:x1 (no +1) -> bf.pixels, bf.on-page',
    'in-process screen (same check_case/strategy, Hypothesis unit only, <=300 cases): put_ XOR->OR -> put.xor',
    'screen: point_ graph_view[x, y] -> point.err/pset.point',
    'screen: Tandy6SpriteBuilder.unpack width not doubled -> put.xor (tandy/6, case #220)',
    'screen: get_ one extra column -> put.xor, get.err',
    "screen: _draw_line 'line_error = (dx+1)//2+1' and 'if line_error <= 0' -> line.off-ideal",
    'screen: _get_attr_index wraps instead of clamping -> pset.pixels, pset.point',
    "screen: put_ PRESET mask '^ 1' -> put.preset ; AND->OR -> put.and",
    'screen: line_ second STEP taken relative to the old last point -> bf.on-page / box.on-page / line.on-page',
    'screen: PackedSpriteBuilder.unpack does not clip to width -> put.err, put.pset',
    'screen: get_ drops the last packed byte -> put.xor',
    'SURVIVED (equivalent): _draw_box left side drawn one pixel short - the corner is also set by the horizontal side',
]
