"""
C44 - TIME$, DATE$ and ENVIRON read back what was set.

Clock: the model is an *offset interval* between BASIC time and the host wall clock, derived from
the statement only: BASIC time starts equal to host time; `TIME$=t` makes the time of day t (the
running fraction of a second is unspecified: [t, t+1s)); `DATE$=d` replaces the date and keeps the
time of day; afterwards time advances with the host clock.  Every statement is bracketed by two
host clock readings, so a read-back must equal the formatted model time for *some* instant inside
the bracket - exactly the "[t, t + elapsed + 1 s]" window of the property, never a fixed sleep or a
wall-clock budget.  A third operation advances the interpreter's stored offset by whole seconds
(instance attribute of the session's Clock) to check roll-over of minute/hour/day/month/year/leap
day without waiting.

The classification of a time/date string as valid / invalid / unspecified is written from the
property statement and the manual (reference.html: "HH{:|.}mm{:|.}ss ... each position may have one
or two characters"; "mm{-|/}dd{-|/}yy[yy]", ranges) and does not call the interpreter.

Environment: dict model keyed by the upper-cased name.
"""
import os
import re
import datetime

from hypothesis import strategies as st

from vlib.core import Result, Unit
from vlib import harness
from vlib import wallsess

ID = 'C44'
LEVEL = 'exploration'
RULE = ("Clock histories: 1-10 operations (TIME$=s, DATE$=s, advance the clock by k seconds) in "
        "one session followed by a read of TIME$ and DATE$ after every operation; s drawn from "
        "valid forms (hh, hh:mm, hh:mm:ss, '.' or ':' separators, 1-2 digit components; mm-dd-yy, "
        "mm/dd/yyyy, 1980-2099, leap days, month ends) and from invalid/unspecified forms "
        "(out of range 24/60/13/32/Feb 30/1979/2100/78, negative, signed, blank-padded, "
        "3+ digits, underscores, letters, exponent and hex forms, empty and extra components, "
        "control and high bytes). Environment histories: 1-8 operations ENVIRON s / read "
        "ENVIRON$(name in random capitalisation) with names PBV_<random> and values over bytes "
        "1..255, '=' inside values, malformed strings (no '=', leading '=', empty, NUL, non-ASCII "
        "name). Thorough adds the exhaustive grids 00:00:00..23:59:59 and every day 1980-2099. "
        "Non-trivial: the history contains an invalid or unspecified string, a 1-digit component, "
        "a leap day, a roll-over advance, or a name read back in another capitalisation. "
        "Distinct = distinct history.")
ASSUMPTIONS = [
    "components written with '+', '-0', blank padding, more than two digits (012), or a 3/4/5-digit "
    "year whose value is below 100 are neither clearly valid nor clearly invalid in the statement "
    "and the manual: accepted-with-the-natural-value or Illegal function call are both allowed, "
    "anything else (other error, other value, escaped exception) fails",
    "the host wall clock (datetime.now, the clock the interpreter itself uses) does not step "
    "backwards during a case; the two bracket readings then enclose the interpreter's own reading",
    "'advance' adds whole seconds to the Clock instance attribute time_offset of our own session "
    "(state injection, not a repository hook)",
    "when a TIME$/DATE$ assignment happens while the model time may lie on either side of "
    "midnight, both possible dates are carried as candidate states and pruned by the following "
    "read-backs (inconclusive only if more than 8 candidates accumulate)",
    "environment values are compared as bytes; all bytes 1..255 map uniquely through codepage 437 "
    "(verified by enumeration in the 'env-bytes' unit); names are restricted to ASCII",
    "ENVIRON$(n) with a numeric index is outside the statement and not asserted",
]
TECHNIQUE = ("Hypothesis operation histories vs. an offset-interval clock model and a dict "
             "environment model; exhaustive time and date grids in the thorough tier")

_WS = ' \t\n\r\x0b\x0c'
SLOP = datetime.timedelta(0)
ONE = datetime.timedelta(seconds=1)


# --------------------------------------------------------------------------------------------
# classification of strings (independent of the interpreter)

_LOOSE = re.compile(r'^[ \t\n\r\x0b\x0c]*([+-]?)([0-9]+)[ \t\n\r\x0b\x0c]*$')


def part_value(p, maxdigits=2):
    """
    One numeric component -> ('strict', v) | ('loose', v) | ('bad', None).
    strict: 1..maxdigits ASCII digits.  loose: blank padding, '+', '-0', extra digits.
    bad: everything else, including any negative value.
    """
    if re.match(r'^[0-9]{1,%d}$' % maxdigits, p):
        return 'strict', int(p)
    m = _LOOSE.match(p)
    if not m:
        return 'bad', None
    v = int(m.group(2))
    if m.group(1) == '-':
        if v != 0:
            return 'bad', None
    return 'loose', v


def classify_time(s):
    """-> ('valid'|'either'|'invalid', (h, m, s) or None, flags)"""
    flags = set()
    parts = s.replace('.', ':').split(':')
    if not 1 <= len(parts) <= 3:
        return 'invalid', None, {'t:components'}
    kinds, vals = [], []
    for p in parts:
        k, v = part_value(p)
        kinds.append(k)
        vals.append(v)
        if '_' in p:
            flags.add('t:underscore')
        if k == 'strict' and len(p) == 1:
            flags.add('t:1digit')
    if 'bad' in kinds:
        return 'invalid', None, flags | {'t:non-numeric'}
    vals += [0] * (3 - len(vals))
    if vals[0] > 23 or vals[1] > 59 or vals[2] > 59:
        return 'invalid', None, flags | {'t:out-of-range'}
    if len(parts) < 3:
        flags.add('t:short-form')
    if 'loose' in kinds:
        return 'either', tuple(vals), flags | {'t:loose'}
    return 'valid', tuple(vals), flags


def classify_date(s):
    """-> ('valid'|'either'|'invalid', datetime.date or None, flags)"""
    flags = set()
    parts = s.replace('/', '-').split('-')
    if len(parts) != 3:
        return 'invalid', None, {'d:components'}
    if any('_' in p for p in parts):
        flags.add('d:underscore')
    km, m = part_value(parts[0])
    kd, d = part_value(parts[1])
    ky, y = part_value(parts[2], 2)
    loose = km == 'loose' or kd == 'loose'
    if 'bad' in (km, kd, ky):
        return 'invalid', None, flags | {'d:non-numeric'}
    ydigits = parts[2]
    if ky == 'strict':
        pass                                  # yy
    elif re.match(r'^[0-9]{4}$', ydigits) and y >= 100:
        pass                                  # yyyy, range checked below
    else:
        loose = True                          # '077', '0077', '01990', '+5', ' 5'
    if y <= 77:
        year = 2000 + y
    elif 80 <= y <= 99:
        year = 1900 + y
    elif 1980 <= y <= 2099:
        year = y
    else:
        return 'invalid', None, flags | {'d:year-range'}
    if not 1 <= m <= 12 or not 1 <= d <= 31:
        return 'invalid', None, flags | {'d:out-of-range'}
    try:
        date = datetime.date(year, m, d)
    except ValueError:
        return 'invalid', None, flags | {'d:not-in-calendar'}
    if m == 2 and d == 29:
        flags.add('d:leap-day')
    if any(k == 'strict' and len(p) == 1 for k, p in ((km, parts[0]), (kd, parts[1]))):
        flags.add('d:1digit')
    if ky == 'strict':
        flags.add('d:yy')
    if loose:
        return 'either', date, flags | {'d:loose'}
    return 'valid', date, flags


def classify_env(b):
    """bytes -> ('valid', name, value) | ('invalid', None, None)"""
    eq = b.find(b'=')
    if eq <= 0 or b'\x00' in b:
        return 'invalid', None, None
    name, value = b[:eq], b[eq + 1:]
    if any(c >= 0x80 for c in name):
        return 'invalid', None, None
    return 'valid', name, value


# --------------------------------------------------------------------------------------------
# clock model

class ClockModel(object):
    """
    BASIC time = host time + off.  The model keeps a small set of candidate offset intervals
    [lo, hi]: normally one; two when a set operation happens while the model time may be on either
    side of midnight (the date the interpreter saw is then one of two).  A read-back must agree
    with some candidate; candidates that disagree with what was read are dropped.
    """

    MAXC = 8

    def __init__(self):
        self.c = [(datetime.timedelta(), datetime.timedelta())]

    @staticmethod
    def _window(lo, hi, wb, wa):
        return wb + lo - SLOP, wa + hi + SLOP

    def set_time(self, hms, wb, wa):
        """-> False if the model degenerates (too many candidates)."""
        new = []
        for lo, hi in self.c:
            cl, ch = self._window(lo, hi, wb, wa)
            for day in sorted({cl.date(), ch.date()}):
                base = datetime.datetime.combine(day, datetime.time(*hms))
                # BASIC time at the (unknown) instant w in [wb, wa] lies in [base, base + 1s)
                cand = (base - wa, base + ONE - datetime.timedelta(microseconds=1) - wb)
                if cand not in new:
                    new.append(cand)
        self.c = new
        return len(new) <= self.MAXC

    def set_date(self, date, wb, wa):
        new = []
        for lo, hi in self.c:
            cl, ch = self._window(lo, hi, wb, wa)
            for day in sorted({cl.date(), ch.date()}):
                delta = datetime.timedelta(days=(date - day).days)
                cand = (lo + delta, hi + delta)
                if cand not in new:
                    new.append(cand)
        self.c = new
        return len(new) <= self.MAXC

    def advance(self, k):
        d = datetime.timedelta(seconds=k)
        self.c = [(lo + d, hi + d) for lo, hi in self.c]

    def _times_of(self, lo, hi, wb, wa):
        cl, ch = self._window(lo, hi, wb, wa)
        out = set()
        x = cl.replace(microsecond=0)
        n = 0
        while x <= ch and n < 100:
            out.add(x.strftime('%H:%M:%S'))
            x += ONE
            n += 1
        return out

    def _dates_of(self, lo, hi, wb, wa):
        cl, ch = self._window(lo, hi, wb, wa)
        return {cl.strftime('%m-%d-%Y'), ch.strftime('%m-%d-%Y')}

    def times(self, wb, wa):
        """All HH:MM:SS strings possible for a read bracketed by [wb, wa]."""
        out = set()
        for lo, hi in self.c:
            out |= self._times_of(lo, hi, wb, wa)
        return out

    def dates(self, wb, wa):
        out = set()
        for lo, hi in self.c:
            out |= self._dates_of(lo, hi, wb, wa)
        return out

    def observe(self, kind, text, wb, wa):
        """Drop the candidates that cannot have produced what was read."""
        f = self._times_of if kind == 'time' else self._dates_of
        keep = [(lo, hi) for lo, hi in self.c if text in f(lo, hi, wb, wa)]
        if keep:
            self.c = keep


def _b(s):
    return s.encode('latin-1', 'replace')[:255]


def check_clock(case, res):
    nontrivial = [False]
    try:
        _check_clock(case, res, nontrivial)
    finally:
        res.nt(nontrivial[0])


def _check_clock(case, res, nontrivial):
    model = ClockModel()
    now = datetime.datetime.now
    with wallsess.WallSess(budget=2000, video='cga') as s:
        clock = s.impl.clock
        for i, op in enumerate(case['ops']):
            kind = op['op']
            desc = 'op %d %r of %r' % (i, op, case['ops'])
            if kind == 'adv':
                k = op['k']
                clock.time_offset += datetime.timedelta(seconds=k)
                model.advance(k)
                res.label('adv')
                nontrivial[0] = True
            else:
                raw = _b(op['s'])
                text = raw.decode('latin-1')
                if kind == 'time':
                    cls, val, flags = classify_time(text)
                else:
                    cls, val, flags = classify_date(text)
                res.label('%s:%s' % (kind, cls), *sorted(flags))
                if cls != 'valid' or flags & {'t:1digit', 'd:1digit', 'd:leap-day'}:
                    nontrivial[0] = True
                underscore = bool(flags & {'t:underscore', 'd:underscore'})
                s.set('T$', raw)
                wb = now()
                o = s.execute(b'TIME$=T$' if kind == 'time' else b'DATE$=T$')
                wa = now()
                if o.kind == 'budget':
                    res.inconclusive = True
                    return
                if o.kind == 'escaped' and o.exc == 'CaseTimeout':
                    res.inconclusive = True
                    return
                if o.kind != 'ok':
                    res.fail('escaped.%s@%s' % (o.exc, o.frame), '%s -> %r\n%s' % (desc, o, o.tb))
                    return
                accepted = not o.errors
                if o.errors and o.err != 5:
                    res.fail('%s.wrong-error' % kind, '%s: error %r, expected none or 5' % (
                        desc, o.errors))
                if cls == 'valid' and not accepted:
                    res.fail('%s.valid-rejected' % kind, '%s: valid %r raised %r' % (
                        desc, raw, o.errors))
                if cls == 'invalid' and accepted:
                    if underscore:
                        res.fail('clock.underscore-accepted',
                                 '%s: %r accepted (Python digit-group underscores)' % (desc, raw))
                    else:
                        res.fail('%s.invalid-accepted' % kind, '%s: invalid %r accepted' % (
                            desc, raw))
                    # we cannot know what the interpreter did with it: resynchronise is impossible
                    return
                if accepted and val is not None:
                    ok = (model.set_time(val, wb, wa) if kind == 'time'
                          else model.set_date(val, wb, wa))
                    if not ok:
                        res.inconclusive = True
                        res.label('midnight-ambiguous')
                        return
            # read back both after every operation
            wb = now()
            t = s.evaluate(b'TIME$')
            wa = now()
            if t.kind != 'ok' or t.errors:
                res.fail('read.time-failed', '%s: %r' % (desc, t))
                return
            exp_t = model.times(wb, wa)
            if bytes(t.value).decode('latin-1') not in exp_t:
                res.fail('time.readback', '%s: TIME$=%r, model allows %s' % (
                    desc, t.value, sorted(exp_t)))
                return
            model.observe('time', bytes(t.value).decode('latin-1'), wb, wa)
            wb = now()
            d = s.evaluate(b'DATE$')
            wa = now()
            if d.kind != 'ok' or d.errors:
                res.fail('read.date-failed', '%s: %r' % (desc, d))
                return
            exp_d = model.dates(wb, wa)
            if bytes(d.value).decode('latin-1') not in exp_d:
                res.fail('date.readback', '%s: DATE$=%r, model allows %s' % (
                    desc, d.value, sorted(exp_d)))
                return
            model.observe('date', bytes(d.value).decode('latin-1'), wb, wa)
            if len(model.c) > 1:
                res.label('two-candidates')


# --------------------------------------------------------------------------------------------
# environment

def check_env(case, res):
    saved = dict(os.environ)
    model = {}
    nontrivial = False
    try:
        with wallsess.WallSess(budget=2000, video='cga') as s:
            for i, op in enumerate(case['ops']):
                desc = 'op %d %r of %r' % (i, op, case['ops'])
                if op['op'] == 'set':
                    raw = _b(op['s'])
                    cls, name, value = classify_env(raw)
                    res.label('env:' + cls)
                    s.set('E$', raw)
                    before = dict(os.environ)
                    o = s.execute(b'ENVIRON E$')
                    if o.kind == 'budget':
                        res.inconclusive = True
                        return
                    if o.kind == 'escaped' and o.exc == 'CaseTimeout':
                        res.inconclusive = True
                        return
                    if o.kind != 'ok':
                        res.fail('escaped.%s@%s' % (o.exc, o.frame),
                                 '%s -> %r\n%s' % (desc, o, o.tb))
                        return
                    if cls == 'invalid':
                        nontrivial = True
                        res.label('env:nul' if b'\x00' in raw else
                                  ('env:no-eq' if b'=' not in raw else
                                   ('env:lead-eq' if raw[:1] == b'=' else 'env:non-ascii-name')))
                        if o.err != 5:
                            res.fail('env.invalid-not-ifc', '%s: %r gave %r, expected error 5' % (
                                desc, raw, o.errors))
                        if dict(os.environ) != before:
                            res.fail('env.invalid-changed-environment',
                                     '%s: environment changed by a rejected string' % desc)
                    else:
                        if o.errors:
                            res.fail('env.valid-rejected', '%s: %r raised %r' % (
                                desc, raw, o.errors))
                            return
                        model[name.upper()] = value
                        if '=' in op['s'][op['s'].index('=') + 1:]:
                            res.label('env:eq-in-value')
                        if not value:
                            res.label('env:unset')
                        if name.upper().decode('ascii') not in os.environ and value:
                            res.fail('env.not-in-host-environment',
                                     '%s: %r not set in os.environ under its upper-case name' % (
                                         desc, name.upper()))
                else:
                    nm = _b(op['n'])
                    if not nm or any(c >= 0x80 for c in nm) or b'\x00' in nm:
                        continue
                    s.set('N$', nm)
                    o = s.evaluate(b'ENVIRON$(N$)')
                    if o.kind != 'ok' or o.errors:
                        res.fail('env.read-failed', '%s: %r' % (desc, o))
                        return
                    key = nm.upper()
                    if key in model:
                        if nm != key:
                            nontrivial = True
                            res.label('env:read-other-case')
                        exp = model[key]
                        if bytes(o.value) != exp:
                            res.fail('env.readback', '%s: ENVIRON$(%r)=%r expected %r' % (
                                desc, nm, o.value, exp))
                    elif key.decode('ascii') not in saved:
                        res.label('env:read-unset')
                        if bytes(o.value) != b'':
                            res.fail('env.unset-not-empty', '%s: ENVIRON$(%r)=%r for a name never '
                                     'set' % (desc, nm, o.value))
    finally:
        os.environ.clear()
        os.environ.update(saved)
    res.nt(nontrivial)


def check_case(case):
    res = Result()
    wallsess.reset()
    _dispatch(case, res)
    if wallsess.hit():
        res = Result()
        res.inconclusive = True
        res.label('case-wall-limit')
    return res


def _dispatch(case, res):
    if case['u'] == 'clock':
        check_clock(case, res)
    elif case['u'] == 'env':
        check_env(case, res)
    else:
        raise ValueError(case['u'])
    return res


# --------------------------------------------------------------------------------------------
# generators
#
# The grammar is written once against the random.Random API.  The 'hyp' units hand it a
# Hypothesis-controlled Random (st.randoms(): every choice is a shrinkable draw); the 'rand'
# units hand it random.Random(shard seed) and produce the bulk of the cases (Hypothesis costs
# ~10x the oracle per case here).

def _num(rng, lo, hi):
    v = rng.randint(lo, hi)
    return ('%02d' % v) if rng.random() < 0.5 else str(v)


def _tsep(rng):
    return rng.choice([':', ':', ':', '.'])


def valid_time(rng):
    n = rng.choice([0, 1, 2, 2, 2])
    h, m, sec = _num(rng, 0, 23), _num(rng, 0, 59), _num(rng, 0, 59)
    s1, s2 = _tsep(rng), _tsep(rng)
    return [h, h + s1 + m, h + s1 + m + s2 + sec][n]


EDGE_TIMES = ['23:59:59', '0:0:0', '00:00:00', '23', '0', '23:59', '12:00:00', '1:2:3', '9.9.9',
              '23.59.59', '11:59:59', '12.30:45', '23:59:58', '0:59:59', '12:59']

ODD_COMPONENTS = ['24', '60', '61', '99', '100', '-1', '-0', '+1', '+0', ' 1', '1 ', ' 12',
                  '\t5', '5\n', '', ' ', '1_0', '1__0', '_1', '1_', '012',
                  '007', '0000', '1e1', '0x1', '1.5', 'a', '1a', 'ab', '\x00', '1\x00',
                  '\xb2', '\xa01', '\xb9', '1 2', '--1', '+-1', '255', '256',
                  '65536', '-59', '-23', '- 1', '+ 1', '1+', '++1', '0b1', '1L', '1,0']
ODD_TIMES = ['', ':', '::', '1:2:3:4', '12:', ':12', '12::30', '24:00:00', '23:60:00',
             '23:59:60', '12:30:45.5', '12 :30', '12: 30', 'noon', '12-30-00',
             '12/30/00', '1:2:3:', '.', '..', '1..2', '-1:00:00', '00:-1:00',
             '00:00:-1', '-0:00:00', '10:10:1_0', '12:30:45:', '12;30', '12,30']


def odd_component(rng):
    if rng.random() < 0.7:
        return rng.choice(ODD_COMPONENTS)
    return ''.join(rng.choice('0123456789+- :.\t') for _ in range(rng.randint(0, 4)))


def odd_time(rng):
    if rng.random() < 0.3:
        return rng.choice(ODD_TIMES)
    n = rng.randint(1, 4)
    parts = [odd_component(rng) for _ in range(n)]
    if rng.random() < 0.7:
        keep = rng.randrange(n)        # one odd component, the rest plausible
        parts = [p if i == keep else _num(rng, 0, 23) for i, p in enumerate(parts)]
    out = parts[0]
    for p in parts[1:]:
        out += _tsep(rng) + p
    return out


def _dim(y, m):
    return [31, 29 if (y % 4 == 0 and (y % 100 != 0 or y % 400 == 0)) else 28, 31, 30, 31, 30,
            31, 31, 30, 31, 30, 31][m - 1]


def _dsep(rng):
    return rng.choice(['-', '-', '/'])


def valid_date(rng):
    m = rng.randint(1, 12)
    if rng.random() < 0.5:
        y = rng.randint(1980, 2099)
    else:
        y = rng.choice([1980, 1999, 2000, 2077, 2078, 2079, 2080, 2099, 1984, 2000, 2024, 2096])
    d = min(rng.choice([1, 2, 15, 28, 29, 30, 31, 31]), _dim(y, m))
    ms = ('%02d' % m) if rng.random() < 0.5 else str(m)
    ds = ('%02d' % d) if rng.random() < 0.5 else str(d)
    form = rng.randint(0, 2)
    if form == 0 or not (1980 <= y <= 1999 or 2000 <= y <= 2077):
        ys = str(y)
    elif form == 1:
        ys = '%02d' % (y % 100)
    else:
        ys = str(y % 100)
    return ms + _dsep(rng) + ds + _dsep(rng) + ys


ODD_DATE_PARTS = ['0', '00', '13', '32', '31', '30', '29', '78', '79', '77', '80', '99', '100',
                  '1979', '1980', '2099', '2100', '077', '0077', '01990', '19900', '9999',
                  '10000', '+5', ' 5']
ODD_DATES = ['', '-', '--', '1-1', '1-1-1990-1', '02-30-1990', '02-29-1990',
             '02-29-2000', '02-29-2100', '02-29-1900', '04-31-2000', '06-31-80',
             '13-01-1990', '00-01-1990', '01-00-1990', '0-1-1990', '1-1-1979',
             '1-1-2100', '1-1-78', '1-1-79', '1-1-77', '1-1-80', '1--1-1990',
             '1/1/1990/', '1.1.1990', '1 1 1990', '12-31-2099', '01-01-1980',
             '1-1-100', '1-1-999', '1-1-19_90', '1_0-1_0-1990',
             'Jan-1-1990', '1-1-90AD', '-1-1-1990', '1/-1/1990', '02-29-80', '2/29/2024']


def odd_date(rng):
    if rng.random() < 0.35:
        return rng.choice(ODD_DATES)

    def comp():
        r = rng.random()
        if r < 0.35:
            return odd_component(rng)
        if r < 0.6:
            return _num(rng, 1, 12)
        return rng.choice(ODD_DATE_PARTS)
    return comp() + _dsep(rng) + comp() + _dsep(rng) + comp()


ADVANCES = [1, 2, 59, 60, 61, 3599, 3600, 86399, 86400, 86401, 172800, 31 * 86400, 366 * 86400]


def rand_clock_case(rng):
    ops = []
    for _ in range(rng.randint(1, 10)):
        r = rng.random()
        if r < 0.4:
            q = rng.random()
            s = (valid_time(rng) if q < 0.4 else rng.choice(EDGE_TIMES) if q < 0.55
                 else odd_time(rng))
            ops.append({'op': 'time', 's': s})
        elif r < 0.8:
            s = valid_date(rng) if rng.random() < 0.5 else odd_date(rng)
            ops.append({'op': 'date', 's': s})
        else:
            ops.append({'op': 'adv', 'k': rng.choice(ADVANCES)})
    return {'u': 'clock', 'ops': ops}


def _flipcase(rng, name):
    mode = rng.randint(0, 3)
    if mode == 0:
        return name
    if mode == 1:
        return name.lower()
    if mode == 2:
        return name.upper()
    return ''.join(c.swapcase() if rng.random() < 0.5 else c for c in name)


NAME_ALPHA = 'ABCDEFGHIJKLMNOPQRSTUVWXYZabcdefghijklmnopqrstuvwxyz0123456789_ .-$%()'
VALUE_EDGES = ['', ' ', '=', '==', 'a=b', '=x', 'x' * 200, '\xff' * 100, '%PATH%', '$HOME',
               '\x01', '\x7f\x80', 'caf\xe9', '"quoted"']


def env_value(rng):
    r = rng.random()
    if r < 0.4:
        return ''.join(chr(rng.randint(1, 255)) for _ in range(rng.randint(0, 30)))
    if r < 0.7:
        return ''.join(rng.choice('abcXYZ=; /\\:"\'\t\x01\xe9\xff')
                       for _ in range(rng.randint(0, 12)))
    return rng.choice(VALUE_EDGES)


def rand_env_case(rng):
    names = ['PBV_' + ''.join(rng.choice(NAME_ALPHA) for _ in range(rng.randint(0, 12)))
             for _ in range(rng.randint(1, 2))]
    ops = []
    for _ in range(rng.randint(1, 8)):
        n = _flipcase(rng, rng.choice(names))
        r = rng.random()
        if r < 0.42:
            ops.append({'op': 'set', 's': (n + '=' + env_value(rng))[:255]})
        elif r < 0.58:
            v = env_value(rng)
            form = rng.randint(0, 7)
            s_ = [
                n + v.replace('=', ''),                  # no '='
                '=' + v,                                 # leading '='
                '',                                      # empty
                n + '=' + v[:3] + '\x00' + v[3:],        # NUL in value
                n[:2] + '\x00' + n[2:] + '=' + v,        # NUL in name
                n + '\xe9=' + v,                         # non-ASCII name
                '\xff' + n + '=' + v,
                n + v.replace('=', '') + '\x00',         # NUL, no '='
            ][form][:255]
            ops.append({'op': 'set', 's': s_})
        else:
            if rng.random() < 0.15:
                n = 'PBV_' + ''.join(rng.choice(NAME_ALPHA) for _ in range(rng.randint(0, 12)))
            ops.append({'op': 'get', 'n': n})
    return {'u': 'env', 'ops': ops}


def strat_clock():
    return st.randoms(use_true_random=False).map(rand_clock_case)


def strat_env():
    return st.randoms(use_true_random=False).map(rand_env_case)


RAND_COUNTS = {'clock': {'quick': 350, 'thorough': 12000},
               'env': {'quick': 500, 'thorough': 24000}}


def _gen_rand(kind, builder):
    def gen(shard, nshards, tier, seed):
        import random
        rng = random.Random(seed)
        for _ in range(RAND_COUNTS[kind][tier]):
            yield builder(rng)
    return gen


def gen_env_bytes(shard, nshards, tier, seed):
    """every byte 1..255 as a value character; every ASCII byte 1..127 (but '=') in a name."""
    cases = []
    for b in range(1, 256):
        cases.append({'u': 'env', 'ops': [
            {'op': 'set', 's': 'PBV_Byte=a' + chr(b) + 'z'}, {'op': 'get', 'n': 'pbv_bYTE'},
            {'op': 'set', 's': 'PBV_Byte='}, {'op': 'get', 'n': 'PBV_BYTE'}]})
    for b in range(1, 128):
        if chr(b) == '=':
            continue
        nm = 'PBV_n' + chr(b) + 'Q'
        cases.append({'u': 'env', 'ops': [
            {'op': 'set', 's': nm + '=v%d' % b}, {'op': 'get', 'n': nm.swapcase()},
            {'op': 'get', 'n': nm}]})
    return iter(cases[shard::nshards])


def gen_time_grid(shard, nshards, tier, seed):
    """quick: every hour/minute/second value once in each position and form; thorough: all 86400."""
    if tier == 'thorough':
        allt = ['%02d:%02d:%02d' % (h, m, s) for h in range(24) for m in range(60)
                for s in range(60)]
    else:
        allt = ['%d:%d:%d' % (v % 24, v, 59 - v) for v in range(60)]
        allt += ['%02d.%02d.%02d' % (v % 24, 59 - v, v) for v in range(60)]
    allt += ['%d' % h for h in range(24)] + ['%02d' % h for h in range(24)]
    allt += ['%d:%d' % (h, m) for h in (0, 7, 23) for m in range(60)]
    allt += ['%d' % h for h in range(24, 100)] + ['12:%d' % m for m in range(60, 100)] + [
        '12:30:%d' % m for m in range(60, 100)]
    chunk = 40
    cases = [{'u': 'clock', 'ops': [{'op': 'time', 's': t} for t in allt[i:i + chunk]]}
             for i in range(0, len(allt), chunk)]
    return iter(cases[shard::nshards])


def gen_date_grid(shard, nshards, tier, seed):
    """quick: every month end, leap day and year boundary 1980-2099; thorough: every day."""
    dates = []
    d = datetime.date(1980, 1, 1)
    end = datetime.date(2099, 12, 31)
    while d <= end:
        nxt = d + datetime.timedelta(days=1)
        if tier == 'thorough' or nxt.day == 1 or d.day == 1 or (d.month == 2 and d.day >= 28):
            dates.append(d)
        d = nxt
    strs = []
    for i, d in enumerate(dates):
        f = i % 4
        if f == 0:
            strs.append('%02d-%02d-%04d' % (d.month, d.day, d.year))
        elif f == 1:
            strs.append('%d/%d/%d' % (d.month, d.day, d.year))
        elif f == 2 and (d.year <= 1999 or d.year <= 2077):
            strs.append('%d-%d-%02d' % (d.month, d.day, d.year % 100))
        else:
            strs.append('%02d/%d-%d' % (d.month, d.day, d.year))
    # impossible days of every month of a leap and a non-leap year, and the year gaps
    for y in (1990, 2000, 2024, 2099):
        for m in range(1, 13):
            for dd in (29, 30, 31, 32):
                strs.append('%d-%d-%d' % (m, dd, y))
    strs += ['1-1-%d' % y for y in list(range(0, 130)) + list(range(1970, 1982)) + list(
        range(2095, 2105))]
    chunk = 40
    cases = []
    for i in range(0, len(strs), chunk):
        ops = [{'op': 'time', 's': '12:00:00'}] + [{'op': 'date', 's': t}
                                                   for t in strs[i:i + chunk]]
        cases.append({'u': 'clock', 'ops': ops})
    return iter(cases[shard::nshards])


def units(tier):
    return [
        Unit('time-grid', 'enum', shards={'quick': 2, 'thorough': 16}, gen=gen_time_grid,
             exhaustive=(tier == 'thorough')),
        Unit('date-grid', 'enum', shards={'quick': 2, 'thorough': 16}, gen=gen_date_grid,
             exhaustive=(tier == 'thorough')),
        Unit('env-bytes', 'enum', shards=2, gen=gen_env_bytes, exhaustive=True),
        Unit('clock-rand', 'enum', shards=16, gen=_gen_rand('clock', rand_clock_case)),
        Unit('env-rand', 'enum', shards=8, gen=_gen_rand('env', rand_env_case)),
        Unit('clock', 'hyp', shards=4, examples={'quick': 100, 'thorough': 2400},
             strategy=strat_clock),
        Unit('env', 'hyp', shards=2, examples={'quick': 120, 'thorough': 4800},
             strategy=strat_env),
    ]


REGRESSIONS = [
    # fixed 8babcf7d: negative time component escaped as ValueError
    {'u': 'clock', 'ops': [{'op': 'time', 's': '-1:00:00'}]},
    {'u': 'clock', 'ops': [{'op': 'time', 's': '12:00:00'}, {'op': 'time', 's': '00:-5:00'}]},
    # fixed 44c4f3b6: NUL in an ENVIRON string escaped as ValueError
    {'u': 'env', 'ops': [{'op': 'set', 's': 'PBV_A=b\x00'}]},
    {'u': 'env', 'ops': [{'op': 'set', 's': 'PBV_A=keep'}, {'op': 'set', 's': 'PBV_\x00A=x'},
                         {'op': 'get', 'n': 'pbv_a'}]},
    # fixed bf6c76bd: digit-group underscores were accepted as numbers
    {'u': 'clock', 'ops': [{'op': 'time', 's': '1_0'}]},
    {'u': 'clock', 'ops': [{'op': 'date', 's': '1_0-1_0-1990'}]},
    # roll-over
    {'u': 'clock', 'ops': [{'op': 'date', 's': '02-28-2024'}, {'op': 'time', 's': '23:59:58'},
                           {'op': 'adv', 'k': 3}, {'op': 'adv', 'k': 86400}]},
    {'u': 'clock', 'ops': [{'op': 'date', 's': '12/31/99'}, {'op': 'time', 's': '23.59.59'},
                           {'op': 'adv', 'k': 1}]},
]

KILLS = [
    "clock.py time_: `timelist[0] > 23` -> `> 24` -> escaped.ValueError@clock.py:time_ (TIME$=\"24\")",
    "clock.py time_: `timelist[1] > 59` -> `> 60` -> escaped.ValueError@clock.py:time_ (\"12:60\")",
    "clock.py time_: lower-bound check `min(timelist) < 0` removed -> escaped.ValueError@clock.py:time_",
    "clock.py time_: seconds stored one less -> time.readback",
    "clock.py date_: month/day swapped in datetime(...) -> date.readback, date.valid-rejected",
    "clock.py date_: `datelist[2] <= 77` -> `< 77` -> date.readback (1-31-77)",
    "clock.py date_: time of day reset to midnight on DATE$= -> time.readback",
    "clock.py time_: new time placed on the previous day -> date.readback",
    "SURVIVES (equivalent): clock.py time_: running fraction of a second reset to 0 - the statement "
    "leaves the fraction unspecified",
    "dos.py _setenv: ukey.upper() dropped -> env.readback, env.not-in-host-environment",
    "dos.py _getenv: ukey.upper() dropped -> env.readback",
    "dos.py environ_statement_: `eqs <= 0` -> `< 0` -> escaped.OSError@python3.py:setenvu",
    "dos.py environ_statement_: find -> rfind -> escaped.ValueError@python3.py:setenvu, "
    "env.valid-rejected",
    "dos.py environ_statement_: NUL check dropped -> escaped.ValueError@python3.py:setenvu",
    "dos.py _setenv: name decoded as latin-1 instead of ascii -> env.invalid-not-ifc, "
    "env.invalid-changed-environment",
]
