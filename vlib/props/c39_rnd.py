"""
C39 - RND is a deterministic full-period linear congruential sequence in [0, 1).

Reference model (written from the manual's RND/RANDOMIZE sections and the published GW-BASIC
constants, not from randomiser.py):

    f(s)  = (214013*s + 2531011) mod 2^24          initial state 5228370
    RND, RND(x>0)      : s <- f(s) ; value s/2^24
    RND(0)             : value s/2^24, s unchanged
    RND(x<0)           : s <- f(m) with m the 24-bit mantissa (leading one included) of CSNG(x)
    RANDOMIZE expr     : n = int16 made of the last two bytes of expr's internal representation,
                         XORed with the two bytes before them when expr is a 4/8-byte float;
                         s <- (f(s AND 255) + n*4455680) mod 2^24
    RUN, CLEAR         : s <- 5228370

Observation is through BASIC text only (Session.evaluate / execute); values are compared as exact
rationals (a Single converts exactly to a Python float; v*2^24 is exact in binary64), and part of
the observations go through MKS$ bytes decoded by the independent MBF model in vlib/mbf.py.
"""
import os
from fractions import Fraction

from hypothesis import strategies as st

from vlib.core import Result, Unit
from vlib import harness, mbf

ID = 'C39'
LEVEL = 'exploration'
RULE = ("sweep: consecutive generator states drawn through the RND function (every 16th draw as BASIC "
        "text via Session.evaluate, the others by calling the bound RND callback directly), in 16 segments of the "
        "reference cycle (quick 16 x 2^16 spread over the cycle; thorough 16 x 2^20 = all 2^24 "
        "states, chained end-to-start, plus a bitmap over the reference cycle) - every state "
        "counts; reseed: RANDOMIZE with every int16 (thorough) / 4096 int16 (quick) and sampled "
        "single/double byte patterns and literals from varied prior states, RND(-x) over mantissa "
        "and exponent classes, RND(zero) for every way of writing zero (typed literals, negated zeros, "
        "unset variables, CVS/CVD values with exponent byte 0 and all mantissa/sign patterns); histories: random op lists (RND, RND(0), RND(x>0), RND(-x), "
        "RANDOMIZE, RUN, CLEAR) run in direct mode in one session and compiled to a stored program "
        "in a second session. Non-trivial history: contains a reseed/RUN/CLEAR followed by >= 2 "
        "draws; distinct = distinct case hash.")
ASSUMPTIONS = [
    "RANDOMIZE's state transition s' = (f(s AND 255) + n*4455680) mod 2^24 is GW-BASIC 3.23 "
    "behaviour (anchored by the recorded outputs in tests/basic/unsorted/RANDOMIZ); the manual "
    "documents only how n is formed. 'Same argument reseeds identically' is asserted relative to "
    "the prior state, because the low byte of the old seed survives RANDOMIZE",
    "RND(0) directly after RANDOMIZE/RUN/CLEAR (no draw in between) may return either the last "
    "value drawn or the current seed/2^24 (the statement's two clauses disagree there)",
    "RND(-x) with a double x that is not exactly a single: either neighbouring single's mantissa "
    "is accepted (rounding is C03's subject)",
    "the thorough sweep proves full period by (a) exact agreement with the reference sequence on "
    "all 2^24 consecutive draws and (b) a bitmap over the reference cycle",
    "an integer-valued *expression* argument of RANDOMIZE (-2, 1+1) may seed as the integer (as in "
    "GW-BASIC) or as the integral Single the expression evaluates to here: the statement only "
    "requires that the same argument reseeds identically; any third outcome is randomize.state",
]
TECHNIQUE = ("exhaustive state sweep vs. reference LCG with jump-ahead sharding; enumeration of "
             "int16 RANDOMIZE arguments; Hypothesis op-list histories vs. reference model, two "
             "sessions (direct mode / stored program) compared")

A, C, M = 214013, 2531011, 1 << 24
S0 = 5228370
RSTEP = 4455680
A_INV = pow(A, -1, M)


def f(s):
    return (A * s + C) % M


def f_inv(s):
    return ((s - C) * A_INV) % M


def jump(s, k):
    """f^k(s) by repeated squaring of the affine map."""
    a, c = A, C
    ra, rc = 1, 0
    while k:
        if k & 1:
            ra, rc = (a * ra) % M, (a * rc + c) % M
        a, c = (a * a) % M, (a * c + c) % M
        k >>= 1
    return (ra * s + rc) % M


def state_at(pos):
    """State after `pos` draws from a fresh generator."""
    return jump(S0, pos)


def sync_pos_at_or_after(pos):
    """Smallest p >= pos such that the state *before* draw p can be set by RND(-x)
    (i.e. state_at(p-1) has its top bit set), or 0 for a fresh session."""
    if pos <= 0:
        return 0
    p = max(pos, 1)
    s = state_at(p - 1)
    while s < (1 << 23):
        s = f(s)
        p += 1
    return p


def sync_pos_at_or_before(pos):
    p = pos
    if p <= 0:
        return 0
    s = state_at(p - 1)
    while p > 0 and s < (1 << 23):
        s = f_inv(s)
        p -= 1
    return max(p, 0)


def chr_expr(b):
    return '+'.join('CHR$(%d)' % x for x in b)


def neg_single_bytes(m, e=128):
    """Single with sign bit set, 24-bit mantissa m (leading one included), biased exponent e."""
    return mbf.encode_parts(1, m, e, 4)


def randomize_n(b):
    """The manual's seed formation from the internal representation b (2, 4 or 8 bytes)."""
    b = bytes(b)
    lo, hi = b[-2], b[-1]
    if len(b) >= 4:
        lo ^= b[-4]
        hi ^= b[-3]
    v = lo | (hi << 8)
    return v - 0x10000 if v & 0x8000 else v


def randomize_next(s, n):
    return (f(s & 0xff) + n * RSTEP) % M


def frac_of(v):
    return Fraction(v)


# ---------------------------------------------------------------------------------------------
# shared session for the cheap enumerations (state re-established by RND(-x) in every case)

_SH = {}


def _shared():
    s = _SH.get('s')
    if s is None or _SH['n'] > 5000:
        if s is not None:
            s.close()
        s = harness.Sess()
        _SH['s'] = s
        _SH['n'] = 0
    _SH['n'] += 1
    return s


def _drop_shared():
    s = _SH.pop('s', None)
    if s is not None:
        s.close()


def draw(sess, expr=b'RND'):
    """-> (Fraction or None, Outcome)."""
    o = sess.evaluate(expr)
    if o.kind != 'ok' or o.errors or not isinstance(o.value, float):
        return None, o
    return Fraction(o.value), o


def draw_mks(sess, expr=b'RND'):
    o = sess.evaluate(b'MKS$(' + expr + b')')
    if o.kind != 'ok' or o.errors or not isinstance(o.value, bytes) or len(o.value) != 4:
        return None, o
    return mbf.decode(o.value), o


def bad_outcome(res, o, what):
    if o.kind == 'escaped':
        res.fail('escaped.%s@%s' % (o.exc, o.frame), '%s: %r\n%s' % (what, o, o.tb))
    elif o.kind == 'budget':
        res.inconclusive = True
    else:
        res.fail('unexpected-outcome', '%s: %r' % (what, o))


def sync_to(sess, res, m):
    """Set the generator to f(m) with RND(-x), x of mantissa m; check the returned value."""
    b = neg_single_bytes(m)
    v, o = draw(sess, ('RND(CVS(%s))' % chr_expr(b)).encode())
    s = f(m)
    if v is None:
        bad_outcome(res, o, 'RND(-x) sync')
        return None
    if v != Fraction(s, M):
        res.fail('rndneg.value', 'RND(CVS(%s)) [mantissa %d] returned %s, expected %d/2^24'
                 % (b.hex(), m, v * M, s))
        return None
    return s


# ---------------------------------------------------------------------------------------------
# sweep

def sweep_segment(sess, pos, length, on_fail):
    """Check draws number pos+1 .. pos+length (pos = draws already made since a fresh start).
    The session must already be in state_at(pos). Returns the final model state."""
    s = state_at(pos)
    basic_eval = sess.s.evaluate            # public API: BASIC text -> Python value
    rnd_ = sess.impl.randomiser.rnd_        # the function behind the RND token, argument-less form
    noarg = [None]
    scale = float(M)
    for i in range(length):
        s = (A * s + C) % M
        if i & 15:
            v = rnd_(noarg).to_value()
        else:
            # every 16th draw (and the first) goes through the tokeniser and expression parser
            v = basic_eval(b'RND')
        if not isinstance(v, float) or v * scale != s or not (0.0 <= v < 1.0):
            on_fail(pos + i + 1, s, v)
            return None
    return s


def setup_at(sess, res, pos):
    """Bring a fresh session to state_at(pos) through the public route; pos must come from
    sync_pos_at_or_*. Returns True on success."""
    if pos == 0:
        return True
    m = state_at(pos - 1)
    assert m >= (1 << 23)
    got = sync_to(sess, res, m)
    return got is not None and got == state_at(pos)


def check_sweep(case, res):
    """case: start (a sync position), len."""
    start, length = case['start'], case['len']
    if sync_pos_at_or_before(start) != start:
        raise ValueError('not a sync position')
    with harness.Sess(budget=None) as sess:
        if not setup_at(sess, res, start):
            return res

        def on_fail(p, s, v):
            try:
                got = Fraction(v) * M
            except (TypeError, ValueError):
                got = v
            res.fail('sweep.value', 'draw #%d since start: RND returned %r (= %s/2^24), reference '
                     'state %d' % (p, v, got, s))
        sweep_segment(sess, start, length, on_fail)
    res.nt(True)
    return res


def _scale(n):
    """VERIF_SCALE (default 1) shrinks sampled counts for development/mutation runs only."""
    try:
        return max(1, int(n * float(os.environ.get('VERIF_SCALE', '1'))))
    except ValueError:
        return n


NSEG = 16       # the reference cycle is cut into 16 segments whatever the number of shards


def run_sweep(shard, nshards, tier, seed, ev):
    for seg in range(shard, NSEG, nshards):
        run_sweep_segment(seg, tier, ev)
    if tier == 'thorough' and shard == 0:
        # bitmap over the reference cycle: every state exactly once before returning to the start
        seen = bytearray(M)
        s = S0
        cnt = 0
        while not seen[s]:
            seen[s] = 1
            s = (A * s + C) % M
            cnt += 1
        if cnt != M or s != S0:
            ev.fail('reference.period', {'u': 'refperiod'}, 'reference cycle length %d' % cnt)
        ev.count(1, label='reference-bitmap-full-period')


def run_sweep_segment(seg, tier, ev):
    seglen = _scale(1 << 16) if tier == 'quick' else (1 << 20)
    stride = M // NSEG
    start = sync_pos_at_or_after(seg * stride)
    if tier == 'quick':
        end = start + seglen
    else:
        end = sync_pos_at_or_after((seg + 1) * stride) if seg + 1 < NSEG else M
    res = Result()
    fails = []
    with harness.Sess(budget=None) as sess:
        if not setup_at(sess, res, start):
            for k, msg in res.fails:
                ev.fail(k, {'u': 'sweep', 'start': start, 'len': 1}, msg)
            ev.count(1)
            return

        def on_fail(p, s, v):
            back = sync_pos_at_or_before(max(p - 8, 0))
            fails.append(({'u': 'sweep', 'start': back, 'len': p - back}, p, s, v))
        last = sweep_segment(sess, start, end - start, on_fail)
        for case, p, s, v in fails:
            ev.fail('sweep.value', case, 'draw #%d: RND returned %r, reference state %d' % (p, v, s))
        n = end - start
        if tier == 'thorough':
            # the segments chain end-to-start (each ends where the next begins); the last one must
            # arrive back at the initial state after 2^24 draws in total
            if last is not None and seg + 1 == NSEG and last != S0:
                ev.fail('sweep.period', {'u': 'sweep', 'start': start, 'len': n},
                        'state after 2^24 draws is %d, not the initial state' % last)
        ev.count(n, nontrivial=n, label='sweep-state')
        ev.sample({'u': 'sweep', 'start': start, 'len': 16})


# ---------------------------------------------------------------------------------------------
# argument descriptions -> (BASIC text, setup statements, model bytes)

def arg_text(arg, program=False):
    """-> (expression text, prelude statement text or '', internal bytes) for a RANDOMIZE/RND arg."""
    t = arg['t']
    if t == 'int':
        n = arg['v']
        b = mbf.int16_bytes(n)
        if arg.get('form') == 'var' or n < 0:
            return 'A%', 'A%%=%d' % n, b
        return str(n), '', b
    if t == 'bytes':
        b = bytes.fromhex(arg['hex'])
        fn = 'CVS' if len(b) == 4 else 'CVD'
        expr = '%s(%s)' % (fn, chr_expr(b))
        if arg.get('form') == 'var':
            name = 'A!' if len(b) == 4 else 'A#'
            return name, '%s=%s' % (name, expr), b
        return expr, '', b
    if t == 'lit':
        text = arg['text']
        return text, '', literal_bytes(text)
    raise ValueError(t)


def literal_bytes(text):
    """Internal representation of an exactly representable numeric literal."""
    t = text.upper()
    if t.endswith('%'):
        return mbf.int16_bytes(int(t[:-1]))
    if t.endswith('#') or 'D' in t:
        body = t.rstrip('#').replace('D', 'E')
        return mbf.encode_value(_exact(body), 8)
    if t.endswith('!') or 'E' in t or '.' in t:
        return mbf.encode_value(_exact(t.rstrip('!')), 4)
    v = int(t)
    if -32768 <= v <= 32767:
        return mbf.int16_bytes(v)
    digits = len(t.lstrip('-'))
    return mbf.encode_value(Fraction(v), 4 if digits <= 7 else 8)


def _exact(body):
    if 'E' in body:
        mant, ex = body.split('E')
        return Fraction(mant) * Fraction(10) ** int(ex)
    return Fraction(body)


LITERALS = ['0', '1', '7', '255', '256', '32767', '32768', '40000', '65535', '65536', '100000',
            '9999999', '16777216', '123456789', '4294967296', '1.5', '.25', '.5', '2.5', '1!', '0!',
            '1#', '0#', '.25#', '255#', '1D0', '2.5D0', '1E10', '32768!', '32768#', '3%', '1E0',
            '1024.5', '8388608', '8388608#', '.0078125']


def mantissas_of_double(b):
    """Acceptable 24-bit mantissas of CSNG(double b): exact, or both neighbours."""
    x = abs(mbf.decode(b))
    lo, hi = mbf.floor_ceil(x, 4)
    out = []
    for v in (lo, hi):
        e = mbf.exponent_of(v)
        out.append(int(v / Fraction(2) ** (e - 24)))
    return sorted(set(out))


# ---------------------------------------------------------------------------------------------
# reseed cases (shared session; prior state set through RND(-x) and draws)

def check_reseed(case, res):
    """case: pre (mantissa for sync), draws, kind 'randomize'|'rndneg', arg."""
    sess = _shared()
    s = sync_to(sess, res, case['pre'])
    if s is None:
        _drop_shared()
        return res
    for _ in range(case['draws']):
        v, o = draw(sess)
        s = f(s)
        if v is None or v != Fraction(s, M):
            res.fail('rnd.value', 'draw after sync returned %r, expected %d/2^24' % (
                v * M if v is not None else o, s))
            _drop_shared()
            return res
    if case['kind'] == 'rndzero':
        # RND(zero in any encoding) repeats the last value and leaves the state alone
        expr = 'RND(%s)' % zero_expr(case)
        res.label('rndzero-dirty' if case.get('zb') else 'rndzero-text')
        for k in range(2):
            v, o = draw(sess, expr.encode())
            if v is None:
                bad_outcome(res, o, expr)
                _drop_shared()
                return res
            if v != Fraction(s, M):
                res.fail('rnd0.value', '%s (call %d) from state %d returned %s/2^24 instead of '
                         'repeating %d/2^24' % (expr, k + 1, s, v * M, s))
                return res
        for k in range(2):
            v, o = draw(sess)
            s = f(s)
            if v is None or v != Fraction(s, M):
                res.fail('rnd0.state', 'after %s: draw %d returned %r, expected %d/2^24' % (
                    expr, k + 1, v * M if v is not None else o, s))
                return res
        res.nt(True)
        return res
    arg = case['arg']
    expr, prelude, b = arg_text(arg)
    if case['kind'] == 'randomize':
        n = randomize_n(b)
        stmt = (prelude + ':' if prelude else '') + 'RANDOMIZE ' + expr
        o = sess.execute(stmt.encode())
        if o.kind != 'ok' or o.errors or o.output:
            bad_outcome(res, o, stmt)
            _drop_shared()
            return res
        want = [randomize_next(s, n)]
        res.label('randomize-%s' % {2: 'int', 4: 'single', 8: 'double'}[len(b)])
        what = '%s [bytes %s, n=%d] from state %d' % (stmt, b.hex(), n, s)
        key = 'randomize.state'
        nxt = f
    else:
        # RND(-x): state independent
        if prelude:
            o = sess.execute(prelude.encode())
            if o.kind != 'ok' or o.errors:
                bad_outcome(res, o, prelude)
                _drop_shared()
                return res
        if len(b) == 2:
            v = mbf.decode(b)
            e = mbf.exponent_of(v)
            ms = [int(abs(v) / Fraction(2) ** (e - 24))]
        elif len(b) == 4:
            ms = [mbf.parts(b)[1]]
        else:
            ms = mantissas_of_double(b)
            res.label('rndneg-double-exact' if len(ms) == 1 else 'rndneg-double-inexact')
        want = None
        what = 'RND(%s) [bytes %s] from state %d' % (expr, b.hex(), s)
        v, o = draw(sess, ('RND(%s)' % expr).encode())
        if v is None:
            bad_outcome(res, o, what)
            _drop_shared()
            return res
        cands = [f(m) for m in ms]
        hit = [c for c in cands if v == Fraction(c, M)]
        if not hit:
            res.fail('rndneg.value', '%s returned %s/2^24, expected %r (mantissa %r)' % (
                what, v * M, cands, ms))
            return res
        want = hit
        res.label('rndneg-%s' % {2: 'int', 4: 'single', 8: 'double'}[len(b)])
        key = 'rndneg.state'
        nxt = f
    # observe: two draws must continue the reference sequence from the new state
    s2 = want[0]
    for k in range(2):
        v, o = draw(sess)
        s2 = nxt(s2)
        if v is None:
            bad_outcome(res, o, what)
            _drop_shared()
            return res
        if v != Fraction(s2, M):
            res.fail(key, '%s: draw %d afterwards returned %s/2^24, expected %d' % (
                what, k + 1, v * M, s2))
            return res
    res.nt(True)
    return res


def check_intexpr(case, res):
    """RANDOMIZE with an integer-valued expression: GW-BASIC types it as an integer."""
    text, val = case['text'], case['v']
    with harness.Sess() as sess:
        s = S0
        for _ in range(case.get('draws', 0)):
            draw(sess)
            s = f(s)
        o = sess.execute(('RANDOMIZE ' + text).encode())
        if o.kind != 'ok' or o.errors:
            bad_outcome(res, o, text)
            return res
        v, o = draw(sess)
        if v is None:
            bad_outcome(res, o, text)
            return res
        as_int = f(randomize_next(s, randomize_n(mbf.int16_bytes(val))))
        as_sng = f(randomize_next(s, randomize_n(mbf.encode_value(Fraction(val), 4))))
        res.nt(True)
        if v == Fraction(as_int, M):
            res.label('intexpr-as-integer')
        elif v == Fraction(as_sng, M):
            # accepted: the statement only requires that the same argument reseeds identically;
            # -2 is the negation of 2 and evaluates to a Single here (the manual allows the
            # upgrade), so seeding as that Single is consistent (DESIGN.md 7.2)
            res.label('intexpr-as-single')
        else:
            res.fail('randomize.state', 'RANDOMIZE %s from state %d: next RND %s/2^24, expected %d'
                     % (text, s, v * M, as_int))
    return res


def check_anchor(case, res):
    """Directed: program text and the exact console output recorded from GW-BASIC."""
    with harness.Sess() as sess:
        o = sess.execute(case['prog'].encode('latin-1'))
        got = o.output.decode('latin-1')
        res.nt(True)
        if o.kind != 'ok' or got != case['out']:
            res.fail('anchor.%s' % case['name'], '%r printed %r, recorded GW-BASIC output %r' % (
                case['prog'], got, case['out']))
    return res


# ---------------------------------------------------------------------------------------------
# histories

def hist_model(ops):
    """-> list of per-op expectations computed by the reference model.
    Each entry: ('val', [acceptable states]) for an op that returns a value, or None."""
    s = S0
    last_drawn = None       # state whose value was last returned
    fresh_reseed = False    # no draw since RANDOMIZE/RUN/CLEAR
    out = []
    for op in ops:
        k = op['op']
        if k == 'rnd' or k == 'rndpos':
            s = f(s)
            out.append([s])
            last_drawn, fresh_reseed = s, False
        elif k == 'rnd0':
            acc = [s]
            if fresh_reseed and last_drawn is not None:
                acc.append(last_drawn)
            out.append(acc)
            # the value returned is "the last value" from now on in either reading
        elif k == 'rndneg':
            b = arg_text(op['arg'])[2]
            if len(b) == 4:
                m = mbf.parts(b)[1]
            else:
                v = mbf.decode(b)
                m = int(abs(v) / Fraction(2) ** (mbf.exponent_of(v) - 24))
            s = f(m)
            out.append([s])
            last_drawn, fresh_reseed = s, False
        elif k == 'randomize':
            b = arg_text(op['arg'])[2]
            s = randomize_next(s, randomize_n(b))
            out.append(None)
            fresh_reseed = True
        elif k in ('run', 'clear'):
            s = S0
            fresh_reseed = True
            if k == 'run':
                exp = []
                for _ in range(op['n']):
                    s = f(s)
                    exp.append(s)
                    last_drawn, fresh_reseed = s, False
                out.append(('run', exp))
            else:
                out.append(None)
        else:
            raise ValueError(k)
    return out


def hist_is_nt(ops):
    draws = 0
    armed = False
    for op in ops:
        k = op['op']
        if k in ('randomize', 'rndneg', 'clear') or (k == 'run' and op['n'] == 0):
            armed, draws = True, 0
        elif k == 'run':
            armed, draws = True, op['n']
        elif k in ('rnd', 'rndpos') and armed:
            draws += 1
        if armed and draws >= 2:
            return True
    return False


# every way of writing the value zero: literals of each type, negated zeros (the sign bit of a float
# zero is set by unary minus), unset variables, and "dirty" zeros - MBF values whose exponent byte
# is 0 are zero whatever the mantissa and sign bits hold
ZERO_TEXTS = ['0', '0', '0!', '0#', '0%', '-0', '-0!', '-0#', '-Z!', '-Z#', '-Z%', 'Z!', 'Z#',
              '-(0)', '0*-1', '-0*1#', '-CSNG(0)', '-CDBL(0)', '1-1', '-(1-1)']


def zero_expr(op):
    if op.get('zb'):
        b = bytes.fromhex(op['zb'])
        assert len(b) in (4, 8) and b[-1] == 0
        return '%s(%s)' % ('CVS' if len(b) == 4 else 'CVD', chr_expr(b))
    return op.get('z', '0')


def expr_of_op(op):
    k = op['op']
    if k == 'rnd':
        return 'RND', ''
    if k == 'rnd0':
        return 'RND(%s)' % zero_expr(op), ''
    if k == 'rndpos':
        return 'RND(%s)' % op['x'], ''
    if k == 'rndneg':
        e, pre, _ = arg_text(op['arg'])
        return 'RND(%s)' % e, pre
    raise ValueError(k)


def run_direct(ops, res):
    """Session A: every op as a direct-mode statement/evaluation. -> list of observed
    Fractions/None aligned with ops (for 'run': list of Fractions)."""
    obs = []
    with harness.Sess() as sess:
        for i, op in enumerate(ops):
            k = op['op']
            if k in ('rnd', 'rnd0', 'rndpos', 'rndneg'):
                expr, pre = expr_of_op(op)
                if pre:
                    o = sess.execute(pre.encode())
                    if o.kind != 'ok' or o.errors:
                        bad_outcome(res, o, pre)
                        return None
                fn = draw_mks if op.get('mks') else draw
                v, o = fn(sess, expr.encode())
                if v is None:
                    bad_outcome(res, o, expr)
                    return None
                obs.append(v)
            elif k == 'randomize':
                e, pre, _ = arg_text(op['arg'])
                stmt = (pre + ':' if pre else '') + 'RANDOMIZE ' + e
                o = sess.execute(stmt.encode())
                if o.kind != 'ok' or o.errors or o.output:
                    bad_outcome(res, o, stmt)
                    return None
                obs.append(None)
            elif k == 'clear':
                o = sess.execute(b'CLEAR')
                if o.kind != 'ok' or o.errors:
                    bad_outcome(res, o, 'CLEAR')
                    return None
                obs.append(None)
            elif k == 'run':
                n = op['n']
                prog = '10 DIM R(%d):FOR I=1 TO %d:R(I)=RND:NEXT\nRUN' % (n + 1, n)
                o = sess.execute(prog.encode())
                if o.kind != 'ok' or o.errors:
                    bad_outcome(res, o, prog)
                    return None
                vals = sess.get('R!()')
                obs.append([Fraction(x) for x in vals[1:n + 1]])
    return obs


def run_program(ops, res):
    """Session B: the whole history as one stored program writing seed numerators to a file.
    -> flat list of ints (one per value-returning op / per RUN draw)."""
    lines = []
    ln = [10]

    def emit(text):
        lines.append('%d %s' % (ln[0], text))
        ln[0] += 10
    emit('OPEN "A",1,"R.TXT"')
    for op in ops:
        k = op['op']
        if k in ('rnd', 'rnd0', 'rndpos', 'rndneg'):
            expr, pre = expr_of_op(op)
            emit((pre + ':' if pre else '') + 'PRINT#1,CDBL(%s)*16777216#' % expr)
        elif k == 'randomize':
            e, pre, _ = arg_text(op['arg'])
            emit((pre + ':' if pre else '') + 'RANDOMIZE ' + e)
        elif k == 'clear':
            emit('CLOSE:CLEAR')
            emit('OPEN "A",1,"R.TXT"')
        elif k == 'run':
            emit('RUN %d' % (ln[0] + 10))
            emit('OPEN "A",1,"R.TXT"')
            for _ in range(op['n']):
                emit('PRINT#1,CDBL(RND)*16777216#')
    emit('CLOSE')
    prog = '\n'.join(lines) + '\nRUN'
    with harness.Sess() as sess:
        o = sess.execute(prog.encode())
        if o.kind != 'ok' or o.errors or o.output:
            bad_outcome(res, o, prog)
            return None
        try:
            with open(os.path.join(sess.sandbox.z, 'R.TXT'), 'rb') as fh:
                data = fh.read()
        except OSError as e:
            res.fail('history.program-output', 'no output file: %s' % e)
            return None
    vals = []
    for tok in data.replace(b'\x1a', b'').split():
        try:
            vals.append(int(tok))
        except ValueError:
            res.fail('history.program-output', 'unparsable %r in %r' % (tok, data[:200]))
            return None
    return vals


def check_history(case, res):
    ops = case['ops']
    exp = hist_model(ops)
    res.nt(hist_is_nt(ops))
    kinds = set(op['op'] for op in ops)
    for k in sorted(kinds):
        res.label('has-' + k)
    obs = run_direct(ops, res)
    if obs is None:
        return res
    flatA = []
    ok = True
    for i, (op, e, v) in enumerate(zip(ops, exp, obs)):
        k = op['op']
        if e is None:
            continue
        if k == 'run':
            want = e[1]
            flatA.extend(v)
            if [x * M for x in v] != want:
                res.fail('run.restart', 'op %d RUN drawing %d: got %r expected %r' % (
                    i, op['n'], [str(x * M) for x in v], want))
                ok = False
                break
            continue
        flatA.append(v)
        if not (0 <= v < 1):
            res.fail('range', 'op %d %r returned %s' % (i, op, v))
        if v * M not in e:
            prev = [o['op'] for o in ops[:i]]
            last_reset = None
            for p in reversed(prev):
                if p in ('run', 'clear', 'randomize', 'rndneg'):
                    last_reset = p
                    break
            if k == 'rnd0':
                key = 'rnd0.value'
            elif k == 'rndneg':
                key = 'rndneg.value'
            elif last_reset == 'randomize':
                key = 'randomize.state'
            elif last_reset in ('run', 'clear'):
                key = '%s.restart' % last_reset
            elif last_reset == 'rndneg':
                key = 'rndneg.state'
            else:
                key = 'rnd.value'
            res.fail(key, 'op %d %r returned %s/2^24, reference %r (history %r)' % (
                i, op, v * M, e, prev))
            ok = False
            break
    if not ok:
        return res
    if case.get('two', True):
        valsB = run_program(ops, res)
        if valsB is None:
            return res
        a = [int(x * M) if (x * M).denominator == 1 else x * M for x in flatA]
        if a != valsB:
            res.fail('two-session.diverge', 'direct-mode session saw %r, stored-program session %r'
                     % (a, valsB))
    return res


# ---------------------------------------------------------------------------------------------

def check_case(case):
    res = Result()
    u = case['u']
    if u == 'sweep':
        return check_sweep(case, res)
    if u == 'reseed':
        return check_reseed(case, res)
    if u == 'intexpr':
        return check_intexpr(case, res)
    if u == 'anchor':
        return check_anchor(case, res)
    if u == 'hist':
        return check_history(case, res)
    if u == 'refperiod':
        return res
    raise ValueError(u)


# ---------------------------------------------------------------------------------------------
# generators

PRE_MANTISSAS = [0x800000, 0xffffff, 0xc00000, 0x9e3779, 0xabcdef, 0x800001, 0xd2f1a9, 0xfedcba]


def gen_randomize_int(shard, nshards, tier, seed):
    if tier == 'thorough':
        ns = range(-32768, 32768)
    else:
        ns = sorted(set(list(range(-32768, 32768, 17)) + list(range(-130, 131))
                        + [32767, 32766, -32767, 255, 256, 257, -255, -256, -257, 16384, -16384]))
    for i, n in enumerate(ns):
        if i % nshards != shard:
            continue
        yield {'u': 'reseed', 'kind': 'randomize', 'pre': PRE_MANTISSAS[(n * 7 + i) % 8],
               'draws': (n + i) % 3, 'arg': {'t': 'int', 'v': n, 'form': 'var' if n % 2 else 'lit'}}


def gen_rndneg_classes(shard, nshards, tier, seed):
    """RND(-x) over mantissa classes x exponent classes (singles), negative ints, literals."""
    cases = []
    mans = [0x800000, 0x800001, 0xffffff, 0xfffffe, 0xc00000, 0xaaaaaa, 0xd55555, 0x800100,
            0x80ff00, 0xff00ff, 0x8000ff, 0x900000]
    for k in range(24):
        mans.append(0x800000 | (1 << k))
        mans.append(0xffffff ^ (1 << k) if k != 23 else 0xffffff)
    exps = [1, 2, 64, 127, 128, 129, 130, 144, 152, 153, 200, 254, 255]
    for m in sorted(set(mans)):
        for e in exps:
            cases.append({'t': 'bytes', 'hex': neg_single_bytes(m, e).hex(),
                          'form': 'var' if (m + e) % 2 else 'cvs'})
    ints = list(range(-1, -70, -1)) + [-255, -256, -257, -1000, -32767, -32768, -16384, -12345]
    for n in ints:
        cases.append({'t': 'int', 'v': n, 'form': 'var'})
    if tier == 'thorough':
        for n in range(-32768, 0, 7):
            cases.append({'t': 'int', 'v': n, 'form': 'var'})
    for i, arg in enumerate(cases):
        if i % nshards == shard:
            yield {'u': 'reseed', 'kind': 'rndneg', 'pre': PRE_MANTISSAS[i % 8], 'draws': i % 3,
                   'arg': arg}


def st_single_bytes(negative=None):
    man = st.one_of(st.integers(0x800000, 0xffffff),
                    st.sampled_from([0x800000, 0xffffff, 0x800001, 0xc00000, 0x8000ff, 0xff0000,
                                     0x80ff00, 0xffff00]))
    e = st.one_of(st.integers(1, 255), st.sampled_from([128, 129, 127, 144, 152, 1, 255]))
    sign = st.integers(0, 1) if negative is None else st.just(1 if negative else 0)
    return st.builds(lambda s, m, x: mbf.encode_parts(s, m, x, 4).hex(), sign, man, e)


def st_double_bytes(negative=None, exact_single=None, max_e=255):
    top = st.integers(1 << 55, (1 << 56) - 1)
    lowzero = st.integers(0x800000, 0xffffff).map(lambda m: m << 32)
    pat = st.builds(lambda hi, lo: ((0x800000 | hi) << 32) | lo, st.integers(0, 0x7fffff),
                    st.sampled_from([0, 1, 0x7fffffff, 0x80000000, 0x80000001, 0xffffffff,
                                     0xffff0000, 0x0000ffff]))
    if exact_single is True:
        man = lowzero
    elif exact_single is False:
        man = st.one_of(top, pat)
    else:
        man = st.one_of(top, lowzero, pat)
    e = st.one_of(st.integers(1, max_e), st.sampled_from([128, 129, 127, 144, 152, 1, max_e]))
    sign = st.integers(0, 1) if negative is None else st.just(1 if negative else 0)
    return st.builds(lambda s, m, x: mbf.encode_parts(s, m, x, 8).hex(), sign, man, e)


def st_dirty_zero():
    """MBF single/double with exponent byte 0 and arbitrary mantissa/sign bits."""
    byte = st.one_of(st.integers(0, 255), st.sampled_from([0, 0x80, 0xff, 0x7f, 1]))
    return st.one_of(
        st.builds(lambda a, b, c: bytes([a, b, c, 0]).hex(), byte, byte, byte),
        st.builds(lambda bs: (bytes(bs) + b'\0').hex(), st.lists(byte, min_size=7, max_size=7)),
    )


def gen_zero_encodings(shard, nshards, tier, seed):
    cases = []
    for z in sorted(set(ZERO_TEXTS)):
        cases.append({'z': z})
    vals = [0x00, 0x01, 0x7f, 0x80, 0xff]
    for a in vals:
        for b in vals:
            for c in vals:
                cases.append({'zb': bytes([a, b, c, 0]).hex()})
    for top in (0x00, 0x01, 0x7f, 0x80, 0x81, 0xff):
        for fill in (0x00, 0xff, 0x5a):
            for low in (0x00, 0xff):
                cases.append({'zb': bytes([low, fill, fill, fill, fill, fill, top, 0]).hex()})
    for i, c in enumerate(cases):
        if i % nshards == shard:
            for j in range(2):
                yield dict(c, u='reseed', kind='rndzero', pre=PRE_MANTISSAS[(i + 3 * j) % 8],
                           draws=(i + j) % 3)


def st_randomize_arg():
    int16 = st.one_of(st.integers(-32768, 32767),
                      st.sampled_from([0, 1, -1, 255, 256, -256, 32767, -32768, 128, -128]))
    form = st.sampled_from(['lit', 'var'])
    return st.one_of(
        st.builds(lambda v, fm: {'t': 'int', 'v': v, 'form': fm}, int16, form),
        st.builds(lambda h, fm: {'t': 'bytes', 'hex': h, 'form': fm}, st_single_bytes(),
                  st.sampled_from(['cvs', 'var'])),
        st.builds(lambda h, fm: {'t': 'bytes', 'hex': h, 'form': fm}, st_double_bytes(),
                  st.sampled_from(['cvd', 'var'])),
        st.just({'t': 'bytes', 'hex': '00000000', 'form': 'cvs'}),
        st.just({'t': 'bytes', 'hex': '0000000000000000', 'form': 'cvd'}),
        st.builds(lambda t: {'t': 'lit', 'text': t}, st.sampled_from(LITERALS)),
    )


def st_rndneg_arg(doubles='exact'):
    alts = [
        st.builds(lambda h, fm: {'t': 'bytes', 'hex': h, 'form': fm}, st_single_bytes(True),
                  st.sampled_from(['cvs', 'var'])),
        st.builds(lambda v: {'t': 'int', 'v': v, 'form': 'var'}, st.integers(-32768, -1)),
        st.builds(lambda h: {'t': 'bytes', 'hex': h, 'form': 'cvd'},
                  st_double_bytes(True, exact_single=True)),
    ]
    if doubles == 'any':
        alts.append(st.builds(lambda h: {'t': 'bytes', 'hex': h, 'form': 'cvd'},
                              # exponent 255 excluded: rounding to single may overflow there
                              st_double_bytes(True, exact_single=False, max_e=254)))
    return st.one_of(*alts)


def strat_reseed():
    pre = st.one_of(st.sampled_from(PRE_MANTISSAS), st.integers(0x800000, 0xffffff))
    return st.one_of(
        st.builds(lambda p, d, a: {'u': 'reseed', 'kind': 'randomize', 'pre': p, 'draws': d,
                                   'arg': a}, pre, st.integers(0, 3), st_randomize_arg()),
        st.builds(lambda p, d, a: {'u': 'reseed', 'kind': 'rndneg', 'pre': p, 'draws': d,
                                   'arg': a}, pre, st.integers(0, 3), st_rndneg_arg('any')),
        st.builds(lambda p, d, zb: {'u': 'reseed', 'kind': 'rndzero', 'pre': p, 'draws': d,
                                    'zb': zb}, pre, st.integers(0, 3), st_dirty_zero()),
    )


POSITIVES = ['1', '.5', '2', '1E30', '7%', '1#', '.0001', '32767', '1E-38', '255.5#']


def strat_history():
    op = st.one_of(
        st.builds(lambda mk: {'op': 'rnd', 'mks': mk}, st.booleans()),
        st.builds(lambda mk: {'op': 'rnd', 'mks': mk}, st.booleans()),
        st.builds(lambda z, mk: {'op': 'rnd0', 'z': z, 'mks': mk},
                  st.sampled_from(ZERO_TEXTS), st.booleans()),
        st.builds(lambda zb, mk: {'op': 'rnd0', 'zb': zb, 'mks': mk}, st_dirty_zero(),
                  st.booleans()),
        st.builds(lambda x: {'op': 'rndpos', 'x': x}, st.sampled_from(POSITIVES)),
        st.builds(lambda a: {'op': 'rndneg', 'arg': a}, st_rndneg_arg('exact')),
        st.builds(lambda a: {'op': 'randomize', 'arg': a}, st_randomize_arg()),
        st.builds(lambda n: {'op': 'run', 'n': n}, st.integers(0, 4)),
        st.just({'op': 'clear'}),
    )
    return st.builds(lambda ops: {'u': 'hist', 'ops': ops}, st.lists(op, min_size=1, max_size=14))


INTEXPRS = [('-2', -2), ('1+1', 2), ('3*2', 6), ('7-9', -2), ('-32767', -32767), ('-1', -1),
            ('100+28', 128), ('-(5)', -5), ('2*-3', -6), ('0-0', 0), ('16*16', 256)]


def gen_intexpr(shard, nshards, tier, seed):
    i = 0
    for text, v in INTEXPRS:
        for d in (0, 1, 2):
            if i % nshards == shard:
                yield {'u': 'intexpr', 'text': text, 'v': v, 'draws': d}
            i += 1


def units(tier):
    # few shards in the quick tier: a forked worker costs 1-2 CPU-s before it does anything
    return [
        Unit('sweep', 'bulk', shards={'quick': 8, 'thorough': 16}, run=run_sweep,
             exhaustive=(tier == 'thorough'), per_case_timeout=600.0),
        Unit('randomize-int16', 'enum', shards={'quick': 4, 'thorough': 16}, gen=gen_randomize_int,
             exhaustive=(tier == 'thorough')),
        Unit('rndneg-classes', 'enum', shards={'quick': 2, 'thorough': 4}, gen=gen_rndneg_classes),
        Unit('reseed-sampled', 'hyp', shards={'quick': 4, 'thorough': 16},
             examples={'quick': _scale(600), 'thorough': 20000}, strategy=strat_reseed),
        Unit('history', 'hyp', shards={'quick': 8, 'thorough': 16},
             examples={'quick': _scale(160), 'thorough': 8000}, strategy=strat_history),
        Unit('zero-encodings', 'enum', shards=1, gen=gen_zero_encodings, exhaustive=True),
        Unit('intexpr', 'enum', shards=1, gen=gen_intexpr),
    ]


# recorded outputs: tests/basic/unsorted/RANDOMIZ (lines 40-110 without the string case) and the
# well-known first values of GW-BASIC's generator
_ANCHOR_PROG = ('10 A%=1: RANDOMIZE A%: PRINT RND\n20 A%=-2: RANDOMIZE A%: PRINT RND\n'
                '30 A!=1: RANDOMIZE A!: PRINT RND\n40 A#=1: RANDOMIZE A#: PRINT RND\n'
                '45 PRINT RND\n50 A!=255: RANDOMIZE A!: PRINT RND\n60 A!=-32768: RANDOMIZE A!: PRINT RND\n'
                '70 A!=65536: RANDOMIZE A!: PRINT RND\nRUN')
_ANCHOR_OUT = (' .4098261 \r\n 5.028856E-02 \r\n .13484 \r\n .545263 \r\n .5068925 \r\n'
               ' 6.162107E-03 \r\n .2165228 \r\n .1258361 \r\n')

REGRESSIONS = [
    {'u': 'anchor', 'name': 'first-values', 'prog': 'PRINT RND;RND;RND;RND;RND',
     'out': ' .1213501  .651861  .8688611  .7297625  .798853 \r\n'},
    {'u': 'anchor', 'name': 'randomize-corpus', 'prog': _ANCHOR_PROG, 'out': _ANCHOR_OUT},
    {'u': 'sweep', 'start': 0, 'len': 64},
    {'u': 'hist', 'ops': [{'op': 'rnd0'}, {'op': 'rnd'}, {'op': 'rnd0', 'mks': True},
                          {'op': 'randomize', 'arg': {'t': 'int', 'v': 1, 'form': 'lit'}},
                          {'op': 'rnd0'}, {'op': 'rnd'}, {'op': 'rnd'}, {'op': 'clear'},
                          {'op': 'rnd'}, {'op': 'run', 'n': 3}, {'op': 'rnd', 'mks': True}]},
    # seeded change: sign test before zero test - a zero with the sign bit set must still repeat
    {'u': 'reseed', 'kind': 'rndzero', 'pre': 0xc00000, 'draws': 1, 'z': '-Z!'},
    {'u': 'reseed', 'kind': 'rndzero', 'pre': 0xc00000, 'draws': 0, 'zb': 'ffffff00'},
    # integer-valued expression typed as Single: either seeding accepted (DESIGN.md 7.2)
    {'u': 'intexpr', 'text': '-2', 'v': -2, 'draws': 0},
]

KILLS = [
    "randomiser.py _multiplier 214013 -> 214017  -> sweep.value (draw #1), rndneg.value",
    "randomiser.py _increment 2531011 -> 2531013 -> sweep.value (draw #1), rndneg.value",
    "rnd_: divide by _period - 1 instead of _period -> sweep.value (1 ulp off at draw #1), rndneg.value",
    "rnd_: RND(0) cycles the generator -> rnd0.value (history); sweep alone survives, as expected",
    "clear(): keeps the old seed -> clear.restart, run.restart, rnd0.value (history)",
    "reseed: drop `_seed &= 0xff` -> randomize.state (randomize-int16, all 4111 cases)",
    "reseed: _step 4455680 -> 4455936 -> randomize.state (randomize-int16)",
    "rnd_: seed = +mantissa instead of -mantissa (negative seed) -> rndneg.value (rndneg-classes; "
    "mantissa 0x800000 is a fixed point of the mutation, every other class fails)",
    "reseed: XOR mask only for doubles (`len(s) >= 8`) -> randomize.state (reseed-sampled, singles); "
    "randomize-int16 survives, as expected",
    "reseed: mask taken from s[-5:-3] -> escaped.IndexError@randomiser.py:reseed (singles) and "
    "randomize.state (doubles)",
    "rnd_: is_negative() tested before is_zero() (a zero with the sign bit set reseeds) -> "
    "rnd0.value in zero-encodings, history and reseed-sampled (survived before negated / dirty zero "
    "arguments were generated)",
    "(hyp units were run at VERIF_SCALE=0.06, i.e. 15 / 7 examples per shard, and still killed)",
]
