"""
C03 - numeric conversions and binary encodings are exact and consistent.

Reference: vlib/mbf.py decodes operand and result bytes to exact Fractions (check_case); the bulk
loops use the equivalent exact integer ("dyadic") arithmetic of vlib/mbfnum.py and re-judge a
sample of their cases through check_case, so the two reference implementations cross-check.

Routes: 'api' (pcbasic.basic.values functions on value objects built with values.from_bytes),
'eval' (Session.evaluate of e.g. MKS$(FIX(CVS(A$))) with the operand bytes in A$), 'prog'
(a stored program line under ON ERROR GOTO doing the conversion by assignment or function).
"""
import math
import random
from fractions import Fraction

from hypothesis import strategies as st

from vlib.core import Result, Unit
from vlib import mbf
from vlib import mbfnum as M

ID = 'C03'
LEVEL = 'exploration'
RULE = ("All 65536 integers (MKI$/CVI, HEX$/OCT$ re-read with &H/&O, CINT/FIX/INT of the integral "
        "single and double) through Session.evaluate; single and double bit patterns from a class "
        "mix (uniform random; per exponent byte in {0,1,0x7F..0x99,0xB0..0xBA,0xFE,0xFF} significands "
        "built around the binary point with fraction 0/1/half-1/half/half+1/all-ones; values next to "
        "the int16 ends; extreme exponents; dirty zeros; doubles whose low 32 bits sit at the "
        "single rounding midpoint) for CINT/FIX/INT/CDBL/CSNG through the values API, and a "
        "Hypothesis sample of the same plus MKx$(CVx(s)) through evaluate and a stored program; an "
        "enumerated boundary set for MKx$(CVx(s))=s (exponent byte in {0,1,2,7F,80,81,FE,FF} x all "
        "combinations of {00,01,7F,80,81,FE,FF} in the single mantissa bytes / assorted double "
        "mantissas) through evaluate, variable assignment + PEEK, and FIELD/LSET; "
        "thorough adds all 2^24 single patterns at 6 exponents. Non-trivial: the value has a "
        "fractional part, or |x| >= 32767 (range rule in play), or (double->single) the dropped "
        "32 bits are non-zero; distinct = distinct (function, bit pattern).")
ASSUMPTIONS = [
    "CINT of x with round(x) in range but x itself outside [-32768, 32767] (e.g. 32767.3): the "
    "rounded integer or Overflow are both accepted (statement wording vs. GW-BASIC)",
    "MKx$(CVx(s)) = s byte for byte is demanded for EVERY 2/4/8-byte s including the non-canonical "
    "zeroes (exponent byte 0 with anything in mantissa/sign), on the direct paths the statement "
    "covers: CVx->MKx$, assignment to a variable (MKx$ of it and PEEK at VARPTR), a FIELD/LSET "
    "record buffer, and values.from_bytes/clone at API level; results of arithmetic or of other "
    "conversions (CDBL/CSNG/FIX/INT) of a zero encoding are compared by value only",
    "double->single beyond the largest single: Overflow (raise) or 'Overflow' message + signed "
    "maximum (soft) is required when the nearer neighbour would be 2^127; within 1/256 ulp of the "
    "midpoint either is accepted",
    "'stored binary form' is observed independently of MKx$ by PEEKing the variable at VARPTR in the "
    "stored-program route",
    "HEX$/OCT$ digits are read back with Python int(s, 16/8) as well as with BASIC &H/&O",
    "strings longer than 2/4/8 bytes for CVx are outside the statement and not generated",
    "thorough tier enumerates 2^24 mantissas only at exponents 0x80,0x81,0x8F,0x90,0x97,0x98",
]
TECHNIQUE = ("exhaustive enumeration of int16; bulk enumeration/sampling of MBF bit patterns against an "
             "exact rational reference; Hypothesis sample through the parser")

INT_MIN, INT_MAX = -32768, 32767


def round_half_away(x):
    f = math.floor(abs(x) + Fraction(1, 2))
    return f if x >= 0 else -f


def trunc(x):
    return math.floor(x) if x >= 0 else -math.floor(-x)


# ---------------------------------------------------------------------------------------------
# reference (Fractions)

def expected(f, b):
    """
    -> (kind, payload):  ('int', {acceptable ints or 'ovf'}) for CINT
                         ('val', {acceptable Fractions or 'ovf'}, result size) otherwise
    """
    n = len(b)
    x = mbf.decode(b)
    if f == 'CINT':
        r = round_half_away(x)
        if INT_MIN <= r <= INT_MAX:
            acc = {r}
            if not INT_MIN <= x <= INT_MAX:
                acc.add('ovf')
            return 'int', acc, 2
        return 'int', {'ovf'}, 2
    if f == 'FIX':
        return 'val', {Fraction(trunc(x))}, n
    if f == 'INT':
        return 'val', {Fraction(math.floor(x))}, n
    if f == 'CDBL':
        return 'val', {x}, 8
    if f == 'CSNG':
        if n <= 4:
            return 'val', {x}, 4
        lo, hi = mbf.floor_ceil(x, 4)
        if lo == hi:
            acc = {lo}
        else:
            u = hi - lo
            d = x - (lo + hi) / 2
            if abs(d) < u / 256:
                acc = {lo, hi}
            else:
                acc = {hi} if d > 0 else {lo}
        return 'val', {('ovf' if abs(v) > mbf.MAXVAL[4] else v) for v in acc}, 4
    if f == 'MK':
        return 'val', {x}, n
    raise ValueError(f)


API_FN = {'CINT': 'cint_', 'FIX': 'fix_', 'INT': 'int_', 'CDBL': 'cdbl_', 'CSNG': 'csng_'}
CV = {2: b'CVI', 4: b'CVS', 8: b'CVD'}
MK = {2: b'MKI$', 4: b'MKS$', 8: b'MKD$'}
SIGIL = {2: b'%', 4: b'!', 8: b'#'}


_LAST = {}


def observe(f, b, route):
    """-> ('ok', result bytes) | ('err', code) | ('escaped', key) | ('budget',) ; soft flag."""
    n = len(b)
    if route == 'api':
        if f == 'MK':
            # values.from_bytes is what CVx builds its result with; clone() what assignment uses
            return M.call1(lambda v: v.clone(), b, wrap=False), None
        return M.call1(getattr(M.api().V, API_FN[f]), b), None
    rn = {'CINT': 2, 'CDBL': 8, 'CSNG': 4}.get(f, n)
    if f == 'MK':
        inner = CV[n] + b'(A$)'
    else:
        inner = f.encode() + b'(' + CV[n] + b'(A$))'
    if route == 'eval':
        s = M.sess('eval')
        s.set('A$', b)
        o = s.evaluate(MK[rn] + b'(' + inner + b')')
        if o.kind != 'ok':
            return (('budget',) if o.kind == 'budget' else ('escaped', o.key())), None
        if o.errors:
            s.execute(b'CLS')
            if o.value is not None:
                # soft float error: message printed, value delivered
                return ('ok', bytes(o.value)), o.errors[0][0]
            return ('err', o.errors[0][0]), None
        return ('ok', bytes(o.value)), None
    if route in ('prog', 'field'):
        s = M.sess('prog')
        # conversion by assignment to a typed variable where BASIC offers it
        if f in ('CINT', 'CSNG', 'CDBL'):
            line = b'20 R' + SIGIL[rn] + b'=' + CV[n] + b'(A$):C$=' + MK[rn] + b'(R' + SIGIL[rn] + b')'
        elif f == 'MK':
            # store in a variable, read MKx$ of it and the variable's bytes in memory;
            # route 'field': the string comes out of a random-access record buffer (FIELD/LSET)
            v = b'X' + SIGIL[n]
            pre, src, post = b'', inner, b''
            if route == 'field':
                pre = (b'CLOSE:OPEN "R",1,"F.DAT",' + str(n).encode() + b':FIELD 1,' + str(n).encode()
                       + b' AS F$:LSET F$=A$:')
                src = CV[n] + b'(F$)'
                post = b':CLOSE'
            line = (b'20 ' + pre + v + b'=' + src + b':C$=' + MK[n] + b'(' + v + b'):P$="":FOR I%=0 TO '
                    + str(n - 1).encode() + b':P$=P$+CHR$(PEEK(VARPTR(' + v + b')+I%)):NEXT' + post)
        else:
            line = b'20 C$=' + MK[rn] + b'(' + inner + b')'
        o = s.execute(b'10 ON ERROR GOTO 90\n' + line + b':E%=0:END\n90 E%=ERR:RESUME 99\n99 END\n')
        if o.kind == 'ok' and not o.errors:
            s.set('A$', b)
            o = s.execute(b'GOTO 10')
        if o.kind != 'ok':
            return (('budget',) if o.kind == 'budget' else ('escaped', o.key())), None
        if o.errors:
            return ('err-untrapped', o.errors[0][0]), None
        e = s.get('E%')
        if e:
            return ('err', e), None
        _LAST['peek'] = bytes(s.get('P$')) if f == 'MK' else None
        return ('ok', bytes(s.get('C$'))), None
    raise ValueError(route)


def judge_conv(res, f, b, route):
    n = len(b)
    kind, acc, rn = expected(f, b)
    obs, soft = observe(f, b, route)
    x = mbf.decode(b)
    where = '%s(%s:%s)[%s]' % (f, M.TNAME[n], M.hx(b), route)
    # non-trivial rule
    frac = x.denominator != 1
    if f == 'CSNG':
        res.nt(n == 8 and b[:4] != b'\0\0\0\0')
    elif f in ('MK', 'CDBL'):
        res.nt(True)
    else:
        res.nt(frac or abs(x) >= INT_MAX)
    res.label('%s.%s.%s' % (f, M.TNAME[n], route))
    if b[-1] == 0 and n > 2:
        res.label('zero-encoding')
    if frac and (abs(x) * 2).denominator == 1:
        res.label('exact-half')
    if obs[0] == 'budget':
        res.inconclusive = True
        return
    if obs[0] == 'escaped':
        res.fail(obs[1] if obs[1].startswith('escaped.') else 'escaped.' + obs[1], where)
        return
    key = '%s.%s' % (f.lower(), M.TNAME[n])
    if obs[0] == 'err-untrapped':
        res.fail(key + '.untrapped', '%s: error %d escaped ON ERROR' % (where, obs[1]))
        return
    if obs[0] == 'err':
        res.label('overflow-raised')
        if obs[1] != 6 or 'ovf' not in acc:
            res.fail(key + '.spurious-error', '%s: error %d, expected %s' % (where, obs[1], show(acc)))
        return
    rb = obs[1]
    if soft is not None:
        # soft overflow: message plus signed maximum of the result type
        res.label('overflow-soft')
        smax = (b'\xff\xff\xff\xff' if x < 0 else b'\xff\xff\x7f\xff')
        if soft != 6 or 'ovf' not in acc or rb != smax:
            res.fail(key + '.soft-overflow', '%s: message %d value %s, expected %s' % (
                where, soft, M.hx(rb), show(acc)))
        return
    if len(rb) != rn:
        res.fail(key + '.type', '%s: result %s has %d bytes, expected %d' % (where, M.hx(rb), len(rb), rn))
        return
    rv = mbf.decode(rb)
    vals = set(v for v in acc if v != 'ovf')
    if rv not in vals:
        if 'ovf' in acc and not vals:
            res.fail(key + '.overflow-missing', '%s -> %s (%s), expected Overflow' % (
                where, M.hx(rb), float(rv)))
        else:
            res.fail(key + '.value', '%s -> %s (%r), expected %s' % (where, M.hx(rb), float(rv), show(acc)))
        return
    # bytes: a non-zero value has exactly one encoding; zeros must be value 0 only
    if rn > 2 and rv != 0 and rb != mbf.encode_value(rv, rn):
        res.fail(key + '.encoding', '%s -> %s is not the normalised encoding' % (where, M.hx(rb)))
    if f == 'MK':
        # CVx of ANY string gives a value whose encoding is those bytes - also for the
        # non-canonical zeroes (exponent byte 0, anything in the mantissa/sign)
        if n > 2 and b[-1] == 0 and b != bytes(n):
            res.label('mk.noncanonical-zero')
        elif n > 2 and b[:-1] == bytes(n - 1):
            res.label('mk.zero-mantissa')
        elif b == b'\xff' * n:
            res.label('mk.all-ff')
        if route in ('prog', 'field'):
            res.label('stored-form-peeked')
            peek = _LAST.get('peek')
            if peek != rb or peek != b:
                res.fail(key + '.stored-form', '%s: MKx$ -> %s, the variable holds %s, expected %s' % (
                    where, M.hx(rb), M.hx(peek or b''), M.hx(b)))
        if rb != b:
            res.fail(key + '.bytes', '%s -> %s, expected the same bytes' % (where, M.hx(rb)))


def show(acc):
    return '{%s}' % ', '.join(sorted('Overflow' if v == 'ovf' else repr(float(v)) for v in acc))


def ev_obs(o):
    if o.kind == 'budget':
        return ('budget',)
    if o.kind != 'ok':
        return ('escaped', o.key())
    if o.errors:
        return ('err', o.errors[0][0])
    return ('ok', o.value)


def judge_int(res, v):
    """All integer claims for one int16 v, through Session.evaluate."""
    s = M.sess('eval')
    b2 = mbf.int16_bytes(v)
    res.nt(True)
    s.set('N%', v)
    s.set('A$', b2)

    def chk(key, expr, want):
        o = ev_obs(s.evaluate(expr))
        if o[0] == 'budget':
            res.inconclusive = True
        elif o[0] == 'escaped':
            res.fail('escaped.' + o[1], '%d: %s' % (v, expr))
        elif o != ('ok', want):
            if o[0] == 'err':
                s.execute(b'CLS')
            res.fail(key, 'n=%d: %s -> %r expected %r' % (v, expr.decode(), o, want))
        return o
    chk('int.mki', b'MKI$(N%)', b2)
    chk('int.cvi', b'CVI(A$)', v)
    chk('int.mki-cvi', b'MKI$(CVI(A$))', b2)
    o = ev_obs(s.evaluate(b'HEX$(N%)'))
    if o[0] != 'ok' or not isinstance(o[1], bytes) or not o[1] or not all(
            c in b'0123456789ABCDEFabcdef' for c in o[1]) or int(o[1], 16) != (v & 0xffff):
        res.fail('int.hex-digits', 'HEX$(%d) -> %r' % (v, o))
    o = ev_obs(s.evaluate(b'OCT$(N%)'))
    if o[0] != 'ok' or not isinstance(o[1], bytes) or not o[1] or not all(
            c in b'01234567' for c in o[1]) or int(o[1], 8) != (v & 0xffff):
        res.fail('int.oct-digits', 'OCT$(%d) -> %r' % (v, o))
    chk('int.hex-roundtrip', b'VAL("&H"+HEX$(N%))', v)
    chk('int.oct-roundtrip', b'VAL("&O"+OCT$(N%))', v)
    chk('int.hex-literal', b'&H%X' % (v & 0xffff), v)
    chk('int.oct-literal', b'&O%o' % (v & 0xffff), v)
    # CINT/FIX/INT of the integral single and double
    for n in (4, 8):
        fb = M.enc_int_value(v, n)
        assert mbf.decode(fb) == v
        s.set('A$', fb)
        chk('int.cint-integral.' + M.TNAME[n], b'CINT(' + CV[n] + b'(A$))', v)
        chk('int.fix-integral.' + M.TNAME[n], MK[n] + b'(FIX(' + CV[n] + b'(A$)))', fb)
        chk('int.int-integral.' + M.TNAME[n], MK[n] + b'(INT(' + CV[n] + b'(A$)))', fb)


def check_case(case):
    res = Result()
    u = case['u']
    if u == 'int':
        judge_int(res, case['n'])
    elif u == 'conv':
        judge_conv(res, case['f'], M.unlat(case['b']), case['route'])
    else:
        raise ValueError(u)
    return res


# ---------------------------------------------------------------------------------------------
# bulk loops (exact integer reference)

def _csng_expect(d):
    """d dyadic of a non-zero double -> list of acceptable dyadics or 'ovf'."""
    m, k = d
    am = abs(m)
    lo = am >> 32
    rem = am & 0xffffffff
    sg = -1 if m < 0 else 1
    if rem == 0:
        cands = [lo]
    else:
        dist = rem - 0x80000000
        if abs(dist) < (1 << 24):
            cands = [lo, lo + 1]
        else:
            cands = [lo + 1] if dist > 0 else [lo]
    out = []
    for c in cands:
        v = (c, k + 32)
        out.append('ovf' if M.dcmp(v, M.TWO127) >= 0 else (sg * c, k + 32))
    return out


def bulk_conv(patterns, n, ev, recheck_every=997, distinct=False):
    """patterns: iterable of (bytes, label). Checks CINT, FIX, INT, CDBL/CSNG through the API."""
    A = M.api()
    V, mk, BErr = A.V, A.mk, A.BASICError
    fns = [('CINT', V.cint_), ('FIX', V.fix_), ('INT', V.int_),
           ('CDBL', V.cdbl_) if n == 4 else ('CSNG', V.csng_),
           ('MK', lambda args: args[0].clone())]
    seen = set()
    labels = {}
    cnt = nt = 0
    tname = M.TNAME[n]
    for i, (b, lab) in enumerate(patterns):
      if (i & 1023) == 0:
          M.arm(180.0)
      try:
            d = M.dy(b)
            t, frac = M.dint(d)
            fl = t - 1 if (frac and d[0] < 0) else t
            rnd = M.dround_half_away(d)
            xin = M.dcmp(d, (INT_MIN, 0)) >= 0 and M.dcmp(d, (INT_MAX, 0)) <= 0
            if distinct:
                new = True
            else:
                new = b not in seen
                if new and len(seen) < 2000000:
                    seen.add(b)
                else:
                    new = False
            labels[lab] = labels.get(lab, 0) + 1
            if frac:
                labels['has-fraction'] = labels.get('has-fraction', 0) + 1
                if d[1] < 0 and (abs(d[0]) & ((1 << -d[1]) - 1)) == (1 << (-d[1] - 1)):
                    labels['exact-half'] = labels.get('exact-half', 0) + 1
            big = not (INT_MIN < t < INT_MAX)
            for f, fn in fns:
                cnt += 1
                try:
                    r = fn([mk(b)])
                    obs = bytes(r.to_bytes())
                    err = None
                except BErr as e:
                    obs, err = None, e.err
                except Exception as e:       # noqa: B902
                    ev.fail(M.frame_key(e), {'u': 'conv', 'f': f, 'b': M.lat(b), 'route': 'api'},
                            '%s(%s)' % (f, M.hx(b)))
                    continue
                bad = None
                if f == 'CINT':
                    if new and (frac or big):
                        nt += 1
                    if INT_MIN <= rnd <= INT_MAX:
                        if err is None:
                            if obs != (rnd & 0xffff).to_bytes(2, 'little'):
                                bad = 'value'
                        elif err != 6 or xin:
                            bad = 'spurious-error'
                        else:
                            labels['cint-sliver-overflow'] = labels.get('cint-sliver-overflow', 0) + 1
                    else:
                        labels['cint-overflow'] = labels.get('cint-overflow', 0) + 1
                        if err is None:
                            bad = 'overflow-missing'
                        elif err != 6:
                            bad = 'spurious-error'
                elif f in ('FIX', 'INT'):
                    if new and (frac or big):
                        nt += 1
                    want = t if f == 'FIX' else fl
                    if err is not None:
                        bad = 'spurious-error'
                    elif len(obs) != n:
                        bad = 'type'
                    elif M.dcmp(M.dy(obs), (want, 0)) != 0:
                        bad = 'value'
                    elif want != 0 and obs != M.enc_int_value(want, n):
                        bad = 'encoding'
                elif f == 'MK':
                    if new:
                        nt += 1
                    if b[-1] == 0 and b != bytes(n):
                        labels['mk.noncanonical-zero'] = labels.get('mk.noncanonical-zero', 0) + 1
                    if err is not None:
                        bad = 'spurious-error'
                    elif obs != b:
                        bad = 'bytes'
                elif f == 'CDBL':
                    if new:
                        nt += 1
                    if err is not None:
                        bad = 'spurious-error'
                    elif len(obs) != 8:
                        bad = 'type'
                    elif M.dcmp(M.dy(obs), d) != 0:
                        bad = 'value'
                    elif d[0] != 0 and obs != M.promote_bytes(b, 8):
                        bad = 'encoding'
                else:   # CSNG of a double
                    if new and b[:4] != b'\0\0\0\0':
                        nt += 1
                    if d[0] == 0:
                        acc = [(0, 0)]
                    else:
                        acc = _csng_expect(d)
                    if len(acc) > 1:
                        labels['csng-near-midpoint'] = labels.get('csng-near-midpoint', 0) + 1
                    if err is not None:
                        labels['csng-overflow'] = labels.get('csng-overflow', 0) + 1
                        if err != 6 or 'ovf' not in acc:
                            bad = 'spurious-error'
                    elif len(obs) != 4:
                        bad = 'type'
                    else:
                        do = M.dy(obs)
                        if not any(a != 'ovf' and M.dcmp(do, a) == 0 for a in acc):
                            bad = 'overflow-missing' if acc == ['ovf'] else 'value'
                case = None
                if bad:
                    case = {'u': 'conv', 'f': f, 'b': M.lat(b), 'route': 'api'}
                    ev.fail('%s.%s.%s' % (f.lower(), tname, bad), case,
                            '%s(%s:%s) -> %s err=%r' % (f, tname, M.hx(b), obs and M.hx(obs), err))
                if (i % recheck_every) == 0:
                    # cross-check of the two reference implementations
                    case = case or {'u': 'conv', 'f': f, 'b': M.lat(b), 'route': 'api'}
                    slow = check_case(case)
                    if bool(slow.fails) != bool(bad):
                        ev.harness_errors.append('reference models disagree on %r: fast=%r slow=%r' % (
                            case, bad, slow.fails))
                    if len(ev.nt_samples) < 2 and (frac or big):
                        ev.sample(case)
      except M.Hang:
          ev.inconclusive += 1
          labels['wall-limit'] = labels.get('wall-limit', 0) + 1
          M.arm(180.0)
    M.disarm()
    ev.count(cnt, nontrivial=nt)
    for k, v in labels.items():
        ev.labels[k + '.' + tname] += v


def run_single(shard, nshards, tier, seed, ev):
    rng = random.Random(seed)
    n = 40000 if tier == 'quick' else 600000

    def pats():
        for _ in range(n):
            yield M.gen_float(rng, 4)
    bulk_conv(pats(), 4, ev)


def run_double(shard, nshards, tier, seed, ev):
    rng = random.Random(seed)
    n = 30000 if tier == 'quick' else 450000

    def pats():
        for _ in range(n):
            yield M.gen_float(rng, 8)
    bulk_conv(pats(), 8, ev)


EXH_EXPS = (0x80, 0x81, 0x8f, 0x90, 0x97, 0x98)


def run_single_exh(shard, nshards, tier, seed, ev):
    """thorough: every 24-bit sign+mantissa pattern at six exponents around the binary point."""
    def pats():
        for e in EXH_EXPS:
            eb = bytes((e,))
            lab = 'exh-exp-%02x' % e
            for m in range(shard, 1 << 24, nshards):
                yield m.to_bytes(3, 'little') + eb, lab
    bulk_conv(pats(), 4, ev, recheck_every=99991, distinct=True)


BOUNDARY_EXPS = (0, 1, 2, 0x7f, 0x80, 0x81, 0xfe, 0xff)
BYTEVALS = (0x00, 0x01, 0x7f, 0x80, 0x81, 0xfe, 0xff)


def boundary_patterns():
    """Byte strings for MKx$(CVx(s)) = s: boundary exponent bytes x assorted mantissa/sign bytes."""
    out = []
    rng = random.Random(20260922)
    for e in BOUNDARY_EXPS:
        eb = bytes((e,))
        # singles: every combination of the boundary byte values in the three mantissa bytes
        for b0 in BYTEVALS:
            for b1 in BYTEVALS:
                for b2 in BYTEVALS:
                    out.append(bytes((b0, b1, b2)) + eb)
        # doubles: uniform bytes, one odd byte in each position, sign-byte specials, some random
        mans = set()
        for v in BYTEVALS:
            mans.add(bytes((v,)) * 7)
            for pos in range(7):
                for base in (0x00, 0xff):
                    m = bytearray((base,) * 7)
                    m[pos] = v
                    mans.add(bytes(m))
        for top in (0x00, 0x7f, 0x80, 0xff):
            mans.add(bytes(range(1, 7)) + bytes((top,)))
        for _ in range(24):
            mans.add(M.rand_bytes(rng, 7))
        for m in sorted(mans):
            out.append(m + eb)
    for v in (0, 1, -1, 255, 256, -256, 32767, -32768, 0x7f80, -0x7f80, 0x00ff, -0x00ff):
        out.append(mbf.int16_bytes(v))
    return out


def gen_boundary(shard, nshards, tier, seed):
    routes = ('eval', 'prog', 'field')
    for i, b in enumerate(boundary_patterns()):
        if i % nshards != shard:
            continue
        for route in routes:
            if route == 'field' and b[-1] not in (0, 1, 0xff) and len(b) > 2:
                continue
            yield {'u': 'conv', 'f': 'MK', 'b': M.lat(b), 'route': route}


def gen_ints(shard, nshards, tier, seed):
    for v in range(INT_MIN + shard, INT_MAX + 1, nshards):
        yield {'u': 'int', 'n': v}


# ---------------------------------------------------------------------------------------------
# Hypothesis sample through the parser

def st_bytes(n):
    p = M.P[n]
    exps = st.one_of(st.integers(0, 255), st.sampled_from(M.S_SWEEP_EXPS if n == 4 else M.D_SWEEP_EXPS))
    raw = st.binary(min_size=n, max_size=n)
    parts = st.builds(lambda m, e: m.to_bytes(n - 1, 'little') + bytes((e,)),
                      st.integers(0, (1 << p) - 1), exps)
    pooled = st.integers(0, 2 ** 40).map(lambda sd: M.gen_float(random.Random(sd), n)[0])
    return st.one_of(raw, parts, pooled, pooled)


def strat_conv():
    def build(f, b4, b8, b2, dbl, route):
        if f == 'MK':
            b = (b2, b4, b8)[dbl % 3]
        else:
            b = b8 if dbl % 2 else b4
            if f == 'CDBL':
                b = b4
            if f == 'CSNG':
                b = b8
        if f == 'MK' and route == 'prog' and dbl >= 3:
            route = 'field'
        return {'u': 'conv', 'f': f, 'b': M.lat(b), 'route': route}
    return st.builds(build, st.sampled_from(['CINT', 'FIX', 'INT', 'CDBL', 'CSNG', 'CSNG', 'MK', 'MK']),
                     st_bytes(4), st_bytes(8), st.binary(min_size=2, max_size=2),
                     st.integers(0, 5), st.sampled_from(['eval', 'eval', 'prog']))


def units(tier):
    us = [
        Unit('int-all', 'enum', shards=16, gen=gen_ints, exhaustive=True),
        Unit('mk-boundary', 'enum', shards=8, gen=gen_boundary),
        Unit('single-bulk', 'bulk', shards=16, run=run_single),
        Unit('double-bulk', 'bulk', shards=16, run=run_double),
        Unit('conv-eval', 'hyp', shards=16, examples={'quick': 500, 'thorough': 25000},
             strategy=strat_conv),
    ]
    if tier == 'thorough':
        us.append(Unit('single-exhaustive-6exp', 'bulk', shards=16, run=run_single_exh))
    return us


def _c(f, hexbytes, route='api'):
    return {'u': 'conv', 'f': f, 'b': M.lat(bytes.fromhex(hexbytes)), 'route': route}


REGRESSIONS = [
    {'u': 'int', 'n': -32768}, {'u': 'int', 'n': -1}, {'u': 'int', 'n': 0}, {'u': 'int', 'n': 32767},
    _c('CINT', '00002082'),            # 2.5 -> 3
    _c('CINT', '0000a082'),            # -2.5 -> -3
    _c('CINT', '00ff7f8f', 'eval'),    # 32767.5 -> Overflow
    _c('CINT', '00008090', 'prog'),    # -32768 -> -32768
    _c('CINT', '00018090', 'eval'),    # -32768.5 -> Overflow
    _c('INT', '00008080', 'eval'),     # INT(-0.5) = -1
    _c('FIX', '00008080', 'eval'),     # FIX(-0.5) = 0
    _c('INT', '000000000000a082', 'prog'),
    _c('CSNG', '00000080ffff7f81'),    # exactly halfway, odd -> up, carries into the exponent
    _c('CSNG', '00000080ffff7fff', 'eval'),   # rounds up past the largest single -> Overflow
    _c('CSNG', 'ffffff7fffff7fff'),    # just below halfway at the top -> largest single
    _c('MK', '01020300', 'eval'),      # dirty zero: bytes must survive CVS -> MKS$
    _c('MK', '01028300', 'prog'),      # dirty negative zero through a variable
    _c('MK', '0102030405068700', 'field'),
    _c('MK', '01000000', 'api'),
    _c('MK', 'ffffffffffffffff', 'prog'),
]

KILLS = [
    'wave-4 seed (Float.from_bytes canonicalises exponent-0 patterns to all-zero bytes) => mk.single.bytes, mk.single/double.stored-form (mk-boundary, single-bulk, double-bulk, conv-eval)',
    'seeded/C03b (_normalise carry-out after rounding lost) => csng.double.value, csng.double.overflow-missing',
    'seeded/C03c (to_int rounds half up instead of away from zero) => cint.single.value, cint.single.overflow-missing',
    "seeded/C03 (itrunc 'already whole' shortcut off by one exponent) => fix.single.value, int.single.value",
    'numbers.Float.to_int: carry test `man & 0x80` -> `man & 0x100` => cint.single.value, cint.single.overflow-missing (single-bulk)',
    'numbers.Float.ifloor: drop `and was_negative` => int.double.value (double-bulk)',
    'numbers.Double.to_single: drop the carry byte (`man += mybytes[3]` removed) => csng.double.value, csng.double.overflow-missing',
    'numbers.Double.to_single: carry byte masked `& 0x7f` (never rounds up) => csng.double.value, csng.double.overflow-missing',
    'values.mki_: byte order reversed => mk.int.value, cint.single.value (conv-eval; also int.mki in int-all)',
    'numbers.Float.to_int_truncate: `(-man) >> 8` (floors negatives) => fix.single.value, int.single.value',
    'numbers.Integer.from_int: `-0x8000 < in_int` (rejects -32768) => cint.single.spurious-error',
    'numbers.Integer.from_hex: unsigned=False => int.hex-literal, int.hex-roundtrip (int-all)',
    "SURVIVES (equivalent): Integer.to_oct zero special case removed - b'%o' % 0 is already b'0'",
]
