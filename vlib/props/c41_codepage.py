"""
C41 - codepage conversion round trips.

The reference side is the shipped `.ucp` table itself, parsed here by an independent reader (not
`pcbasic.data.read_codepage`): it decides what the repertoire is, which byte sequences have a unique
Unicode mapping and which bytes are lead/trail/box-drawing bytes. The conversions under test are
`Codepage.unicode_to_bytes`, `Codepage.bytes_to_unicode` and the streaming `Converter`.

Case shapes (all JSON-native; byte strings are latin-1 `str`):
  {'u': 'parse', 'cp': name}                                  own parser == read_codepage
  {'u': 'byte',  'cp': name, 'b': latin1, 'box': bool}        one single byte / one lead+trail pair
  {'u': 'char',  'cp': name, 'c': unicode, 'box': bool}       one repertoire cluster
  {'u': 'stream','cp': name, 's': latin1, 'cuts': [int..], 'box': bool, 'preserve': latin1,
                 'subst': bool}                               streaming converter
"""
import os
import re
import random
import binascii
import itertools
import unicodedata
import collections

from hypothesis import strategies as st

from vlib.core import Result, Unit
from vlib import harness

import importlib
cpmod = importlib.import_module('pcbasic.basic.codepage')   # ('pcbasic.basic.codepage' the name is shadowed by an API function)
from pcbasic.data import read_codepage, CODEPAGES    # noqa: E402

ID = 'C41'
LEVEL = 'exploration'
RULE = ("Exhaustive over all shipped codepages: every single byte, every lead x trail byte pair of "
        "the double-byte pages (defined or not), every cluster of the repertoire, each with box "
        "protection on and off; all strings up to a bounded length over one representative byte per "
        "(lead, trail, box-set, preserved) class of each double-byte page; Hypothesis byte strings "
        "0-64 bytes biased to lead/trail/box/control bytes with random chunk boundaries, preserve "
        "sets and box protection on/off. Non-trivial entry: a double-byte pair, a point whose "
        "mapping is duplicated, a glyph-substituted ASCII point, a box-drawing or lead byte, a "
        "non-NFC or multi-codepoint cluster; non-trivial string: a chunk ends in a lead byte or the "
        "string holds a box-drawing run or a preserved byte after a lead byte. Distinct = distinct "
        "(codepage, bytes/cluster, options).")
ASSUMPTIONS = [
    "'the same character' is compared up to Unicode canonical equivalence (NFC): the tables hold "
    "CJK compatibility ideographs which the converter deliberately normalises",
    "a byte sequence counts as uniquely mapped only if no other table entry has the same NFC "
    "cluster and no printable-ASCII byte transcodes to the same character; printable ASCII bytes "
    "with a substitute glyph (e.g. 5C = YEN SIGN in 932) round-trip as the ASCII character by "
    "default and as the glyph with use_substitutes=True, both are checked",
    "lead x trail pairs that the table does not define are only checked for the splitting "
    "(concatenation) part; nothing is asserted about their Unicode value",
    "'in pieces' is read as (a) feeding one converter arbitrary chunks and flushing at the end and "
    "(b) converting the segments between preserved control bytes separately: both must equal the "
    "conversion at once; nothing is asserted about *where* box-drawing protection splits: the only "
    "splitting asserted is that a well-formed string of defined pairs and non-lead single bytes "
    "that holds no box-drawing and no preserved byte splits into exactly those characters",
]
TECHNIQUE = ("exhaustive enumeration of codepage tables against an independently parsed table; "
             "bounded-exhaustive and Hypothesis chunked streams through the DBCS converter "
             "(round trip + metamorphic chunking/segment relations)")

CONTROL = [b'\x07', b'\x09', b'\x0a', b'\x0b', b'\x0c', b'\x0d', b'\x1c', b'\x1d', b'\x1e', b'\x1f']
BOX_CLUSTERS = (u'─', u'═')


def nfc(u):
    return unicodedata.normalize('NFC', u)


def l1(b):
    return b.decode('latin-1')


def b8(s):
    return s.encode('latin-1')


# --------------------------------------------------------------------------------------------
# independent table reader and derived facts

def codepage_dir():
    return os.path.join(harness.REPO, 'pcbasic', 'data', 'codepages')


def all_codepages():
    return sorted(f[:-4] for f in os.listdir(codepage_dir()) if f.lower().endswith('.ucp'))


def parse_ucp(name):
    """hex bytes ':' comma-separated hex code points; '#' starts a comment."""
    table = collections.OrderedDict()
    with open(os.path.join(codepage_dir(), name + '.ucp'), 'rb') as f:
        for line in f.read().splitlines():
            line = line.split(b'#')[0]
            if b':' not in line:
                continue
            parts = line.split(b':')
            try:
                key = binascii.unhexlify(parts[0].strip())
                val = u''.join(chr(int(x.strip(), 16)) for x in parts[1].split(b','))
            except (ValueError, TypeError):
                continue
            table[key] = val
    return table


class Facts(object):
    """Everything the oracle knows about one codepage, from the .ucp file only."""

    def __init__(self, name):
        self.name = name
        self.table = parse_ucp(name)
        self.single = [k for k in self.table if len(k) == 1]
        self.pairs = [k for k in self.table if len(k) == 2]
        self.lead = sorted({k[:1] for k in self.pairs})
        self.trail = sorted({k[1:] for k in self.pairs})
        self.leadset, self.trailset = set(self.lead), set(self.trail)
        self.dbcs = bool(self.pairs)
        # printable ASCII keeps its ASCII meaning; a differing table value is a glyph substitute
        self.subst = {k: nfc(v) for k, v in self.table.items()
                      if len(k) == 1 and 0x20 <= k[0] <= 0x7e and nfc(v) != chr(k[0])}
        # effective default mapping
        self.eff = {}
        for k, v in self.table.items():
            self.eff[k] = chr(k[0]) if k in self.subst else nfc(v)
        self.count_t = collections.Counter(nfc(v) for v in self.table.values())
        self.count_e = collections.Counter(self.eff.values())
        self.box = [set(), set()]
        for k in self.single:
            for i in (0, 1):
                if nfc(self.table[k]) == BOX_CLUSTERS[i]:
                    self.box[i].add(k)
        self.repertoire = sorted(set(self.table.values()) | {chr(k[0]) for k in self.subst})

    def unique(self, b):
        if b not in self.table:
            return False
        return self.count_t[nfc(self.table[b])] == 1 and self.count_e[self.eff[b]] == 1

    def classes(self, preserve):
        """One representative byte per (lead, trail, box0, box1, preserved) class."""
        reps = collections.OrderedDict()
        for c in range(256):
            b = bytes([c])
            key = (b in self.leadset, b in self.trailset, b in self.box[0], b in self.box[1],
                   b in preserve)
            reps.setdefault(key, b)
        return list(reps.values())


_FACTS = {}
_CP = {}
_DBCS = {}


def is_dbcs(name):
    """Cheap test (no full parse): does the file define a two-byte code point?"""
    if name not in _DBCS:
        with open(os.path.join(codepage_dir(), name + '.ucp'), 'rb') as f:
            _DBCS[name] = re.search(br'^[ \t]*[0-9a-fA-F]{4}[ \t]*:', f.read(), re.M) is not None
    return _DBCS[name]


def facts(name):
    if name not in _FACTS:
        _FACTS[name] = Facts(name)
    return _FACTS[name]


def cp_obj(name, box):
    key = (name, bool(box))
    if key not in _CP:
        _CP[key] = cpmod.Codepage(read_codepage(name), box_protect=bool(box))
    return _CP[key]


# --------------------------------------------------------------------------------------------
# oracles on single entries (return a list of (key, msg); shared by bulk loops and check_case)

def mark_all(cp, s, preserve=(), subst=False):
    conv = cpmod.Converter(cp, preserve, cp.box_protect, subst)
    return conv._mark(s, flush=True)


def judge_byte(F, cp, b):
    fails = []
    tag = 'pair' if len(b) == 2 else 'single'
    # splitting: one defined entry is one sequence; any input concatenates back
    seqs = mark_all(cp, b)
    if b''.join(seqs) != b:
        fails.append(('mark.concat.' + tag, '%s %r -> sequences %r' % (F.name, b, seqs)))
    lst = cpmod.Converter(cp, (), cp.box_protect).to_unicode_list(b, flush=True)
    if len(lst) != len(b):
        fails.append(('mark.cells.' + tag, '%s %r -> %d cells %r' % (F.name, b, len(lst), lst)))
    if b in F.table:
        if seqs != [b]:
            fails.append(('mark.entry-split.' + tag, '%s %r -> sequences %r' % (F.name, b, seqs)))
        if F.unique(b):
            u = cp.bytes_to_unicode(b)
            back = cp.unicode_to_bytes(u)
            if back != b:
                fails.append(('bytes-roundtrip.' + tag, '%s %r -> %r -> %r' % (F.name, b, u, back)))
            # the API conversion preserves control characters; must round-trip as well
            u = cp.bytes_to_unicode(b, preserve=tuple(CONTROL))
            back = cp.unicode_to_bytes(u)
            if back != b:
                fails.append(('bytes-roundtrip.preserve.' + tag,
                              '%s %r -> %r -> %r' % (F.name, b, u, back)))
        if b in F.subst and F.count_t[F.subst[b]] == 1:
            u = cp.bytes_to_unicode(b, use_substitutes=True)
            back = cp.unicode_to_bytes(u)
            if back != b:
                fails.append(('bytes-roundtrip.subst', '%s %r -> %r -> %r' % (F.name, b, u, back)))
    return fails


def judge_char(F, cp, c):
    fails = []
    b = cp.unicode_to_bytes(c)
    back = cp.bytes_to_unicode(b)
    if nfc(back) != nfc(c):
        # a substitute glyph comes back as its ASCII character unless substitutes are requested
        back2 = cp.bytes_to_unicode(b, use_substitutes=True)
        if nfc(c) in F.subst.values() and nfc(back2) == nfc(c):
            pass
        else:
            fails.append(('char-roundtrip', '%s %r -> %r -> %r' % (F.name, c, b, back)))
    if not b:
        fails.append(('char-unencodable', '%s %r in the repertoire encodes to nothing' % (F.name, c)))
    return fails


def nt_byte(F, b):
    return (len(b) == 2 or b in F.subst or b in F.leadset or b in F.box[0] or b in F.box[1]
            or (b in F.table and F.count_t[nfc(F.table[b])] > 1))


def nt_char(F, c):
    return len(c) > 1 or nfc(c) != c or F.count_t[nfc(c)] > 1 or nfc(c) in F.subst.values()


def split_at_preserved(s, preserve):
    """-> list of ('seg', bytes) / ('p', byte)."""
    parts, cur = [], b''
    for i in range(len(s)):
        c = s[i:i + 1]
        if c in preserve:
            parts.append(('seg', cur))
            parts.append(('p', c))
            cur = b''
        else:
            cur += c
    parts.append(('seg', cur))
    return parts


def wellformed_split(F, s, pres):
    """Character sequence of a well-formed DBCS string without box/preserved bytes, else None."""
    if not F.dbcs:
        return None
    out = []
    i = 0
    while i < len(s):
        c = s[i:i + 1]
        if c in pres or c in F.box[0] or c in F.box[1]:
            return None
        if c in F.leadset:
            pair = s[i:i + 2]
            d = pair[1:]
            if len(pair) < 2 or pair not in F.table or d in pres or d in F.box[0] or d in F.box[1]:
                return None
            out.append(pair)
            i += 2
        else:
            out.append(c)
            i += 1
    return out


def judge_stream(F, cp, s, cuts, preserve, subst):
    fails = []
    pres = tuple(preserve)
    once = mark_all(cp, s, pres, subst)
    if b''.join(once) != s:
        fails.append(('stream.concat', '%s box=%s preserve=%r: %r -> %r' % (
            F.name, cp.box_protect, pres, s, once)))
    if any(len(q) not in (1, 2) for q in once):
        fails.append(('stream.seqlen', '%s: %r -> %r' % (F.name, s, once)))
    # in pieces through one converter
    conv = cpmod.Converter(cp, pres, cp.box_protect, subst)
    pieces = []
    pos = 0
    for cut in list(cuts) + [len(s)]:
        pieces += conv._mark(s[pos:cut], flush=False)
        pos = cut
    pieces += conv._mark(b'', flush=True)
    if pieces != once:
        fails.append(('stream.pieces', '%s box=%s: %r cuts %r -> %r, at once %r' % (
            F.name, cp.box_protect, s, cuts, pieces, once)))
    # the same through the public text interface
    conv = cpmod.Converter(cp, pres, cp.box_protect, subst)
    text = u''
    cells = 0
    pos = 0
    for cut in list(cuts) + [len(s)]:
        text += conv.to_unicode(s[pos:cut])
        pos = cut
    text += conv.to_unicode(b'', flush=True)
    whole = cpmod.Converter(cp, pres, cp.box_protect, subst).to_unicode(s, flush=True)
    if text != whole:
        fails.append(('stream.pieces-text', '%s box=%s: %r cuts %r -> %r, at once %r' % (
            F.name, cp.box_protect, s, cuts, text, whole)))
    cells = len(cpmod.Converter(cp, pres, cp.box_protect, subst).to_unicode_list(s, flush=True))
    if cells != len(s):
        fails.append(('stream.cells', '%s: %r -> %d cells' % (F.name, s, cells)))
    # a well-formed string (defined pairs and non-lead single bytes, no box-drawing byte, nothing
    # preserved) has only one reading in a double-byte character set
    wf = wellformed_split(F, s, set(pres))
    if wf is not None and once != wf:
        fails.append(('stream.wellformed-split', '%s box=%s: %r -> %r, characters are %r' % (
            F.name, cp.box_protect, s, once, wf)))
    # segments between preserved bytes convert independently
    if pres:
        segs = []
        for kind, part in split_at_preserved(s, set(pres)):
            if kind == 'p':
                segs.append(part)
            else:
                segs += mark_all(cp, part, pres, subst)
        if segs != once:
            fails.append(('stream.preserve-segments', '%s box=%s preserve=%r: %r -> %r, by segment %r'
                          % (F.name, cp.box_protect, pres, s, once, segs)))
    return fails


def nt_stream(F, s, cuts, preserve):
    if not F.dbcs:
        return False
    pres = set(preserve)
    for cut in cuts:
        if 0 < cut < len(s) and s[cut - 1:cut] in F.leadset:
            return True
    for i in range(1, len(s)):
        if s[i - 1:i] in F.leadset and s[i:i + 1] in pres:
            return True
        for k in (0, 1):
            if s[i - 1:i] in F.box[k] and s[i:i + 1] in F.box[k]:
                return True
    return False


# --------------------------------------------------------------------------------------------

def check_case(case):
    res = Result()
    u = case['u']
    F = facts(case['cp'])
    if u == 'parse':
        theirs = read_codepage(case['cp'])
        res.nt(True)
        if dict(F.table) != theirs:
            diff = [k for k in set(F.table) | set(theirs) if F.table.get(k) != theirs.get(k)]
            res.fail('table.parse', '%s: reader disagrees with the .ucp text at %r' % (
                case['cp'], sorted(diff)[:5]))
        if case['cp'] not in CODEPAGES:
            res.fail('table.unlisted', '%s.ucp shipped but not in CODEPAGES' % case['cp'])
        return res
    cp = cp_obj(case['cp'], case['box'])
    if u == 'byte':
        b = b8(case['b'])
        fails = judge_byte(F, cp, b)
        res.nt(nt_byte(F, b))
    elif u == 'char':
        fails = judge_char(F, cp, case['c'])
        res.nt(nt_char(F, case['c']))
    elif u == 'stream':
        s = b8(case['s'])
        cuts = sorted(min(len(s), max(0, int(c))) for c in case['cuts'])
        preserve = [bytes([c]) for c in b8(case['preserve'])]
        fails = judge_stream(F, cp, s, cuts, preserve, case['subst'])
        nt = nt_stream(F, s, cuts, preserve)
        res.nt(nt)
        res.label('stream:dbcs' if F.dbcs else 'stream:sbcs')
        if nt:
            res.label('stream:nontrivial')
        if cp.box_protect and F.dbcs:
            res.label('stream:box-protect')
        if preserve:
            res.label('stream:preserve')
        if len(s) > 2 and wellformed_split(F, s, set(preserve)) is not None:
            res.label('stream:wellformed-dbcs')
    else:
        raise ValueError(u)
    for key, msg in fails:
        res.fail(key, msg)
    return res


# --------------------------------------------------------------------------------------------
# exhaustive units

LEAD_PARTS = 4


def work_items():
    """(codepage, what, part): enumerated without parsing any table."""
    items = []
    for name in all_codepages():
        items.append((name, 'single', 0))
        items.append((name, 'rep', 0))
        if is_dbcs(name):
            for part in range(LEAD_PARTS):
                items.append((name, 'lead', part))
    # heavy items first, dealt round-robin
    items.sort(key=lambda it: (it[1] != 'lead', not is_dbcs(it[0]), it[0], it[2]))
    return items


def run_tables(shard, nshards, tier, seed, ev):
    items = work_items()[shard::nshards]
    for name, what, part in items:
        F = facts(name)
        # the repertoire direction does not go through box protection differently: once is enough
        boxes = (True, False) if (F.dbcs and what != 'rep') else (True,)
        for box in boxes:
            cp = cp_obj(name, box)
            if what == 'single':
                keys = [bytes([c]) for c in range(256)]
            elif what == 'lead':
                keys = [lead + bytes([t]) for lead in F.lead[part::LEAD_PARTS]
                        for t in range(256) if bytes([t]) in F.trailset]
            else:
                keys = None
            if keys is not None:
                n = k = 0
                for b in keys:
                    for key, msg in judge_byte(F, cp, b):
                        ev.fail(key, {'u': 'byte', 'cp': name, 'b': l1(b), 'box': box}, msg)
                    n += 1
                    k += 1 if nt_byte(F, b) else 0
                ev.count(n, nontrivial=k, label='table:%s' % what)
                ev.labels['table:defined-unique'] += sum(1 for b in keys if F.unique(b))
                ev.labels['table:defined-duplicate'] += sum(
                    1 for b in keys if b in F.table and not F.unique(b))
                ev.labels['table:undefined-pair'] += sum(1 for b in keys if b not in F.table)
                if what == 'lead' and part == 0 and box and keys:
                    ev.sample({'u': 'byte', 'cp': name, 'b': l1(keys[0]), 'box': box})
            else:
                n = k = 0
                for c in F.repertoire:
                    for key, msg in judge_char(F, cp, c):
                        ev.fail(key, {'u': 'char', 'cp': name, 'c': c, 'box': box}, msg)
                    n += 1
                    k += 1 if nt_char(F, c) else 0
                ev.count(n, nontrivial=k, label='table:repertoire')
                if F.repertoire and box:
                    ev.sample({'u': 'char', 'cp': name, 'c': F.repertoire[-1], 'box': box},
                              nontrivial=nt_char(F, F.repertoire[-1]))


def gen_parse(shard, nshards, tier, seed):
    for name in all_codepages()[shard::nshards]:
        yield {'u': 'parse', 'cp': name}


SMALL_PRESERVE = [b'\x0d']


def small_items():
    todo = []
    for name in all_codepages():
        if is_dbcs(name):
            for box in (True, False):
                todo.append((name, box))
    return todo


def run_small(shard, nshards, tier, seed, ev):
    """
    All strings up to length L over one representative per byte class, DBCS pages only.
    One (page, box) item per shard; the box-protection automaton needs 6 bytes to show a stale
    state (three connecting box bytes, a preserved byte, a box byte, a trail byte).
    """
    for name, box in small_items()[shard::nshards]:
        if tier == 'quick':
            maxlen = 6 if box else 5
        else:
            maxlen = 8 if box else 6
        F = facts(name)
        cp = cp_obj(name, box)
        reps = F.classes(set(SMALL_PRESERVE))
        n = k = 0
        for length in range(0, maxlen + 1):
            for tup in itertools.product(reps, repeat=length):
                s = b''.join(tup)
                cuts = list(range(1, len(s)))
                fails = judge_stream(F, cp, s, cuts, SMALL_PRESERVE, False)
                for key, msg in fails:
                    ev.fail(key, {'u': 'stream', 'cp': name, 's': l1(s), 'cuts': cuts, 'box': box,
                                  'preserve': l1(b''.join(SMALL_PRESERVE)), 'subst': False}, msg)
                n += 1
                k += 1 if nt_stream(F, s, cuts, SMALL_PRESERVE) else 0
        ev.count(n, nontrivial=k, label='small:%d-classes:len<=%d' % (len(reps), maxlen))
        ev.sample({'u': 'stream', 'cp': name, 's': l1(b'\xc4\xc4\xc4\x0d\x81'),
                   'cuts': [1, 2, 3], 'box': box, 'preserve': '\r', 'subst': False})


# --------------------------------------------------------------------------------------------
# Hypothesis streams

def _pool(F):
    """Weighted byte pool for one codepage."""
    pool = []
    box = sorted(F.box[0] | F.box[1])
    pool += box * 6
    pool += CONTROL[:6]
    pool += [b'\x0d'] * 3
    pool += [b' ', b'A', b'\\', b'\x7f', b'\x00', b'\xff', b'\x80', b'\xa0', b'~', b'@']
    if F.dbcs:
        lead_only = [b for b in F.lead if b not in F.trailset]
        trail_only = [b for b in F.trail if b not in F.leadset]
        both = [b for b in F.lead if b in F.trailset]
        pool += lead_only[:4] * 2 + trail_only[:4] * 2 + both[:3] * 3 + both[-3:] * 2
    return pool


def build_stream(cpsel, toks, cuts, pressel, presidx, box, subst):
    """Interpret a static draw of integers against the tables of the chosen codepage."""
    names = all_codepages()
    dbcs = [n for n in names if is_dbcs(n)]
    name = dbcs[cpsel[1] % len(dbcs)] if cpsel[0] else names[cpsel[1] % len(names)]
    F = facts(name)
    pool = _pool(F)
    if pressel == 0:
        pres = b''
    elif pressel == 1:
        pres = b''.join(CONTROL)
    elif pressel == 2:
        pres = b'\r'
    else:
        pres = b''.join(sorted({pool[i % len(pool)] for i in presidx}))
    boxb = sorted(F.box[0] | F.box[1])
    out = []
    for kind, a, b, n in toks:
        if kind == 0:
            out.append(bytes([a]))
        elif kind == 1 and boxb:
            out.append(boxb[a % len(boxb)] * n)
        elif kind == 2 and pres:
            out.append(pres[a % len(pres):a % len(pres) + 1])
        elif kind == 3 and F.dbcs:
            out.append(F.pairs[(a * 256 + b) % len(F.pairs)])
        elif kind == 4 and F.dbcs:
            out.append(F.lead[a % len(F.lead)] + F.trail[b % len(F.trail)])
        elif kind == 5 and F.dbcs:
            out.append(F.lead[a % len(F.lead)])
        else:
            out.append(pool[(a + b) % len(pool)])
    s = b''.join(out)[:64]
    return {'u': 'stream', 'cp': name, 's': l1(s), 'cuts': sorted(c % (len(s) + 1) for c in cuts),
            'box': box, 'preserve': l1(pres), 'subst': subst}


def gen_stream(rng):
    toks = [(rng.randrange(8), rng.randrange(256), rng.randrange(256), rng.randint(1, 5))
            for _ in range(rng.choice([0, 1, 2, 3, 5, 8, 12, 24]))]
    cuts = [rng.randrange(65) for _ in range(rng.randrange(9))]
    return build_stream((rng.random() < 0.75, rng.randrange(48)), toks, cuts, rng.randrange(4),
                        [rng.randrange(256) for _ in range(rng.randrange(5))], rng.random() < 0.5,
                        rng.random() < 0.5)


def strat_stream():
    """8 uniformly random bytes seed a PRNG that draws the token list (cheap, unbiased pools)."""
    return st.binary(min_size=8, max_size=8).map(lambda b: gen_stream(random.Random(b)))


def units(tier):
    return [
        Unit('parse', 'enum', shards=1, gen=gen_parse, exhaustive=True),
        Unit('tables', 'bulk', shards={'quick': 8, 'thorough': 16}, run=run_tables, exhaustive=True),
        Unit('small-streams', 'bulk', shards={'quick': 8, 'thorough': 16}, run=run_small,
             exhaustive=True),
        Unit('streams', 'hyp', shards={'quick': 8, 'thorough': 16},
             examples={'quick': 1500, 'thorough': 125000},
             strategy=strat_stream),
    ]


REGRESSIONS = [
    # box-drawing run between double-byte characters, cut inside every pair
    {'u': 'stream', 'cp': '936', 's': l1(b'\x81\x40\xc4\xc4\xc4\xcd\xcd\x81\r\xc4\x41'),
     'cuts': [1, 3, 4, 8], 'box': True, 'preserve': '\r', 'subst': False},
    {'u': 'stream', 'cp': '932', 's': l1(b'\x81\\\x5c\x81'), 'cuts': [1], 'box': False,
     'preserve': '', 'subst': True},
    {'u': 'byte', 'cp': '932', 'b': '\\', 'box': True},
    {'u': 'char', 'cp': '932', 'c': u'¥', 'box': True},
    {'u': 'char', 'cp': 'russup3', 'c': parse_ucp('russup3')[b'\x80'] if os.path.exists(
        os.path.join(codepage_dir(), 'russup3.ucp')) else u'A', 'box': True},
]

KILLS = [
    "Converter._flush drops a lone buffered lead byte -> mark.concat.single, mark.cells.single, "
    "bytes-roundtrip.single, char-roundtrip, stream.concat, stream.cells, stream.seqlen",
    "Codepage.__init__ keeps the substitute glyph in _cp_to_unicode for printable ASCII (inverse "
    "table built from the glyphs) -> char-roundtrip (864 '%')",
    "_from_unicode ignores _inverse_substitutes -> bytes-roundtrip.subst, char-roundtrip, "
    "char-unencodable",
    "Converter._process does not reset the box-protection state on a preserved control byte -> "
    "stream.preserve-segments (streams and small-streams units; needs 3 box bytes, CR, box byte, "
    "trail byte)",
    "_process_case3 flushes only one of the two buffered box bytes -> stream.concat, stream.cells",
    "_process_case2 'no connection' flushes one byte instead of the pair -> stream.wellformed-split",
    "Codepage.__init__ does not NFC-normalise table clusters -> bytes-roundtrip.pair, "
    "char-roundtrip, char-unencodable",
]
