"""
C08 - PRINT USING produces fields of the declared width with correctly rounded digits.

A case is one PRINT#1, USING statement: a format string (literals + numeric/string fields) and a
list of values given as exact bit patterns (CVS/CVD/CVI of string variables) or strings. The output
file is cut into per-field pieces with the help of separator literals that cannot occur inside a
number, and every piece is judged against the field spec (re-read from the format string by this
module's own grammar) and the exact value (vlib/mbf.py, vlib/dectext.py).
"""
import os
import re
from fractions import Fraction

from hypothesis import strategies as st

from vlib.core import Result, Unit
from vlib import harness, mbf, dectext

ID = 'C08'
LEVEL = 'exploration'
RULE = ("Format strings from the grammar [+](**|$$|**$)?#[#,]*(.#*)?(^^^^)?[+-]? (<= 24 digit "
        "positions, some >= 25 for the Illegal-function-call rule), string fields ! & \\ \\ (0..20 "
        "blanks), 1..4 fields per format separated by literal text and _ escapes, 1..8 values so "
        "that the format cycles or is left unfinished; numbers of all three types as exact bit "
        "patterns with the decimal magnitude tied to the field (from far below the last decimal to "
        "overflowing the integer positions; all-nines and half-way digit strings; extremes); "
        "strings of length 0..255. Non-trivial: the number must be rounded at the field's decimals, "
        "or overflows the field, or the field has a sign/$/*/,/^ feature, or a string is cut or "
        "padded; distinct = distinct (format, values).")
ASSUMPTIONS = [
    "digits: |shown - |value|| <= half a unit of the last shown decimal + one unit of the 7th "
    "(single, integer) / 16th (double) significant digit of the value (accuracy of decimal "
    "conversion, C07)",
    "sign character follows the stored sign (a negative value that rounds to zero shows '-')",
    "the relative order of a leading sign and the $ is not asserted (manual: both 'left of the "
    "number'); the ! field with an empty string may give nothing or one blank",
    "a field with ^^^^ and either a sign token or at least one position left of the point never "
    "overflows (one position is reserved for the sign); $ together with ^^^^ is only checked for "
    "width and digits",
    "a ^^^^ field that has no mantissa digit position left after the sign reservation ('#^^^^', "
    "'#.^^^^') shows none of the value's digits: only width, sign, the bare placeholder ('', '0') "
    "and an exponent e with floor(log10|v|)+1 <= e <= max(floor(log10|v|)+2, 0) are checked (the "
    "hidden mantissa |v|/10^e must be below 1; which of these the interpreter picks is not pinned "
    "by the manual)",
    "> 24 digit positions must raise Illegal function call (manual); fields whose character count "
    "exceeds 24 while the digit positions do not are not generated",
    "string values use bytes 32..255 only (control characters are the device layer's business)",
    "placement of literal text and format cycling follow the manual: each value emits the literal "
    "before its field only at the start of a cycle and the literal after its field always",
]
TECHNIQUE = ("Hypothesis grammar-based format/value generation vs. an independent field parser, "
             "regex shape check and exact-rational digit bound; file vs. screen differential")

SAFE = 'abcfghijklmnopqrstuvwxyz|:=()[]<>'      # never part of a formatted number (no d, e)
ESCAPABLE = '#.+-*$^!&\\_,%'

PREC_DIGITS = {2: 7, 4: 7, 8: 16}


# --------------------------------------------------------------------------------------------
# this module's own reading of a format string

NUMFIELD = re.compile(r'(\+)?(\*\*\$|\*\*|\$\$)?(#[#,]*)?(?:(\.)(#*))?(\^\^\^\^)?([+-])?')


class Field(object):
    __slots__ = ('kind', 'text', 'lead_plus', 'prefix', 'intpos', 'dot', 'decimals', 'sci', 'trail',
                 'comma', 'stars', 'dollar', 'positions', 'width', 'sci_digits')


def read_format(fmt):
    """-> list of ('lit', text) / ('num', Field) / ('str', Field); None if outside the grammar."""
    items = []
    i = 0
    lit = ''
    while i < len(fmt):
        c = fmt[i]
        if c == '_':
            lit += fmt[i + 1] if i + 1 < len(fmt) else '_'
            i += 2
            continue
        f = None
        if c in '!&':
            f = Field()
            f.kind, f.text, f.width = 'str', c, 1
            i += 1
        elif c == '\\':
            j = i + 1
            while j < len(fmt) and fmt[j] == ' ':
                j += 1
            if j < len(fmt) and fmt[j] == '\\':
                f = Field()
                f.kind, f.text, f.width = 'str', fmt[i:j + 1], j + 1 - i
                i = j + 1
            else:
                return None
        elif c in '+*$#.':
            m = NUMFIELD.match(fmt, i)
            if not m or m.end() == i:
                return None
            lead, prefix, intpos, dot, dec, sci, trail = m.groups()
            if not intpos and not prefix and not (dot and dec):
                return None
            if lead and trail:
                return None
            f = Field()
            f.kind = 'num'
            f.text = m.group(0)
            f.width = len(f.text)
            f.lead_plus = bool(lead)
            f.prefix = prefix or ''
            f.intpos = intpos or ''
            f.dot = bool(dot)
            f.decimals = len(dec or '')
            f.sci = bool(sci)
            f.trail = trail or ''
            f.comma = ',' in f.intpos
            f.stars = '*' in f.prefix
            f.dollar = '$' in f.prefix
            f.positions = len(f.intpos) + f.decimals + (2 if f.stars else 0) + (
                1 if f.prefix == '$$' else 0)
            # mantissa digit positions of a ^^^^ field: one position left of the point goes to the
            # sign unless the field has its own sign token (or a $)
            before = len(f.intpos) + (2 if f.stars else 0) + (1 if f.prefix == '$$' else 0)
            reserve = 0 if (f.lead_plus or f.trail or f.dollar) else 1
            f.sci_digits = max(0, before - reserve) + f.decimals
            i = m.end()
        elif c in SAFE or c == ' ':
            lit += c
            i += 1
            continue
        else:
            return None
        if lit:
            items.append(('lit', lit))
            lit = ''
        items.append((f.kind, f))
    if lit:
        items.append(('lit', lit))
    return items


# --------------------------------------------------------------------------------------------
# oracle for one numeric field

FIXED_RE = re.compile(r'^([+-]?)(\$?)([+-]?)([\d,]*)(\.?)(\d*)([-+ ]?)$')
SCI_RE = re.compile(r'^([+-]?)(\$?)([+-]?)(\d*)(\.?)(\d*)([ED])([+-])(\d\d)([-+ ]?)$')
GROUPED = re.compile(r'^\d{1,3}(,\d{3})*$')


def fixed_below_last_decimal_region(v, decimals):
    """
    finding using.fixed.round-below-last-decimal: fixed-point field with decimals whose value has
    its leading digit exactly one place beyond the last shown decimal (should round to 0 or 1 unit).
    """
    return v != 0 and decimals >= 1 and dectext.exp10_of(v) == -(decimals + 1)


def sci_carry_region(v, ndigits, prec):
    """
    finding using.sci.carry-to-pow10: |v| rounded to the shown number of mantissa digits (at most
    the type's precision) carries into the next power of ten.
    """
    if v == 0 or ndigits <= 0:
        return False
    m = min(ndigits, prec)
    k = dectext.exp10_of(v)
    x = abs(v) / dectext.ten(k - m + 1)
    return x >= 10 ** m - Fraction(3, 2)


def judge_number(res, f, out, b, strict):
    v = mbf.decode(b)
    neg = v < 0
    prec = PREC_DIGITS[len(b)]
    where = 'field %r value %s (%s)' % (f.text, bytes(b).hex(), _sci(v))
    W = f.width
    overflow = out.startswith('%')
    body = out[1:] if overflow else out
    if not overflow and len(out) != W:
        res.fail('using.width', '%s -> %r: %d characters, field declares %d' % (
            where, out, len(out), W))
        return
    if overflow and len(body) <= W:
        res.fail('using.percent-fits', '%s -> %r: %% although the rest fits %d' % (where, out, W))
    fill = '*' if f.stars else ' '
    core = body.lstrip(fill) if not overflow else body
    if overflow and body[:1] in (' ', '*'):
        res.fail('using.overflow-padded', '%s -> %r' % (where, out))
        return
    if not overflow and not f.stars and '*' in body:
        res.fail('using.shape', '%s -> %r: * fill without ** in the field' % (where, out))
        return
    res.label('using.overflow' if overflow else 'using.fits')
    m = (SCI_RE if f.sci else FIXED_RE).match(core)
    if not m:
        res.fail('using.shape', '%s -> %r: not %s' % (where, out, 'mantissaE+xx' if f.sci else
                                                       'a fixed-point number'))
        return
    if f.sci:
        s1, dol, s2, ip, dot, fp, eletter, esign, edigits, ts = m.groups()
    else:
        s1, dol, s2, ip, dot, fp, ts = m.groups()
    if s1 and s2:
        res.fail('using.shape', '%s -> %r: two leading signs' % (where, out))
        return
    lead = s1 or s2
    # $ and signs
    if bool(dol) != f.dollar:
        res.fail('using.dollar', '%s -> %r' % (where, out))
    want_lead, want_trail = '', ''
    if f.lead_plus:
        want_lead = '-' if neg else '+'
    elif f.trail == '+':
        want_trail = '-' if neg else '+'
    elif f.trail == '-':
        want_trail = '-' if neg else ' '
    else:
        want_lead = '-' if neg else ''
    if lead != want_lead or ts != want_trail:
        res.fail('using.sign', '%s -> %r: expected leading %r trailing %r' % (
            where, out, want_lead, want_trail))
    # point and decimals
    if bool(dot) != f.dot or len(fp) != f.decimals:
        res.fail('using.decimals', '%s -> %r: expected %s%d decimals' % (
            where, out, 'a point and ' if f.dot else 'no point, ', f.decimals))
        return
    # integer part
    idigits = ip.replace(',', '')
    if ',' in ip and (f.sci or not f.comma):
        res.fail('using.commas', '%s -> %r: unexpected comma' % (where, out))
    elif f.comma and not f.sci and ip and not GROUPED.match(ip):
        res.fail('using.commas', '%s -> %r: not grouped in threes' % (where, out))
    if len(idigits) > 1 and idigits[0] == '0' and not f.sci:
        res.fail('using.shape', '%s -> %r: leading zeros' % (where, out))
    if f.sci and f.sci_digits == 0 and v != 0:
        # the sign reservation leaves no mantissa digit position: nothing of the value's digits is
        # shown ('#^^^^' -> ' E+01', '#.^^^^' -> '0.E+01' with the 0 a mere placeholder of the
        # 0.d form), so there is nothing to compare digits with. Checked: placeholder only, and an
        # exponent for which the hidden mantissa |v|/10^e is below 1 (e >= floor(log10|v|)+1; one
        # more if rounding carries; values below 1 may also be scaled by 10^0).
        res.label('using.sci-no-digit-positions')
        res.nt(True)
        if idigits not in ('', '0') or fp:
            res.fail('using.shape', '%s -> %r: digits in a field without digit positions' % (
                where, out))
            return
        e = int(edigits) * (-1 if esign == '-' else 1)
        k = dectext.exp10_of(v)
        if not (k + 1 <= e <= max(k + 2, 0)):
            res.fail('using.sci-exponent', '%s -> %r: exponent %d, expected %d or %d' % (
                where, out, e, k + 1, k + 2))
        if eletter != ('D' if len(b) == 8 else 'E'):
            res.fail('using.expletter', '%s -> %r' % (where, out))
        return
    if not idigits and not fp:
        # no digits at all otherwise: only zero in a ^^^^ field (GW shows E+00 / .E+00)
        if v == 0 and (f.sci or dot):
            # zero: E+00 / .E+00 in a ^^^^ field, a bare point in a field without decimals
            res.label('using.zero-no-digits')
        else:
            res.fail('using.shape', '%s -> %r: no digits' % (where, out))
        return
    if not idigits and not dot:
        res.fail('using.shape', '%s -> %r: no digits' % (where, out))
        return
    # never overflow in scientific notation when the sign has a place
    if f.sci and overflow and not f.dollar and (f.lead_plus or f.trail or len(f.intpos) >= 1
                                                 or f.stars):
        res.fail('using.sci-overflow', '%s -> %r' % (where, out))
    # digits
    shown = Fraction(int((idigits + fp) or '0')) * dectext.ten(-len(fp))
    unit = dectext.ten(-len(fp))
    if f.sci:
        e = int(edigits)
        if esign == '-':
            e = -e
        shown *= dectext.ten(e)
        unit *= dectext.ten(e)
        want_letter = 'D' if len(b) == 8 else 'E'
        if eletter != want_letter:
            res.fail('using.expletter', '%s -> %r' % (where, out))
    if v == 0:
        if shown != 0:
            res.fail('using.digits', '%s -> %r: zero shown as non-zero' % (where, out))
        return
    k = dectext.exp10_of(v)
    u_sig = dectext.ten(k - (prec - 1))
    err = abs(shown - abs(v))
    # non-trivial: needs rounding at the shown decimals, or overflow, or a decorated field
    needs_rounding = (abs(v) / unit).denominator != 1
    res.nt(needs_rounding or overflow or f.sci or f.comma or f.dollar or f.stars or f.lead_plus
           or bool(f.trail))
    if needs_rounding:
        res.label('using.rounded')
    if err * 2 > unit + 2 * u_sig:
        msg = '%s -> %r: shown %s, off by %.4f units of the last shown digit' % (
            where, out, _sci(shown), float(err / unit))
        if f.sci and sci_carry_region(v, len(idigits) + len(fp), prec):
            fail_known(res, 'using.sci.carry-to-pow10', msg, strict)
        elif not f.sci and fixed_below_last_decimal_region(v, f.decimals) and shown == 0:
            fail_known(res, 'using.fixed.round-below-last-decimal', msg, strict)
        else:
            res.fail('using.digits', msg)


def fail_known(res, key, msg, strict=True):
    """
    A failure inside the region of a (now fixed) finding keeps that finding's own bucket key, so a
    regression of one of those fixes is reported under its name; nothing is excluded any more.
    """
    res.fail(key, msg)


def _sci(x):
    try:
        return '%.17g' % float(x)
    except OverflowError:
        return str(x)


def judge_string(res, f, out, s):
    if f.text == '&':
        want = [s]
    elif f.text == '!':
        want = [s[:1] or ' '] if s else ['', ' ']
    else:
        want = [s.ljust(f.width)[:f.width]]
    res.nt(f.text != '&' and len(s) != f.width)
    res.label('using.string')
    if out not in want:
        res.fail('using.string', 'field %r string %r -> %r expected %r' % (f.text, s, out, want[0]))


# --------------------------------------------------------------------------------------------
# running one case

_SH = {}


def _shared():
    s = _SH.get('s')
    if s is not None and _SH.get('pid') != os.getpid():
        # inherited through fork from the parent: never share (or close) another process's sandbox
        s = None
    if s is None or _SH['n'] > 400:
        if s is not None:
            s.close()
        _SH['pid'] = os.getpid()
        s = harness.Sess()
        _SH['s'] = s
        _SH['n'] = 0
    _SH['n'] += 1
    return s


CV = {2: 'CVI', 4: 'CVS', 8: 'CVD'}


def run_using(s, fmt, vals, screen=False):
    """Execute the statement; -> (Outcome, text written)."""
    s.set('F$', fmt.encode('latin-1'))
    args = []
    for i, (t, payload) in enumerate(vals):
        name = 'V%d$' % i
        if t == 'n':
            b = bytes.fromhex(payload)
            s.set(name, b)
            args.append('%s(%s)' % (CV[len(b)], name))
        else:
            s.set(name, payload.encode('latin-1'))
            args.append(name)
    if screen:
        o = s.execute(('CLS:PRINT USING F$;' + ';'.join(args)).encode())
        return o, o.output.decode('latin-1')
    o = s.execute(('CLOSE:OPEN "O",1,"U":PRINT#1,USING F$;' + ';'.join(args) + ';').encode())
    # a separate statement: an error above ends the line, the output so far must still be there
    s.execute(b'CLOSE')
    try:
        with open(s.sandbox.z + '/U', 'rb') as f:
            text = f.read().decode('latin-1')
    except OSError:
        text = ''
    if text.endswith('\x1a'):
        text = text[:-1]
    return o, text


def check_case(case):
    res = Result()
    fmt = case['fmt']
    vals = case['vals']
    strict = case.get('strict', False)
    items = read_format(fmt)
    if items is None:
        res.label('using.malformed-case')
        return res
    fields = [it for it in items if it[0] != 'lit']
    if not fields:
        res.label('using.no-fields')
        return res
    s = _shared()
    o, text = run_using(s, fmt, vals)
    if o.kind == 'budget':
        res.inconclusive = True
        return res
    if o.kind != 'ok':
        _SH['n'] = 10 ** 6
        res.fail('escaped.%s@%s' % (o.exc, o.frame), '%r %r -> %r' % (fmt, vals, o))
        return res
    # type agreement between fields and values is built in by the generator
    # walk the format as the manual describes and cut the output
    cycle = []          # (literal before, field, literal after)
    pre = ''
    cur = None
    for kind, x in items:
        if kind == 'lit':
            if cur is None:
                pre += x
            else:
                cur[2] += x
        else:
            if cur is not None:
                cycle.append(tuple(cur))
                cur = ['', x, '']
            else:
                cur = [pre, x, '']
    cycle.append(tuple(cur))
    pos = 0
    stopped = None
    for i, (t, payload) in enumerate(vals):
        lit0, f, lit1 = cycle[i % len(cycle)]
        if (t == 'n') != (f.kind == 'num'):
            res.label('using.type-mismatch-case')
            return res
        if f.kind == 'num' and f.positions > 24:
            stopped = i
            break
        if not text.startswith(lit0, pos):
            res.fail('using.literal', '%r %r -> %r: expected literal %r at %d' % (
                fmt, vals, text, lit0, pos))
            return res
        pos += len(lit0)
        if f.kind == 'num':
            if not lit1 or lit1[0] not in SAFE:
                res.label('using.malformed-case')
                return res
            end = text.find(lit1[0], pos)
            if end < 0:
                res.fail('using.literal', '%r %r -> %r: literal %r after value %d missing' % (
                    fmt, vals, text, lit1, i))
                return res
            judge_number(res, f, text[pos:end], bytes.fromhex(payload), strict)
            pos = end
        else:
            sval = payload
            if f.text == '&':
                n = len(sval)
            elif f.text == '!':
                # an empty string may give nothing or one blank (the next literal starts with a
                # character from SAFE, never a blank)
                n = 1 if sval or text[pos:pos + 1] == ' ' else 0
            else:
                n = f.width
            judge_string(res, f, text[pos:pos + n], sval)
            pos += n
        if not text.startswith(lit1, pos):
            res.fail('using.literal', '%r %r -> %r: expected literal %r at %d' % (
                fmt, vals, text, lit1, pos))
            return res
        pos += len(lit1)
    if stopped is not None:
        res.nt(True)
        res.label('using.gt24-positions')
        if o.err != 5:
            res.fail('using.gt24-no-error', '%r -> %r: expected Illegal function call' % (fmt, o))
        return res
    if o.errors:
        res.fail('using.error', '%r %r -> %r' % (fmt, vals, o))
        return res
    if text[pos:] != '':
        res.fail('using.literal', '%r %r -> %r: unexpected tail %r' % (fmt, vals, text, text[pos:]))
        return res
    if len(vals) > len(cycle):
        res.label('using.cycled')
    # the screen device must show the same characters (short outputs only: no line wrap)
    if case.get('screen') and len(text) < 75 and all(32 <= ord(c) < 127 for c in text):
        o2, t2 = run_using(s, fmt, vals, screen=True)
        res.label('using.screen')
        if o2.kind != 'ok' or t2.replace('\r\n', '') != text:
            res.fail('using.screen-differs', '%r %r: file %r screen %r' % (fmt, vals, text, t2))
    return res


# --------------------------------------------------------------------------------------------
# generation

def nearest_pattern(x, n):
    if x == 0:
        return bytes(n)
    v = mbf.nearest(x, n)
    try:
        return mbf.encode_value(v, n)
    except ValueError:
        return None


DIGIT_SHAPES = ['r', 'r', 'r', '9', '5', '1', '49', '95']


def make_value(t, k, shape, d, neg):
    """type 2/4/8, decimal exponent k of the leading digit, digit-string shape -> hex pattern."""
    nd = 1 + d % 17
    if shape == 'r':
        digits = str(d % (10 ** nd)).rjust(nd, '0')
        if digits[0] == '0':
            digits = '7' + digits[1:]
    elif shape == '9':
        digits = '9' * nd
    elif shape == '5':
        digits = str(d % 1000 + 1) + '5'
    elif shape == '1':
        digits = '1' + '0' * (nd - 1)
    elif shape == '49':
        digits = str(d % 100 + 1) + '4' + '9' * (nd % 8 + 1)
    else:
        digits = '9' * (nd % 7 + 1) + '5'
    x = Fraction(int(digits)) * dectext.ten(k - (len(digits) - 1))
    if neg:
        x = -x
    if t == 2:
        iv = int(x)
        iv = max(-32768, min(32767, iv))
        return mbf.int16_bytes(iv).hex()
    b = nearest_pattern(x, t)
    if b is None:
        b = nearest_pattern(Fraction(-7 if neg else 7), t)
    return b.hex()


def strat_numfield():
    def build(lead, prefix, nint, commas, dot, dec, sci, trail, big, zsci):
        if zsci:
            # deliberately: ^^^^ field whose only position goes to the sign
            return '#.^^^^' if dot else '#^^^^'
        total_pre = {'': 0, '**': 2, '$$': 1, '**$': 2}[prefix]
        if big:
            nint = 25 + nint % 4
            dec = 0
            prefix = ''
            total_pre = 0
        if not big:
            nint = min(nint, 22 - total_pre)
            dec = min(dec, 22 - total_pre - nint)
        ip = ['#'] * nint
        for c in commas:
            if nint > 1:
                ip[1 + c % (nint - 1)] = ','
        ip = ''.join(ip)
        if nint == 0 and not prefix:
            dot, dec = True, max(dec, 1)
        text = ('+' if lead else '') + prefix + ip + ('.' + '#' * dec if dot else '') + (
            '^^^^' if sci else '') + ('' if lead else trail)
        return text
    return st.builds(build, st.booleans(), st.sampled_from(['', '', '', '**', '$$', '**$']),
                     st.integers(0, 14), st.lists(st.integers(0, 30), max_size=3),
                     st.booleans(), st.integers(0, 10), st.sampled_from([False, False, True]),
                     st.sampled_from(['', '', '+', '-']),
                     st.sampled_from([False] * 24 + [True]),
                     st.sampled_from([False] * 19 + [True]))


def strat_literal(first_safe):
    ch = st.one_of(st.sampled_from(list(SAFE + ' ')),
                   st.sampled_from(list(ESCAPABLE)).map(lambda c: '_' + c))
    rest = st.lists(ch, max_size=3).map(''.join)
    if first_safe:
        return st.builds(lambda a, r: a + r, st.sampled_from(list(SAFE)), rest)
    return rest


def strat_strfield():
    return st.one_of(st.just('!'), st.just('&'),
                     st.integers(0, 20).map(lambda n: '\\' + ' ' * n + '\\'))


@st.composite
def strat_case(draw):
    nfields = draw(st.sampled_from([1, 1, 1, 2, 2, 3, 4]))
    fmt = draw(strat_literal(False))
    specs = []
    for _ in range(nfields):
        if draw(st.integers(0, 9)) < 8:
            ftxt = draw(strat_numfield())
            specs.append(('n', ftxt))
        else:
            ftxt = draw(strat_strfield())
            specs.append(('s', ftxt))
        fmt += ftxt + draw(strat_literal(True))
    nvals = draw(st.integers(1, 8))
    vals = []
    for i in range(nvals):
        kind, ftxt = specs[i % nfields]
        if kind == 's':
            n = draw(st.one_of(st.integers(0, 6), st.integers(0, 255)))
            s = draw(st.text(st.characters(min_codepoint=32, max_codepoint=255), min_size=n,
                             max_size=n))
            vals.append(['s', s])
            continue
        m = NUMFIELD.match(ftxt)
        nint = len(m.group(3) or '') + {'': 0, '**': 2, '$$': 1, '**$': 2}[m.group(2) or '']
        dec = len(m.group(5) or '')
        t = draw(st.sampled_from([4, 4, 4, 8, 8, 2]))
        mode = draw(st.integers(0, 19))
        if mode < 12:
            k = draw(st.integers(-dec - 3, min(nint, 24) + 2))
        elif mode < 16:
            k = draw(st.integers(nint - 2, nint + 1))        # around the integer capacity
        elif mode < 18:
            k = draw(st.integers(-dec - 1, -dec + 1))        # around the last decimal
        else:
            k = draw(st.integers(-39, 38))
        if t == 2:
            k = min(k, 4)
        shape = draw(st.sampled_from(DIGIT_SHAPES))
        d = draw(st.integers(0, 10 ** 17))
        neg = draw(st.sampled_from([False, False, True]))
        if draw(st.integers(0, 40)) == 0:
            vals.append(['n', bytes(t).hex()])
        else:
            vals.append(['n', make_value(t, k, shape, d, neg)])
    return {'fmt': fmt, 'vals': vals, 'screen': draw(st.integers(0, 3)) == 0}


def units(tier):
    return [
        Unit('using', 'hyp', shards=16, examples={'quick': 250, 'thorough': 8000},
             strategy=strat_case),
    ]


REGRESSIONS = [
    {'fmt': '##.##|', 'vals': [['n', '00002084']]},
    {'fmt': 'a#,###.##-|x$$##.#^^^^|', 'vals': [['n', '00002084'], ['n', '000000000000a083']]},
    {'fmt': '!|&|\\  \\|', 'vals': [['s', 'hello'], ['s', 'hello'], ['s', 'hello'], ['s', '']]},
    {'fmt': '###.##|', 'vals': [['n', 'a4ff798a']]},
    # oracle fix: no mantissa digit position left after the sign reservation (not a defect)
    {'fmt': '#.^^^^a.#a', 'vals': [['n', '00006083']]},
    {'fmt': '#^^^^a#.^^^^b', 'vals': [['n', '00006083'], ['n', '0000e083'], ['n', '0ad7237b'],
                                    ['n', '9a991984'], ['n', '000000000000a083']]},
    # fixed 81d93a78: a value whose first digit is just beyond the last decimal is never rounded up:
    # .007 in "#.##" shows 0.00
    {'fmt': '#.##|#.#|#.###|', 'vals': [['n', '42606579'], ['n', '295c0f7d'], ['n', '42606579']]},
    # fixed f381997f: rounding the mantissa up to the next power of ten in a ^^^^ field leaves the exponent
    # unchanged: 9.996 in "+#.##^^^^" shows +1.00E+00
    {'fmt': '+#.##^^^^|##.##^^^^|', 'vals': [['n', '9eef1f84'], ['n', '7dff4787']]},
]

KILLS = [
    'formatter.py rjust -> ljust -> using.shape + using.sign',
    "formatter.py drop the '%' -> using.width",
    "formatter.py sign reservation 'digits_before -= 1' removed -> using.sci-overflow",
    'numbers.py _group_thousands every 4 -> using.commas',
    'numbers.py to_str_fixed n_work one digit short -> using.shape / using.digits',
    'fix f381997f reverse-applied -> using.sci.carry-to-pow10 (generated cases)',
    'fix 81d93a78 reverse-applied -> using.fixed.round-below-last-decimal (generated cases)',
]
