"""
C27 - BASIC file access stays inside the mounted drives.

Per case a small host tree is built inside the case's sandbox:

    <root>/TOP.TXT, ZQCANARY.OUT                       (sentinels two levels above the mount)
    <root>/outside/SECRET.TXT SECRET.BAS SECRET SECRET.BIN ZQCANARY.OUT
    <root>/outside/DIR/INNER.TXT ZQCANARY.OUT          (unmounted sibling directory)
    <root>/outside/mountX/X.TXT ZQCANARY.OUT           (unmounted sibling whose name has the mount's
                                                        name as a prefix)
    <root>/outside/mount/...                           drive C:  (IN.TXT PROG.BAS SUB/ SUB/SUB2/ ...)
    <root>/outside/mount2/...                          drive D:

and a history of file statements with generated path strings is executed in one session.
Three independent observations decide the property:

 (1) vlib.fsmon: every host file-system operation raised (PEP 578 audit events) while BASIC
     statements execute must name a path inside a mounted root (read-only opens under the Python
     installation / the pcbasic package are allow-listed for lazy imports);
 (2) effect check after every statement: the tree outside the mounts is byte-for-byte unchanged;
 (3) nothing BASIC can see (console output, the string read from an opened file, program listing)
     contains the content token of the outside files or the name of the canary file that sits in
     every outside directory.
"""
import os
import re
import atexit
import shutil
import struct

from hypothesis import strategies as st

from vlib.core import Result, Unit
from vlib import harness
from vlib import fsmon
from vlib import wallsess

ID = 'C27'
LEVEL = 'exploration'
RULE = ("Histories of 1-7 file statements (OPEN input/output/append/random, LOAD, SAVE [,A|,P], "
        "MERGE, CHAIN, RUN, BLOAD, BSAVE, KILL, NAME, FILES, MKDIR, RMDIR, CHDIR) in one session "
        "with two mounted drives and an initial working directory at depth 0-2, each with a path "
        "string drawn from a grammar over drive prefixes (mounted, unmounted, malformed), "
        "'\\' '/' separators, '..' chains (also behind existing sub-directories), '.', dotted "
        "variants with blanks, names of the sentinels / sibling directories / the mount directory "
        "itself, wildcards, long, high-byte and NUL names, native absolute paths of the sentinels, "
        "and short random strings over the same alphabet; every case ends with FILES on both "
        "drives so that a working directory that escaped is observed. Non-trivial: some path "
        "contains '..', a separator, a wildcard or a drive letter and its statement reached the "
        "device layer (a host file-system event was seen, a BASIC error other than Syntax error "
        "was raised, or a CHDIR succeeded). Distinct = distinct history.")
ASSUMPTIONS = [
    "no symbolic links inside or next to the mounted trees (the generator creates none)",
    "a path inside *any* mounted tree counts as inside (C: reaching D:'s tree through the host "
    "directory structure would not be reported; the layout makes the mounts siblings, so that "
    "route needs an escape that is reported anyway)",
    "existence probes (stat/isfile/isdir) raise no audit event and are not observed; reading, "
    "listing, creating, modifying, renaming, deleting are",
    "read-only opens/listings below sys.prefix, the standard library and the pcbasic package are "
    "allow-listed (lazy imports); os.devnull is allow-listed",
    "SHELL is not one of the statements of the property and is disabled in the harness session",
    "an operation addressed to a path outside the mounts counts as a violation even when the host "
    "OS happens to refuse it (e.g. rmdir of the non-empty parent of the mount root): only the OS, "
    "not the interpreter, prevented the effect; such refused attempts are keyed separately "
    "('basename-dotdot.attempt')",
]
TECHNIQUE = ("Hypothesis statement/path histories against an audit-hook file-system monitor, "
             "sentinel-tree snapshots and output canaries")

TOKEN = b'XQ7-OUTSIDE-SENTINEL'
CANARY = 'ZQCANARY.OUT'
INSIDE_TEXT = b'inside-the-mount'
_WS = b' \t\n\r\x0b\x0c'


# --------------------------------------------------------------------------------------------
# host tree

def _w(path, data):
    with open(path, 'wb') as f:
        f.write(data)


_BIN_PAYLOAD = TOKEN + b'-BIN'
TREE_DIRS = [
    'z', 'outside', 'outside/DIR', 'outside/mountX',
    'outside/mount', 'outside/mount/SUB', 'outside/mount/SUB/SUB2', 'outside/mount/LongDirName',
    'outside/mount/EMPTY', 'outside/mount2', 'outside/mount2/DSUB',
]
TREE_FILES = {
    'TOP.TXT': TOKEN + b' top\r\n',
    CANARY: TOKEN,
    'outside/SECRET.TXT': TOKEN + b' secret text\r\n',
    'outside/SECRET.BAS': b'10 PRINT "' + TOKEN + b'"\r\n20 A$="' + TOKEN + b'"\r\n',
    'outside/SECRET': TOKEN + b' no extension\r\n',
    'outside/SECRET.BIN': (b'\xfd' + struct.pack('<HHH', 0xb800, 0, len(_BIN_PAYLOAD))
                           + _BIN_PAYLOAD + b'\x1a'),
    'outside/' + CANARY: TOKEN,
    'outside/DIR/INNER.TXT': TOKEN + b' INNER.TXT\r\n',
    'outside/DIR/' + CANARY: TOKEN,
    'outside/mountX/X.TXT': TOKEN + b' X.TXT\r\n',
    'outside/mountX/' + CANARY: TOKEN,
    'outside/mount/IN.TXT': INSIDE_TEXT + b' IN\r\n',
    'outside/mount/PROG.BAS': b'10 PRINT "' + INSIDE_TEXT + b'"\r\n',
    'outside/mount/LongFileName.text': INSIDE_TEXT + b' long\r\n',
    'outside/mount/SUB/DEEP.TXT': INSIDE_TEXT + b' DEEP\r\n',
    'outside/mount/SUB/PROG.BAS': b'10 PRINT "' + INSIDE_TEXT + b' sub"\r\n',
    'outside/mount/SUB/SUB2/X.TXT': INSIDE_TEXT + b' X\r\n',
    'outside/mount/LongDirName/L.TXT': INSIDE_TEXT + b' L\r\n',
    'outside/mount2/D.TXT': INSIDE_TEXT + b' D\r\n',
    'outside/mount2/DSUB/E.TXT': INSIDE_TEXT + b' E\r\n',
}


def reset_tree(root):
    """
    Bring the host tree under `root` to exactly TREE_DIRS + TREE_FILES (creating it if needed).
    The tree is reused by all cases of one process because removing directories is slow on the
    sandbox file system; every case starts from a verified pristine state.
    """
    want_dirs = set(TREE_DIRS)
    seen_files = set()
    seen_dirs = set()
    stack = ['']
    while stack:
        rel = stack.pop()
        for e in list(os.scandir(os.path.join(root, rel))):
            r = (rel + '/' + e.name) if rel else e.name
            if e.is_dir(follow_symlinks=False):
                if r in want_dirs:
                    seen_dirs.add(r)
                    stack.append(r)
                else:
                    shutil.rmtree(e.path)
            elif r in TREE_FILES and not e.is_symlink():
                with open(e.path, 'rb') as f:
                    same = f.read() == TREE_FILES[r]
                if not same:
                    os.remove(e.path)
                else:
                    seen_files.add(r)
            else:
                os.remove(e.path)
    for d in TREE_DIRS:                      # parents come first in the list
        if d not in seen_dirs:
            os.mkdir(os.path.join(root, d))
    for r, data in TREE_FILES.items():
        if r not in seen_files:
            _w(os.path.join(root, r), data)


_SHARED = {}


def shared_sandbox():
    """One sandbox directory per process (forked workers build their own)."""
    if _SHARED.get('pid') != os.getpid():
        sb = harness.Sandbox()
        _SHARED.clear()
        _SHARED.update(pid=os.getpid(), sb=sb)
        atexit.register(_close_shared, os.getpid())
    return _SHARED['sb']


def _close_shared(pid):
    if _SHARED.get('pid') == pid == os.getpid():
        _SHARED['sb'].close()
        _SHARED.clear()


def build_tree(root):
    """Reset the host tree; returns (mountC, mountD, outside)."""
    reset_tree(root)
    out = os.path.join(root, 'outside')
    return os.path.join(out, 'mount'), os.path.join(out, 'mount2'), out


CWD0 = ['', 'SUB', os.path.join('SUB', 'SUB2')]

# --------------------------------------------------------------------------------------------
# statements

KINDS = {
    # kind: statement text (P$ = path, Q$ = second path); all run in direct mode
    'OPEN_I': b'OPEN P$ FOR INPUT AS 1:LINE INPUT#1,A$:CLOSE 1',
    'OPEN_I2': b'OPEN "I",#1,P$:A$=INPUT$(8,1):CLOSE 1',
    'OPEN_O': b'OPEN P$ FOR OUTPUT AS 1:PRINT#1,"BASIC-WROTE-THIS":CLOSE 1',
    'OPEN_O2': b'OPEN "O",1,P$:PRINT#1,"BASIC-WROTE-THIS":CLOSE 1',
    'OPEN_A': b'OPEN P$ FOR APPEND AS 1:PRINT#1,"BASIC-APPENDED":CLOSE 1',
    'OPEN_R': b'OPEN P$ AS 1 LEN=16:FIELD 1,16 AS F$:GET 1,1:A$=F$:LSET F$="BASIC-RANDOM":PUT 1,1'
              b':CLOSE 1',
    'OPEN_R2': b'OPEN "R",1,P$,32:FIELD 1,32 AS F$:GET 1,1:A$=F$:CLOSE 1',
    'LOAD': b'LOAD P$',
    'SAVE': b'SAVE P$',
    'SAVE_A': b'SAVE P$,A',
    'SAVE_P': b'SAVE P$,P',
    'MERGE': b'MERGE P$',
    'CHAIN': b'CHAIN P$',
    'CHAIN_M': b'CHAIN MERGE P$,10',
    'RUN': b'RUN P$',
    'BLOAD': b'DEF SEG=&HB800:BLOAD P$,0',
    'BSAVE': b'DEF SEG=&HB800:BSAVE P$,0,16',
    'KILL': b'KILL P$',
    'NAME': b'NAME P$ AS Q$',
    'FILES': b'CLS:FILES P$',
    'FILES0': b'CLS:FILES',
    'MKDIR': b'MKDIR P$',
    'RMDIR': b'RMDIR P$',
    'CHDIR': b'CHDIR P$',
}
LISTS_AFTER = {'LOAD', 'MERGE', 'CHAIN', 'CHAIN_M', 'RUN'}
# statements whose final path component is resolved through DiskDevice._get_native_abspath
SENTINEL_PROGRAM = b'10 REM program in memory'


def subst(path, out):
    """Case string -> bytes with the native-path placeholders filled in."""
    b = path.encode('latin-1', 'replace')
    nat = os.fsencode(out)
    b = b.replace(b'{OUT}', nat).replace(b'{OUTB}', nat.replace(b'/', b'\\'))
    return b[:255]


def elements_of(pathbytes):
    return re.split(b'[\\\\/:]', pathbytes)


def in_dotdot_blank_region(pathbytes):
    """
    Known defect region: some path element is '..' followed by trailing ASCII white space
    (the element survives ntpath.normpath and the leading-dots clamp, then has its white space
    stripped and is joined to the native path as a literal '..').
    """
    for e in elements_of(pathbytes):
        s = e.rstrip(_WS)
        if s != e and s == b'..':
            return True
    return False


def basename_is_dotdot(pathbytes):
    """Final component (after the last separator / drive colon) is '..' up to trailing blanks."""
    return elements_of(pathbytes)[-1].rstrip(_WS) == b'..'


def path_features(pathbytes):
    f = []
    if b'..' in pathbytes:
        f.append('p:dotdot')
    if b'\\' in pathbytes:
        f.append('p:backslash')
    if b'/' in pathbytes:
        f.append('p:slash')
    if b'*' in pathbytes or b'?' in pathbytes:
        f.append('p:wild')
    if b':' in pathbytes:
        f.append('p:drive')
    if b'\x00' in pathbytes:
        f.append('p:nul')
    if any(c >= 0x80 for c in pathbytes):
        f.append('p:high')
    if b'SECRET' in pathbytes.upper() or b'TOP.TXT' in pathbytes.upper() \
            or b'INNER' in pathbytes.upper():
        f.append('p:names-sentinel')
    if pathbytes.startswith(b'/') and b'outside' in pathbytes:
        f.append('p:native-abs')
    return f


def is_structured(pathbytes):
    return any(x in pathbytes for x in (b'..', b'\\', b'/', b'*', b'?', b':'))


# --------------------------------------------------------------------------------------------
# the oracle

_ALLOW = []


def _allowed_reads():
    """Python installation + pcbasic package (lazy imports) + this framework's own sources
    (traceback formatting of an escaped exception reads vlib/harness.py through linecache)."""
    if not _ALLOW:
        _ALLOW.extend(fsmon.default_allowed_read_roots())
        _ALLOW.append(os.path.realpath(os.path.join(harness.VERIF_DIR, 'vlib')))
    return _ALLOW


def check_case(case):
    res = Result()
    wallsess.reset()
    res = _check(case, res, shared_sandbox())
    if wallsess.hit():
        # the runner's per-case wall limit cut a statement short: nothing observed afterwards
        # can be trusted
        res = Result()
        res.inconclusive = True
        res.label('case-wall-limit')
    return res


def _check(case, res, sb):
    mc, md, out = build_tree(sb.root)
    cwd0 = CWD0[case.get('cwd0', 0) % len(CWD0)]
    mon = fsmon.Monitor([mc, md], _allowed_reads(), fence=sb.root)
    prune = [mc, md, sb.z]
    before = fsmon.snapshot(sb.root, prune)
    spec_c = mc + (':' + cwd0 if cwd0 else '')
    ops = list(case['ops']) + [{'k': 'FILES0'}, {'k': 'FILES', 'p': 'D:'}]
    known_a = False           # a path in the dotdot-blank region was used earlier in this history
    nontrivial = False
    sess = wallsess.WallSess(sandbox=sb, budget=4000, video='cga',
                        devices={'C': spec_c, 'D': md, 'Z': None},
                        current_device='C:')
    try:
        with mon.armed():
            sess.execute(SENTINEL_PROGRAM)
        mon.drain()
        for i, op in enumerate(ops):
            kind = op['k']
            p = subst(op.get('p', ''), out)
            q = subst(op.get('q', ''), out)
            final = i >= len(case['ops'])
            used = [p] + ([q] if kind == 'NAME' else [])
            if any(in_dotdot_blank_region(x) for x in used):
                known_a = True
            known_b = any(basename_is_dotdot(x) for x in used)
            sess.set('P$', p)
            sess.set('Q$', q)
            sess.set('A$', b'')
            outputs = []
            escaped = None
            budget = False
            with mon.armed():
                o = sess.execute(KINDS[kind])
                outputs.append(o.output)
                main_o = o
                if o.kind == 'escaped':
                    escaped = o
                budget = budget or o.kind == 'budget'
                if kind in LISTS_AFTER:
                    o2 = sess.execute(b'CLS:LIST')
                    outputs.append(o2.output)
                    budget = budget or o2.kind == 'budget'
                o3 = sess.execute(b'CLOSE')
                if o3.kind == 'escaped' and escaped is None:
                    escaped = o3
            try:
                a_str = sess.get('A$')
            except Exception:       # variable table cleared by LOAD etc. is fine; so is anything else
                a_str = b''
            events = mon.drain()
            after = fsmon.snapshot(sb.root, prune)
            diffs = fsmon.diff_snapshots(before, after)
            before = after
            # ---- classification / labels
            where = [mon.where(e) for e in events]
            n_out = where.count('outside')
            if not final:
                res.label('k:' + kind, 'err:%d' % main_o.err)
                res.label(*path_features(p))
                res.label('ev:outside' if n_out else ('ev:inside' if 'inside' in where else
                                                     ('ev:allowed-only' if where else 'ev:none')))
                if known_a:
                    res.label('region:dotdot-blank')
                if known_b:
                    res.label('region:basename-dotdot')
                reached = bool(events) or (main_o.err not in (0, 2)) or (
                    kind == 'CHDIR' and main_o.err == 0)
                if reached and any(is_structured(x) for x in used):
                    nontrivial = True
            if budget:
                res.inconclusive = True
                res.label('budget')
            desc = '%s P$=%r%s [op %d of %r, cwd0=%r]' % (
                KINDS[kind].decode(), p, (' Q$=%r' % q) if kind == 'NAME' else '', i,
                [(x['k'], x.get('p', ''), x.get('q', '')) for x in case['ops']], cwd0)
            # ---- (0) escaped exceptions
            if escaped is not None and escaped.exc == 'CaseTimeout':
                # the runner's per-case wall limit fired inside the interpreter: inconclusive
                res.inconclusive = True
                res.label('case-wall-limit')
                break
            if escaped is not None:
                res.fail('escaped.%s@%s' % (escaped.exc, escaped.frame),
                         '%s -> %s\n%s' % (desc, escaped, escaped.tb))
            # ---- (1) monitor
            parent = os.path.realpath(out)
            for e, w in zip(events, where):
                if w != 'outside':
                    continue
                if known_a:
                    key = 'dotdot-blank.escape'
                elif known_b and all(rp == parent for rp in e.resolved) and not diffs:
                    key = 'basename-dotdot.attempt'
                else:
                    key = 'fsmon.%s.outside' % ('write' if e.write else 'read')
                res.fail(key, '%s: host operation outside the mounts: %r (resolved %r)' % (
                    desc, e, e.resolved))
            # ---- (2) effects
            for dk, rel in diffs:
                key = 'dotdot-blank.escape' if known_a else 'effect.%s' % dk
                res.fail(key, '%s: %s outside the mounts: %s' % (desc, dk, rel))
            # ---- (3) leaks
            seen = b''.join(outputs)
            if not isinstance(a_str, bytes):
                a_str = b''
            if TOKEN in seen or TOKEN[:8] in a_str:
                key = 'dotdot-blank.escape' if known_a else 'leak.content'
                res.fail(key, '%s: content of an outside file became visible: out=%r A$=%r' % (
                    desc, seen[:300], a_str))
            if CANARY.split('.')[0].encode() in seen:
                key = 'dotdot-blank.escape' if known_a else 'leak.listing'
                res.fail(key, '%s: listing shows an outside directory: %r' % (desc, seen[:400]))
            if escaped is not None:
                break
    finally:
        with mon.armed():
            sess.close()
        # closing must not touch anything outside either
        for e in mon.drain():
            if mon.where(e) == 'outside':
                res.fail('dotdot-blank.escape' if known_a else 'fsmon.close.outside',
                         'session close: %r' % (e,))
    res.nt(nontrivial)
    return res


# --------------------------------------------------------------------------------------------
# generators

SEP = st.sampled_from(['\\'] * 12 + ['/', '\\\\', '\\/', '\\.\\'])
DRIVE = st.sampled_from([''] * 14 + ['C:'] * 5 + ['c:', 'D:', 'D:', 'd:'] + [
    'E:', 'A:', 'Z:', '@:', 'C:D:', ':', 'CC:', 'C::', 'D:C:', 'CD:'])
LEAD = st.sampled_from([''] * 8 + ['\\'] * 4 + ['/', '\\\\', '.\\', '..\\', '\\..\\'])
TRAIL = st.sampled_from(['', '', '', '', '', '', '\\', '.', ' ', '\\.', '\\..', '/'])

CLIMB = ['..', '..', '..', '..', '.', '...', '....']
CLIMB_VARIANTS = [' ..', '..x', '.. .', '. .', '..*', '..?', '. ', '.\t', '..\x00', '..\xff',
                  '..\xa0', '.\x00.', '..\x1a']
KNOWN_A = ['.. ', '..  ', '..\t', '.. \t']                 # known defect region (kept rare)
IN_DIRS = ['SUB', 'sub', 'Sub', 'SUB2', 'sub2', 'LongDirName', 'LONGDIRN', 'EMPTY', 'DSUB',
           'NEWDIR']
MOUNT_NAMES = ['MOUNT', 'mount', 'MOUNT2', 'mount2', 'MOUNTX', 'mountX', 'OUTSIDE', 'outside',
               'DIR', 'dir', 'z']
OUT_FILES = ['SECRET.TXT', 'secret.txt', 'SECRET.BAS', 'SECRET', 'SECRET.BIN', 'TOP.TXT',
             'INNER.TXT', 'X.TXT', 'SECRET.', 'SECRET.*']
IN_FILES = ['IN.TXT', 'in.txt', 'PROG.BAS', 'PROG', 'prog', 'DEEP.TXT', 'D.TXT', 'E.TXT', 'X.TXT',
            'L.TXT', 'LongFileName.text', 'LONGFILE.TEX', 'NEW.TXT', 'NEW', 'NEWDIR', 'N2.BAS']
WILD = ['*.*', '*', '?', 'S*.*', '????????.???', '*.TXT', 'M*', '*.', '.*', '*.*.*']
ODD = ['', ' ', 'A\x00B', '\x00', 'caf\xe9.txt', '\xff', 'A:B', 'NUL', 'CON', 'aaaaaaaaaaaa.bbbbb',
       'x.y.z', 'a b', '"', 'A+B', '~', '%TEMP%', '$HOME', 'AUX', 'PRN']

_elem_any = st.one_of(
    st.sampled_from(CLIMB), st.sampled_from(CLIMB), st.sampled_from(IN_DIRS),
    st.sampled_from(MOUNT_NAMES), st.sampled_from(OUT_FILES), st.sampled_from(IN_FILES),
    st.sampled_from(WILD), st.sampled_from(ODD), st.sampled_from(CLIMB_VARIANTS),
)


def _join(drive, lead, elems, seps, trail):
    s = drive + lead
    for i, e in enumerate(elems):
        if i:
            s += seps[i % len(seps)]
        s += e
    return s + trail


def path_attack():
    """descend d levels through real directories, climb k levels, then name something outside."""
    def build(drive, lead, down, nclimb, climb_el, via, target, seps, trail):
        elems = down + [climb_el] * nclimb + via + [target]
        return _join(drive, lead, elems, seps, trail)
    return st.builds(
        build, DRIVE, LEAD,
        st.lists(st.sampled_from(['SUB', 'SUB2', 'sub', 'LongDirName', 'EMPTY', 'DSUB', '.']),
                 max_size=3),
        st.integers(1, 6), st.sampled_from(['..', '..', '..', '..', '..', '...', ' ..', '..\xa0']),
        st.lists(st.sampled_from(MOUNT_NAMES + ['..']), max_size=2),
        st.sampled_from(OUT_FILES + WILD + ['', '..', 'NEW.TXT', 'NEWDIR', 'DIR', 'mountX']),
        st.lists(SEP, min_size=1, max_size=3), st.sampled_from(['', '', '', '', '\\', '.', ' ']))


def path_free():
    return st.builds(_join, DRIVE, LEAD, st.lists(_elem_any, min_size=0, max_size=5),
                     st.lists(SEP, min_size=1, max_size=3), TRAIL)


def path_inside():
    """mostly legitimate paths (so that histories create state: files, directories, cwd)."""
    def build(drive, lead, dirs, name):
        return drive + lead + ''.join(d + '\\' for d in dirs) + name
    return st.builds(build, st.sampled_from(['', '', 'C:', 'D:']), st.sampled_from(['', '', '\\']),
                     st.lists(st.sampled_from(['SUB', 'SUB2', 'LongDirName', 'EMPTY', 'NEWDIR',
                                               '..', 'DSUB']), max_size=2),
                     st.sampled_from(IN_FILES + IN_DIRS + WILD[:3] + ['..', '']))


def path_native():
    pre = st.sampled_from(['', '', 'C:', '\\', 'C:\\', '..\\', '/'])
    body = st.sampled_from(['{OUT}/SECRET.TXT', '{OUTB}\\SECRET.TXT', '{OUT}/SECRET.BAS',
                            '{OUT}', '{OUTB}', '{OUT}/DIR', '{OUT}/mountX/X.TXT', '{OUT}/NEW.TXT',
                            '{OUT}/../TOP.TXT', '{OUTB}\\..\\TOP.TXT', '{OUT}/*.*', '{OUTB}\\*.*',
                            '{OUT}/mount/../SECRET.TXT', '{OUT}/NEWDIR', '/etc/hostname',
                            '/tmp/c27_must_not_exist.txt', '~/c27_must_not_exist.txt'])
    return st.builds(lambda a, b: a + b, pre, body)


def path_soup():
    alpha = st.sampled_from(['.', '.', '\\', '\\', '/', ':', ' ', '*', '?', 'C', 'D', 'S', 'U', 'B',
                             'SUB', 'SECRET.TXT', '..', '..\\', 'mount', '\x00', '\xe9', '\t', 'x'])
    return st.lists(alpha, max_size=12).map(''.join)


def path_known_a():
    def build(drive, lead, down, n, el, target, trail):
        return _join(drive, lead, down + [el] * n + [target], ['\\'], trail)
    return st.builds(build, DRIVE, LEAD, st.lists(st.sampled_from(['SUB', 'SUB2']), max_size=2),
                     st.integers(1, 4), st.sampled_from(KNOWN_A),
                     st.sampled_from(OUT_FILES + ['', '*.*', 'NEW.TXT', 'NEWDIR']),
                     st.sampled_from(['', '', '\\']))


def any_path(with_known):
    alts = [path_attack(), path_attack(), path_attack(), path_free(), path_free(), path_inside(),
            path_inside(), path_native(), path_soup()]
    if with_known:
        alts.append(path_known_a())
    return st.one_of(*alts)


KIND_WEIGHTED = (
    ['OPEN_I'] * 3 + ['OPEN_I2'] + ['OPEN_O'] * 3 + ['OPEN_O2'] + ['OPEN_A'] * 2 + ['OPEN_R'] * 2
    + ['OPEN_R2'] + ['LOAD'] * 2 + ['SAVE'] * 2 + ['SAVE_A', 'SAVE_P'] + ['MERGE'] * 2
    + ['CHAIN'] * 2 + ['CHAIN_M'] + ['RUN'] * 2 + ['BLOAD'] * 2 + ['BSAVE'] * 2 + ['KILL'] * 3
    + ['NAME'] * 4 + ['FILES'] * 3 + ['FILES0'] + ['MKDIR'] * 3 + ['RMDIR'] * 3 + ['CHDIR'] * 6
)


def strat_history(with_known=False):
    def op(kind, p, q, swap):
        d = {'k': kind}
        if kind != 'FILES0':
            d['p'] = p
        if kind == 'NAME':
            d['p'], d['q'] = (q, p) if swap else (p, q)
        return d
    path = any_path(with_known)
    one = st.builds(op, st.sampled_from(KIND_WEIGHTED), path,
                    st.one_of(path_inside(), path), st.booleans())
    return st.builds(lambda c, ops: {'cwd0': c, 'ops': ops}, st.integers(0, 2),
                     st.lists(one, min_size=1, max_size=7))


def gen_directed(shard, nshards, tier, seed):
    """Every statement kind x a fixed list of classic escapes x every initial directory."""
    attacks = ['..\\SECRET.TXT', '..\\..\\TOP.TXT', 'SUB\\..\\..\\SECRET.TXT', '\\..\\SECRET.TXT',
               'C:..\\SECRET.TXT', 'C:\\..\\SECRET.TXT', '../SECRET.TXT', '..\\..\\..\\..\\TOP.TXT',
               '..\\mountX\\X.TXT', '..\\DIR\\INNER.TXT', '..\\MOUNT\\..\\SECRET.TXT', '..',
               '..\\', '..\\*.*', '..\\..\\*.*', '{OUT}/SECRET.TXT', '{OUTB}\\SECRET.TXT',
               'SUB\\SUB2\\..\\..\\..\\SECRET.BAS', '..\\SECRET', '..\\SECRET.BIN', '..\\NEWDIR',
               '...\\SECRET.TXT', '.\\..\\SECRET.TXT', 'D:..\\SECRET.TXT', 'E:..\\SECRET.TXT',
               '..\\DIR', 'EMPTY\\..\\..\\DIR', '\\\\..\\..\\SECRET.TXT', '..\\secret.txt',
               '..\\SECRET.*', '..\\outside\\SECRET.TXT', 'SUB/../../SECRET.TXT']
    cases = []
    for kind in sorted(KINDS):
        if kind == 'FILES0':
            continue
        for a in attacks:
            for c in (0, 2):
                if kind == 'NAME':
                    cases.append({'cwd0': c, 'ops': [{'k': kind, 'p': 'IN.TXT', 'q': a}]})
                    cases.append({'cwd0': c, 'ops': [{'k': kind, 'p': a, 'q': 'GOT.TXT'}]})
                else:
                    cases.append({'cwd0': c, 'ops': [{'k': kind, 'p': a}]})
    # CHDIR escapes followed by each statement on a bare name
    for kind in sorted(KINDS):
        for cd in ('..', '..\\..', 'SUB\\..\\..', '\\..', '..\\DIR', '..\\mountX', '{OUT}'):
            for tgt in ('SECRET.TXT', 'SECRET', '*.*', 'NEW.TXT', 'DIR'):
                op = {'k': kind, 'p': tgt}
                if kind == 'NAME':
                    op['q'] = 'GOT.TXT'
                cases.append({'cwd0': 1, 'ops': [{'k': 'CHDIR', 'p': cd}, op]})
    return iter(cases[shard::nshards])


def units(tier):
    return [
        Unit('directed', 'enum', shards=16, gen=gen_directed),
        Unit('histories', 'hyp', shards=16, examples={'quick': 250, 'thorough': 7000},
             strategy=strat_history),
        Unit('histories-known-region', 'hyp', shards=2, examples={'quick': 80, 'thorough': 3000},
             strategy=lambda: strat_history(True)),
    ]


REGRESSIONS = [
    # fixed 0237db6d: '..' + blank element escaped the mount (read / create / delete / list)
    {'cwd0': 0, 'ops': [{'k': 'OPEN_I', 'p': '.. \\SECRET.TXT'}]},
    {'cwd0': 0, 'ops': [{'k': 'CHDIR', 'p': '.. '}]},
    # fixed 0237db6d: final component '..' at the mount root addressed the parent of the root
    {'cwd0': 0, 'ops': [{'k': 'RMDIR', 'p': '..'}]},
    # fixed 4a576eca: empty or multi-letter drive prefix that is a substring of the drive-letter
    # string -> KeyError escaped from Files._get_diskdevice_and_path
    {'cwd0': 0, 'ops': [{'k': 'KILL', 'p': ':X'}]},
    {'cwd0': 0, 'ops': [{'k': 'CHDIR', 'p': 'CD:SUB'}]},
    # plain clamped climbs must stay quiet
    {'cwd0': 0, 'ops': [{'k': 'OPEN_I', 'p': '..\\..\\SECRET.TXT'}]},
    {'cwd0': 2, 'ops': [{'k': 'CHDIR', 'p': '..\\..\\..\\..'}, {'k': 'KILL', 'p': 'SECRET.TXT'}]},
]

KILLS = [
    "disk.py _get_native_reldir: `cwd = cwd[:-1] if cwd else cwd + ['..']` (negative climb allowed) "
    "-> fsmon.read.outside, fsmon.write.outside, effect.created/deleted/modified, leak.content, "
    "leak.listing (directed + histories)",
    "disk.py _get_native_reldir: ntpath.normpath removed -> fsmon.read.outside, "
    "fsmon.write.outside, effect.created, leak.listing (histories, e.g. SUB\\..\\..\\SECRET.TXT)",
    "disk.py _get_native_abspath: raw DOS path joined to the native root instead of the mapped "
    "name -> fsmon.read/write.outside, effect.created/modified, leak.content",
    "disk.py _get_native_reldir: clamp gives up only after >=3 levels beyond the root "
    "-> fsmon.read.outside, fsmon.write.outside [refused by the fence] (directed and random)",
    "disk.py rename: new name joined raw -> effect.created, fsmon.write.outside",
    "disk.py _split_pathmask: directory joined raw (KILL/FILES) -> effect.deleted, "
    "fsmon.read/write.outside, leak.listing",
    "SURVIVES (equivalent for this property): disk.py _get_native_reldir accepting '/' -- "
    "ntpath.normpath turns '/' into '\\' and collapses '..', the clamp still applies; only the "
    "error code changes, which C27 does not speak about",
]
