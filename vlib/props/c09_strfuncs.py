"""
C09 - string functions and statements match their reference definitions.

A case is a short batch of independent calls ("ops") run in one fresh session. Every op names a
function/statement, its operands (strings as latin-1 text, numbers as int/float), how each operand
is presented to BASIC (variable set through the API, literal in the line, temporary expression) and
the route (direct-mode evaluate/execute, or a stored program line run with GOTO so that literals
are code-resident). The oracle is a Python model written from the property statement and the
reference manual; it never calls pcbasic.
"""
import math

from hypothesis import strategies as st

from vlib.core import Result, Unit
from vlib import harness

ID = 'C09'
LEVEL = 'exploration'
TECHNIQUE = ("Hypothesis-generated and grid-enumerated calls judged by a Python reference model of "
             "the GW-BASIC string functions (slices, find, CINT rounding, error ranges)")
RULE = ("Ops over LEFT$ RIGHT$ MID$(2/3 args) INSTR(2/3 args) STRING$ SPACE$ LEN ASC CHR$ + "
        "= <> < > <= >= and the statements MID$= LSET RSET. Strings: lengths {0,1,2,127,254,255} "
        "and random, all 256 byte values, built as pattern*k+suffix so that matches, common "
        "prefixes and high-bit bytes occur; second strings derived from the first (equal, prefix, "
        "extension, one byte changed, substring). Numeric arguments from {-32769,-32768,-1,0,1,2,"
        "len-1,len,len+1,254,255,256,32767,32768,+-1e10, x.5 halves}, presented as literals or "
        "as % ! # variables. Operands as API-set variables, direct-mode literals, temporaries "
        "(X$+\"\") and code-resident literals in a stored line. A grid unit enumerates every "
        "function x boundary length x boundary argument. Non-trivial: some numeric argument is "
        "<=0, within 1 of the string length or >=254, or a string is 0/255 long, or source and "
        "target of MID$= coincide, or an error is expected; distinct = distinct op batch.")
ASSUMPTIONS = [
    "numeric arguments are CINT-rounded (halves away from zero) before range checks (manual)",
    "when several arguments are invalid at once any of their errors is accepted (evaluation order "
    "of argument checks is not specified)",
    "MID$ statement position outside 1..255 is Illegal function call even with length 0 (manual, "
    "GW-BASIC); position > LEN is allowed only when length 0 is given",
    "STRING$(n, \"\") is Illegal function call (manual, GW-BASIC)",
    "overlap is generated as MID$(V$,p[,n])=V$ (same variable); FIELD-variable overlap is not "
    "generated",
    "code-resident literals are limited to 200 bytes by the program line length and to bytes "
    ">= 32 other than the double quote",
]

OVF, IFC, TM, STL = 6, 5, 13, 15

FUNCS = ['LEFT', 'RIGHT', 'MID2', 'MID3', 'INSTR2', 'INSTR3', 'STRINGN', 'STRINGS', 'SPACE',
         'LEN', 'ASC', 'CHR', 'CAT', 'CMP', 'MIDSET2', 'MIDSET3', 'LSET', 'RSET', 'TYPE']
CMPOPS = ['=', '<>', '<', '>', '<=', '>=']
TYPE_EXPRS = [
    # (expression template using S$ (string), expected error)
    ('LEFT$(1,1)', TM), ('LEFT$(S$,"1")', TM), ('RIGHT$(1,1)', TM), ('RIGHT$(S$,S$)', TM),
    ('MID$(1,1)', TM), ('MID$(S$,"1")', TM), ('MID$(S$,1,"1")', TM), ('INSTR(S$,1)', TM),
    ('INSTR(1,S$,2)', TM), ('INSTR(1,2,S$)', TM), ('STRING$("a","a")', TM), ('SPACE$("a")', TM),
    ('LEN(1)', TM), ('ASC(1)', TM), ('CHR$("a")', TM), ('S$+1', TM), ('1+S$', TM), ('S$<1', TM),
    ('1=S$', TM), ('LEN(S$+1)', TM),
]
TYPE_STMTS = [
    ('LSET V$=5', TM), ('RSET V$=5', TM), ('MID$(V$,1)=5', TM), ('MID$(V$,1,1)=5', TM),
    ('LSET N%="a"', TM), ('RSET N!="a"', TM), ('MID$(N#,1)="a"', TM), ('MID$(V$,"1")="a"', TM),
]


# --------------------------------------------------------------------------------------------
# reference model

def round_half_away(x):
    if isinstance(x, int):
        return x
    f = math.floor(abs(x) + 0.5)
    return int(f) if x >= 0 else -int(f)


def argerr(x, lo, hi):
    """Error code for a numeric argument with legal range lo..hi, or 0; and the rounded value."""
    r = round_half_away(x)
    if not -32768 <= r <= 32767:
        return OVF, r
    if not lo <= r <= hi:
        return IFC, r
    return 0, r


def overlap_copy(v, off, src, cnt):
    """Byte-by-byte left-to-right copy of src[0:cnt] (src aliases v) to v[off:]."""
    v = bytearray(v)
    for i in range(cnt):
        v[off + i] = v[i]
    return bytes(v)


def model(op):
    """
    -> dict(kind='val', value=...) for functions,
       dict(kind='err', codes={...}),
       dict(kind='var', value=bytes) for statements (final value of the target),
       plus optional 'region' (bucket key of a listed deviation) and 'tolerated' (the known wrong
       observation in that region).
    """
    f = op['f']
    s = op.get('s', '').encode('latin-1')
    t = op.get('t', '').encode('latin-1')
    a, b = op.get('a', 0), op.get('b', 0)
    errs = set()

    def num(x, lo, hi):
        e, r = argerr(x, lo, hi)
        if e:
            errs.add(e)
        return r

    if f == 'LEFT':
        n = num(a, 0, 255)
        return err(errs) or val(s[:n])
    if f == 'RIGHT':
        n = num(a, 0, 255)
        return err(errs) or val(s[len(s) - n:] if 0 < n < len(s) else (s if n else b''))
    if f in ('MID2', 'MID3'):
        p = num(a, 1, 255)
        n = num(b, 0, 255) if f == 'MID3' else 255
        return err(errs) or val(s[p - 1:p - 1 + n])
    if f in ('INSTR2', 'INSTR3'):
        i = num(a, 1, 255) if f == 'INSTR3' else 1
        if errs:
            return err(errs)
        if not s or i > len(s):
            return val(0)
        if not t:
            return val(i)
        return val(s.find(t, i - 1) + 1)
    if f == 'STRINGN':
        n = num(a, 0, 255)
        c = num(b, 0, 255)
        return err(errs) or val(bytes([c]) * n)
    if f == 'STRINGS':
        n = num(a, 0, 255)
        if not t:
            if errs:
                errs.add(IFC)
                return err(errs)
            return dict(kind='err', codes={IFC}, region='string$.empty-char',
                        tolerated=('val', b''))
        return err(errs) or val(t[:1] * n)
    if f == 'SPACE':
        n = num(a, 0, 255)
        return err(errs) or val(b' ' * n)
    if f == 'LEN':
        return val(len(s))
    if f == 'ASC':
        return val(s[0]) if s else err({IFC})
    if f == 'CHR':
        n = num(a, 0, 255)
        return err(errs) or val(bytes([n]))
    if f == 'CAT':
        return val(s + t) if len(s) + len(t) <= 255 else err({STL})
    if f == 'CMP':
        o = op['op']
        # byte-wise lexicographic on unsigned bytes, shorter prefix first: Python bytes ordering
        r = {'=': s == t, '<>': s != t, '<': s < t, '>': s > t, '<=': s <= t, '>=': s >= t}[o]
        return val(-1 if r else 0)
    if f in ('MIDSET2', 'MIDSET3'):
        src = s if op.get('self') else t
        e_p, p = argerr(a, 1, 255)
        given0 = False
        if f == 'MIDSET3':
            n = num(b, 0, 255)
            given0 = (n == 0 and not errs)
        else:
            n = 255
        region = None
        if e_p:
            errs.add(e_p)
            # own bucket key: position outside 1..255 was not checked when length 0 is given
            if e_p == IFC and given0:
                region = 'midset.position-unchecked-len0'
        elif p > len(s) and not given0:
            errs.add(IFC)
        if errs:
            d = err(errs)
            d['var'] = s
            if region:
                d['region'] = region
                d['tolerated'] = ('var', s)
            return d
        cnt = max(0, min(n, len(src), len(s) - p + 1))
        if op.get('self'):
            new = overlap_copy(s, p - 1, s, cnt)
        else:
            new = s[:p - 1] + src[:cnt] + s[p - 1 + cnt:]
        return dict(kind='var', value=new)
    if f == 'LSET':
        return dict(kind='var', value=t[:len(s)].ljust(len(s)))
    if f == 'RSET':
        return dict(kind='var', value=t[:len(s)].rjust(len(s)))
    if f == 'TYPE':
        tab = TYPE_STMTS if op.get('stmt') else TYPE_EXPRS
        d = err({tab[op['k'] % len(tab)][1]})
        if op.get('stmt'):
            d['var'] = s
        return d
    raise ValueError(f)


def val(v):
    return dict(kind='val', value=v)


def err(codes):
    if not codes:
        return None
    return dict(kind='err', codes=set(codes))


# --------------------------------------------------------------------------------------------
# rendering

def safe_literal(b):
    return all(c >= 32 and c != 34 for c in b)


def numtext(x):
    if isinstance(x, float):
        if x == int(x) and abs(x) >= 1e7:
            m = '%E' % x
            mant, ex = m.split('E')
            mant = mant.rstrip('0').rstrip('.')
            return '%sE%+d' % (mant, int(ex))
        return repr(x)
    return str(x)


class Binder(object):
    """Allocates BASIC operands in a session and returns their expression text."""

    def __init__(self, sess, prog):
        self.sess = sess
        self.prog = prog
        self.sets = []

    def apply(self):
        for name, value in self.sets:
            self.sess.set(name, value)
        self.sets = []

    def string(self, b, form, name):
        if form in ('lit', 'litplus') and not (safe_literal(b) and len(b) <= 200):
            form = 'var'
        if form == 'lit':
            return b'"' + b + b'"'
        if form == 'litplus':
            return b'("' + b + b'"+"")'
        self.sets.append((name, b))
        if form == 'tmp':
            return b'(' + name.encode() + b'+"")'
        return name.encode()

    def number(self, x, form, name):
        if form == 'int' and not (isinstance(x, int) and -32768 <= x <= 32767):
            form = 'sng'
        if form == 'sng' and isinstance(x, int) and abs(x) > 16777216:
            form = 'dbl'
        if form == 'lit':
            return numtext(x).encode()
        sig = {'int': '%', 'sng': '!', 'dbl': '#'}[form]
        self.sets.append((name + sig, x))
        return (name + sig).encode()


_SANDBOX = {}


def shared_sandbox():
    """One scratch directory per process (string calls never touch the file system)."""
    import os
    import atexit
    sb = _SANDBOX.get(os.getpid())
    if sb is None:
        sb = harness.Sandbox()
        _SANDBOX[os.getpid()] = sb
        atexit.register(sb.close)
    return sb


def run_op(sess, op):
    """Execute one op -> (observation, text) ;
    observation = ('val', v) | ('err', code) | ('var', bytes) | ('escaped', key) | ('budget',)."""
    f = op['f']
    prog = op.get('route') == 'prog'
    s = op.get('s', '').encode('latin-1')
    t = op.get('t', '').encode('latin-1')
    sess.execute(b'NEW')
    if True:
        bd = Binder(sess, prog)
        fs, ft = op.get('fs', 'var'), op.get('ft', 'var')
        fa, fb = op.get('fa', 'lit'), op.get('fb', 'lit')
        stmt = None
        expr = None
        numeric_result = False
        if f == 'LEFT':
            expr = b'LEFT$(%s,%s)' % (bd.string(s, fs, 'S$'), bd.number(op['a'], fa, 'A'))
        elif f == 'RIGHT':
            expr = b'RIGHT$(%s,%s)' % (bd.string(s, fs, 'S$'), bd.number(op['a'], fa, 'A'))
        elif f == 'MID2':
            expr = b'MID$(%s,%s)' % (bd.string(s, fs, 'S$'), bd.number(op['a'], fa, 'A'))
        elif f == 'MID3':
            expr = b'MID$(%s,%s,%s)' % (bd.string(s, fs, 'S$'), bd.number(op['a'], fa, 'A'),
                                        bd.number(op['b'], fb, 'B'))
        elif f == 'INSTR2':
            expr = b'INSTR(%s,%s)' % (bd.string(s, fs, 'S$'), bd.string(t, ft, 'T$'))
            numeric_result = True
        elif f == 'INSTR3':
            expr = b'INSTR(%s,%s,%s)' % (bd.number(op['a'], fa, 'A'), bd.string(s, fs, 'S$'),
                                         bd.string(t, ft, 'T$'))
            numeric_result = True
        elif f == 'STRINGN':
            expr = b'STRING$(%s,%s)' % (bd.number(op['a'], fa, 'A'), bd.number(op['b'], fb, 'B'))
        elif f == 'STRINGS':
            expr = b'STRING$(%s,%s)' % (bd.number(op['a'], fa, 'A'), bd.string(t, ft, 'T$'))
        elif f == 'SPACE':
            expr = b'SPACE$(%s)' % bd.number(op['a'], fa, 'A')
        elif f == 'LEN':
            expr = b'LEN(%s)' % bd.string(s, fs, 'S$')
            numeric_result = True
        elif f == 'ASC':
            expr = b'ASC(%s)' % bd.string(s, fs, 'S$')
            numeric_result = True
        elif f == 'CHR':
            expr = b'CHR$(%s)' % bd.number(op['a'], fa, 'A')
        elif f == 'CAT':
            expr = b'%s+%s' % (bd.string(s, fs, 'S$'), bd.string(t, ft, 'T$'))
        elif f == 'CMP':
            expr = b'%s%s%s' % (bd.string(s, fs, 'S$'), op['op'].encode(),
                                bd.string(t, ft, 'T$'))
            numeric_result = True
        elif f in ('MIDSET2', 'MIDSET3', 'LSET', 'RSET'):
            # the target is always the variable V$; in the prog route it may be code-resident
            pre = b''
            if prog and safe_literal(s) and len(s) <= 200 and fs in ('lit', 'litplus'):
                pre = b'V$="' + s + b'":'
            else:
                bd.sets.append(('V$', s))
            if op.get('self'):
                src = b'V$'
            else:
                src = bd.string(t, ft, 'T$')
            if f == 'MIDSET2':
                stmt = b'MID$(V$,%s)=%s' % (bd.number(op['a'], fa, 'A'), src)
            elif f == 'MIDSET3':
                stmt = b'MID$(V$,%s,%s)=%s' % (bd.number(op['a'], fa, 'A'),
                                               bd.number(op['b'], fb, 'B'), src)
            elif f == 'LSET':
                stmt = b'LSET V$=' + src
            else:
                stmt = b'RSET V$=' + src
            stmt = pre + stmt
        elif f == 'TYPE':
            bd.sets.append(('S$', s))
            bd.sets.append(('V$', s))
            if op.get('stmt'):
                stmt = TYPE_STMTS[op['k'] % len(TYPE_STMTS)][0].encode()
            else:
                expr = TYPE_EXPRS[op['k'] % len(TYPE_EXPRS)][0].encode()
        else:
            raise ValueError(f)

        if expr is not None:
            if prog:
                tgt = b'R%' if numeric_result else b'R$'
                line = b'10 ' + tgt + b'=' + expr + b':K%=1:END'
                o = sess.execute(line)
                bd.apply()
                if o.kind == 'ok' and not o.errors:
                    o = sess.execute(b'GOTO 10')
                text = line
            else:
                bd.apply()
                o = sess.evaluate(expr)
                text = expr
            if o.kind == 'budget':
                return ('budget',), text
            if o.kind != 'ok':
                return ('escaped', '%s@%s' % (o.exc, o.frame)), text
            if o.errors:
                return ('err', o.errors[0][0]), text
            if prog:
                if sess.get('K%') != 1:
                    return ('err', -1), text
                return ('val', sess.get(tgt.decode())), text
            return ('val', o.value), text
        # statement
        if prog:
            line = b'10 ' + stmt + b':K%=1:END'
            o = sess.execute(line)
            bd.apply()
            if o.kind == 'ok' and not o.errors:
                o = sess.execute(b'GOTO 10')
            text = line
        else:
            bd.apply()
            o = sess.execute(stmt)
            text = stmt
        if o.kind == 'budget':
            return ('budget',), text
        if o.kind != 'ok':
            return ('escaped', '%s@%s' % (o.exc, o.frame)), text
        v = sess.get('V$')
        if o.errors:
            return ('err', o.errors[0][0], v), text
        return ('var', v), text


def boundary_op(op):
    s = op.get('s', '')
    t = op.get('t', '')
    L = len(s)
    if L in (0, 255) or ('t' in op and len(t) in (0, 255)):
        return True
    if op.get('self'):
        return True
    for k in ('a', 'b'):
        if k in op:
            r = round_half_away(op[k])
            if r <= 0 or r >= 254 or abs(r - L) <= 1:
                return True
    return False


def check_op(sess, op, res, strict):
    f = op['f']
    exp = model(op)
    obs, text = run_op(sess, op)
    res.label('f:' + f, 'route:' + op.get('route', 'direct'))
    nt = boundary_op(op) or exp['kind'] == 'err'
    if exp['kind'] == 'err':
        res.label('expect-err:' + '/'.join(str(c) for c in sorted(exp['codes'])))
    if op.get('self'):
        res.label('midset-self-overlap')
    L = len(op.get('s', ''))
    res.label('len:%s' % (L if L in (0, 1, 2, 127, 254, 255) else 'other'))
    if obs[0] == 'budget':
        res.inconclusive = True
        return nt
    if obs[0] == 'escaped':
        res.fail('escaped.' + obs[1], '%r -> %r' % (text, obs))
        return nt
    where = '%s[%s]' % (f, op.get('route', 'direct'))
    # regions of the two (meanwhile fixed) findings keep their own bucket keys
    if 'region' in exp:
        tol = exp['tolerated']
        if obs[0] == tol[0] and obs[1] == tol[1]:
            res.fail(exp['region'], '%r: expected error %r, observed %r' % (
                text, sorted(exp['codes']), obs))
            return nt
    if exp['kind'] == 'err':
        if obs[0] != 'err':
            res.fail('%s.error-missing' % f, '%s %r: expected error %r, observed %r' % (
                where, text, sorted(exp['codes']), obs))
        elif obs[1] not in exp['codes']:
            res.fail('%s.wrong-error' % f, '%s %r: expected error %r, observed %r' % (
                where, text, sorted(exp['codes']), obs[1]))
        elif 'var' in exp and len(obs) > 2 and obs[2] != exp['var']:
            res.fail('%s.target-changed-on-error' % f, '%s %r: target %r -> %r' % (
                where, text, exp['var'], obs[2]))
        return nt
    if obs[0] == 'err':
        res.fail('%s.spurious-error' % f, '%s %r: expected %r, observed error %r' % (
            where, text, exp.get('value'), obs[1]))
        return nt
    if exp['kind'] == 'val':
        if obs[1] != exp['value'] or type(obs[1]) is not type(exp['value']):
            res.fail('%s.value' % f, '%s %r: expected %r, observed %r' % (
                where, text, exp['value'], obs[1]))
    else:
        if len(obs[1]) != L:
            res.fail('%s.length-changed' % f, '%s %r on %r: length %d -> %d' % (
                where, text, op.get('s'), L, len(obs[1])))
        elif obs[1] != exp['value']:
            res.fail('%s.value' % f, '%s %r on %r: expected %r, observed %r' % (
                where, text, op.get('s'), exp['value'], obs[1]))
    return nt


def check_case(case):
    res = Result()
    strict = bool(case.get('strict'))
    nt = False
    with harness.Sess(sandbox=shared_sandbox()) as sess:
        for op in case['ops']:
            if check_op(sess, op, res, strict):
                nt = True
    res.nt(nt)
    return res


# --------------------------------------------------------------------------------------------
# generators

BOUNDARY_LENGTHS = [0, 1, 2, 127, 254, 255]
PATTERNS = ['ab', 'abc', 'a', 'aab', '\x00\xff', '\x7f\x80', ' ', 'ab\x80', 'xyz\xfe\xff', '\r\n"']
SAFE_PATTERNS = ['ab', 'abc', 'a', 'aab', ' ', 'ab\x80', 'xyz\xfe\xff', ',:\'']
SAFE_CODES = [c for c in range(32, 256) if c != 34]
STRING_FORMS = ['var', 'var', 'tmp', 'lit', 'litplus']
NUM_FORMS = ['lit', 'lit', 'int', 'sng', 'dbl']
OP_WEIGHTS = FUNCS + ['MIDSET2', 'MIDSET3', 'MID3', 'INSTR3', 'CMP']


class RandomChooser(object):
    """Choices from a seeded random.Random (volume unit)."""

    def __init__(self, rng):
        self.rng = rng

    def choice(self, seq):
        return seq[self.rng.randrange(len(seq))]

    def int(self, lo, hi):
        return self.rng.randint(lo, hi)


class HypChooser(object):
    """The same choices drawn from Hypothesis (shrinkable unit)."""

    def __init__(self, draw):
        self.draw = draw

    def choice(self, seq):
        return seq[self.draw(st.integers(0, len(seq) - 1))]

    def int(self, lo, hi):
        return self.draw(st.integers(lo, hi))


def build_string(pattern, length, suffix):
    if length == 0:
        return ''
    suffix = suffix[:length]
    body = length - len(suffix)
    if not pattern:
        pattern = ' '
    rep = (pattern * (body // len(pattern) + 1))[:body]
    return rep + suffix


def gen_char(ch, safe):
    return chr(ch.choice(SAFE_CODES)) if safe else chr(ch.int(0, 255))


def gen_string(ch, safe):
    maxlen = 200 if safe else 255
    k = ch.int(0, 5)
    if k <= 1:
        length = ch.choice([n for n in BOUNDARY_LENGTHS if n <= maxlen])
    elif k <= 3:
        length = ch.int(0, 12)
    else:
        length = ch.int(0, maxlen)
    if ch.int(0, 2):
        pattern = ch.choice(SAFE_PATTERNS if safe else PATTERNS)
    else:
        pattern = ''.join(gen_char(ch, safe) for _ in range(ch.int(1, 3)))
    suffix = ''.join(gen_char(ch, safe) for _ in range(ch.int(0, 2)))
    return build_string(pattern, length, suffix)


def derive(s, mode, pos, n, c):
    """Second string derived from the first."""
    L = len(s)
    if mode == 0:
        return s
    if mode == 1:
        return s[:pos % (L + 1)]
    if mode == 2:
        return (s + c * (n % 4 + 1))[:255]
    if mode == 3 and L:
        i = pos % L
        return s[:i] + c + s[i + 1:]
    if mode == 4 and L:
        i = pos % L
        return s[i:i + 1 + n % 6]
    if mode == 5 and L:
        i = pos % L
        return s[i:i + 1 + n % 6] + c
    return c * (n % 3)


def num_candidates(L):
    base = [-32769, -32768, -1, 0, 1, 2, L - 1, L, L + 1, 127, 128, 254, 255, 256, 32767, 32768,
            10000000000.0, -10000000000.0, 40000, -40000]
    halves = [-0.5, 0.5, 1.5, 2.5, L - 0.5, L + 0.5, 254.5, 255.5, 32767.5, -32768.5, 0.25,
              -0.25, 255.25]
    return base, halves


def gen_num(ch, L):
    k = ch.int(0, 5)
    base, halves = num_candidates(L)
    if k <= 1:
        return ch.choice(base)
    if k == 2:
        return ch.choice(halves)
    if k == 3:
        return ch.int(0, max(L, 1) + 2)
    if k == 4:
        return ch.int(max(0, L - 3), L + 2)
    return ch.int(-3, 260)


def gen_op(ch):
    f = ch.choice(OP_WEIGHTS)
    route = ch.choice(['direct', 'direct', 'prog'])
    safe = bool(ch.int(0, 1))
    s = gen_string(ch, safe)
    op = {'f': f, 'route': route, 's': s, 'fs': ch.choice(STRING_FORMS)}
    L = len(s)
    if f in ('LEFT', 'RIGHT', 'MID2', 'MID3', 'INSTR3', 'STRINGN', 'STRINGS', 'SPACE', 'CHR',
             'MIDSET2', 'MIDSET3'):
        op['a'] = gen_num(ch, L)
        op['fa'] = ch.choice(NUM_FORMS)
    if f in ('MID3', 'MIDSET3'):
        op['b'] = gen_num(ch, L)
        op['fb'] = ch.choice(NUM_FORMS)
    if f == 'STRINGN':
        op['b'] = ch.int(0, 255) if ch.int(0, 1) else gen_num(ch, 255)
        op['fb'] = ch.choice(NUM_FORMS)
    if f in ('INSTR2', 'INSTR3', 'CAT', 'CMP', 'MIDSET2', 'MIDSET3', 'LSET', 'RSET', 'STRINGS'):
        mode = ch.int(0, 7)
        c = gen_char(ch, safe)
        if mode == 7:
            t = gen_string(ch, safe)
        else:
            t = derive(s, mode, ch.int(0, 255), ch.int(0, 255), c)
        if f == 'CAT' and ch.int(0, 1):
            # aim at the 255 boundary
            tl = max(0, min(255, 255 - L + ch.int(-1, 1)))
            t = build_string(t or c, tl, '')
        op['t'] = t
        op['ft'] = ch.choice(STRING_FORMS)
    if f == 'CMP':
        op['op'] = ch.choice(CMPOPS)
    if f in ('MIDSET2', 'MIDSET3'):
        if ch.int(0, 3) == 0:
            op['self'] = True
            op.pop('t', None)
            op.pop('ft', None)
    if f == 'TYPE':
        op['k'] = ch.int(0, 39)
        op['stmt'] = bool(ch.int(0, 1))
        op['s'] = s[:20] or 'abc'
        op['route'] = 'direct'
    return op


@st.composite
def strat_case(draw):
    ch = HypChooser(draw)
    return {'ops': [gen_op(ch) for _ in range(draw(st.integers(1, 6)))]}


def gen_bulk(shard, nshards, tier, seed):
    import random
    ch = RandomChooser(random.Random(seed))
    n = 1500 if tier == 'quick' else 100000
    for _ in range(n):
        yield {'ops': [gen_op(ch) for _ in range(4)]}


def grid_ops():
    """Every function x boundary length x boundary argument (finite, complete)."""
    def strings():
        for L in BOUNDARY_LENGTHS:
            yield build_string('ab', L, '')
            yield build_string('\x00\xff\x80', L, 'z')
    for s in strings():
        L = len(s)
        base, halves = num_candidates(L)
        nums = base + halves
        for a in nums:
            for f in ('LEFT', 'RIGHT', 'MID2', 'SPACE', 'CHR'):
                yield {'f': f, 's': s, 'a': a}
            yield {'f': 'INSTR3', 's': s, 'a': a, 't': ''}
            yield {'f': 'INSTR3', 's': s, 'a': a, 't': s[-1:]}
            yield {'f': 'INSTR3', 's': s, 'a': a, 't': 'b'}
            yield {'f': 'STRINGS', 's': '', 'a': a, 't': s[:2]}
            yield {'f': 'STRINGN', 's': '', 'a': a, 'b': 65}
            yield {'f': 'STRINGN', 's': '', 'a': 3, 'b': a}
            yield {'f': 'MIDSET2', 's': s, 'a': a, 't': 'XYZ'}
            yield {'f': 'MIDSET2', 's': s, 'a': a, 'self': True}
            for b in (-1, 0, 1, L - 1, L + 1, 255, 256, 32768):
                yield {'f': 'MID3', 's': s, 'a': a, 'b': b}
                yield {'f': 'MIDSET3', 's': s, 'a': a, 'b': b, 't': 'XYZW'}
                yield {'f': 'MIDSET3', 's': s, 'a': a, 'b': b, 'self': True}
        for f in ('LEN', 'ASC'):
            yield {'f': f, 's': s}
        for t in (s, s[:-1], s[1:], s + 'a', (s + '\xff')[:255], '', s[:1], 'a' * 255,
                  s[:L // 2] + '\x01' + s[L // 2 + 1:]):
            t = t[:255]
            for o in CMPOPS:
                yield {'f': 'CMP', 's': s, 't': t, 'op': o}
            yield {'f': 'CAT', 's': s, 't': t}
            yield {'f': 'INSTR2', 's': s, 't': t}
            yield {'f': 'LSET', 's': s, 't': t}
            yield {'f': 'RSET', 's': s, 't': t}
        for tl in (0, 1, 254 - L, 255 - L, 256 - L):
            if 0 <= tl <= 255:
                yield {'f': 'CAT', 's': s, 't': 'q' * tl}


def gen_grid(shard, nshards, tier, seed):
    ops = list(grid_ops())
    batch = 16
    batches = [ops[i:i + batch] for i in range(0, len(ops), batch)]
    for k, b in enumerate(batches):
        if k % nshards == shard:
            yield {'ops': b}


def units(tier):
    return [
        Unit('grid', 'enum', shards=16, gen=gen_grid, exhaustive=True, per_case_timeout=120.0),
        Unit('random-bulk', 'enum', shards=16, gen=gen_bulk, per_case_timeout=120.0),
        Unit('random', 'hyp', shards=16, examples={'quick': 150, 'thorough': 6000},
             strategy=strat_case),
    ]


REGRESSIONS = [
    # fixed 6560a3b0: STRING$(n, "") returned "" instead of Illegal function call
    {'strict': True, 'ops': [{'f': 'STRINGS', 's': '', 'a': 3, 't': ''}]},
    # fixed 58a8a5a4: MID$(V$, 0, 0)= was accepted (position unchecked when length is 0)
    {'strict': True, 'ops': [{'f': 'MIDSET3', 's': 'abc', 'a': 0, 'b': 0, 't': 'x'}]},
    # self-overlapping MID$ copies left to right
    {'ops': [{'f': 'MIDSET2', 's': 'abcdef', 'a': 3, 'self': True}]},
    {'ops': [{'f': 'RIGHT', 's': 'abcdef', 'a': 2}, {'f': 'MID2', 's': 'abc', 'a': 3},
             {'f': 'MID2', 's': 'abc', 'a': 0}, {'f': 'INSTR3', 's': 'abc', 'a': 3, 't': ''},
             {'f': 'CMP', 's': 'a\x7f', 't': 'a\x80', 'op': '<'}]},
]

KILLS = [
    "values.py right_: s.to_str()[-stop:] -> [len-stop-1:]  => RIGHT.value (shrunk to RIGHT$(S$,1) on 'ab')",
    'values.py mid_: start > length -> >=  => MID2.value, MID3.value (grid)',
    'values.py mid_: range_check(1,255,start) -> (0,255)  => MID2.error-missing, MID3.error-missing',
    "strings.py midset: 'if source != target' -> 'if True' (no byte-wise loop)  => MIDSET2.value, MIDSET3.value (self-overlap)",
    'strings.py gt: len(left) > len(right) -> >=  => CMP.value',
    'strings.py lset: in_str[:length].rjust -> in_str[-length:].rjust  => RSET.value (+ escaped.ValueError@strings.py:lset)',
    'values.py instr_: start > len(big) -> >=  => INSTR2.value, INSTR3.value',
    'strings.py midset: drop num = min(num, val.length())  => escaped.ValueError@strings.py:midset',
    'strings.py check_modify: never copy code literals  => LSET.value, RSET.value, MIDSET2.value, MIDSET3.value (prog route)',
    'strings.py store: length > 255 -> >= 255  => CAT.spurious-error, SPACE.spurious-error, STRINGN.spurious-error',
]
