"""
C38 - event traps fire only when enabled and never re-enter.

The harness owns the schedule. A case is a small generated program (trap definitions, a main line of
tag statements / KEY(n)|PEN|STRIG(0)|TIMER ON|OFF|STOP commands / ERROR 99, one handler per trap,
optionally an ON ERROR handler ending in RESUME NEXT, END) plus a list of (boundary, event) pairs.
Sess.inject puts the event on the session's input queue (F1 / cursor-up KEYB_DOWN, PEN_DOWN,
STICK_DOWN) or advances a harness-owned clock by one timer period, immediately before the
interpreter's check at the chosen statement boundary. Every executed statement appends a unique
tag to T$; the final T$ is compared with the set of traces an executable reference model of the
property statement allows.

Reference model (from the statement and the manual's KEY()/PEN/STRIG()/TIMER/ON ERROR sections):
per trap: switched ON or OFF, stopped flag, pending flag; global: error-handler active, running.
  occurrence      : ON (stopped or not) -> pending := true ; OFF -> lost
  at a boundary   : if running and no error handler active, every trap that is pending, ON and not
                    stopped is entered (pending := false, stopped := true; several at once in any
                    order)
  RETURN          : stopped := false (unless the handler itself switched the trap OFF: stays OFF)
  x ON            : ON, stopped := false ; x STOP: stopped := true ; x OFF: OFF
  ON x GOSUB n    : (re)defines the routine only; no other state changes
  ERROR 99        : error handler active until RESUME NEXT; occurrences are still remembered
  END             : not running; nothing is entered afterwards
  TIMER           : armed by TIMER ON (manual: "triggered every x seconds after the TIMER ON
                    statement"); an occurrence is a full period elapsing while ON/stopped
Where the statement is silent the model branches and accepts every branch: order of simultaneous
entries; whether OFF discards a pending occurrence; the trap's own STOP inside its handler
followed by RETURN.
"""
import os
import itertools

from hypothesis import strategies as st

from vlib.core import Result, Unit
from vlib import harness

from pcbasic.basic.base import signals

ID = 'C38'
LEVEL = 'exploration'
RULE = ("exhaustive: 18 fixed programs (two or three traps among KEY(1), KEY(11), PEN, STRIG(0), "
        "TIMER; ON/STOP/OFF sequences, handlers that re-enable / switch off their own or another "
        "trap, ON <event> GOSUB re-executed with the same or another routine while stopped / pending / inside "
        "the handler / in the error handler, an error handler) x every placement of one and of two event occurrences (quick: second "
        "within 7 boundaries of the first; thorough: all pairs) over all statement boundaries of the run (and all 3-occurrence placements of one event kind; quick: for "
        "4 of the programs); sampled: Hypothesis programs (<= 12 main statements, handler bodies <= 3, "
        "optional error handler, 1-3 statements per line) with <= 7 scheduled occurrences. Non-trivial: some occurrence is "
        "placed while its trap is stopped, OFF, inside its own handler, or while the error handler is "
        "active (decided by the reference model); distinct = distinct (program, schedule).")
ASSUMPTIONS = [
    "COM and PLAY traps are not driven (COM polls a serial device, PLAY polls the sound queue; no "
    "discrete occurrence can be injected without scripting device internals)",
    "order of simultaneously entered handlers, OFF with a pending occurrence followed by ON, and "
    "the trap's own STOP inside its handler followed by RETURN are unspecified: all alternatives "
    "accepted",
    "TIMER: the clock is a harness-owned counter (instance attribute clock.get_time_ms); an "
    "occurrence is injected by advancing it one full period. A period that elapsed while TIMER was "
    "OFF must not fire after TIMER ON (statement: lost; manual: counted from TIMER ON); the "
    "pinned tree fired it (own bucket timer.elapsed-while-off-fires-at-on; fixed in 79ed299f)",
    "ON <event> GOSUB executed again changes the routine only, not ON/OFF/STOP, a remembered "
    "occurrence or the in-handler block; ON ... GOSUB 0 is not generated (the manual does not "
    "define it); ON TIMER(x) is not re-executed (restart of the interval unspecified)",
    "STOP executed while a trap is OFF leaves it OFF (manual: suspension remembers an event only "
    "if handling was switched on before)",
    "the boundary numbering assumes one event check per executed statement (calibrated by the "
    "directed REGRESSIONS cases)",
]
TECHNIQUE = ("harness-owned event schedule injected at statement boundaries; nondeterministic "
             "executable reference model; exhaustive small schedules + Hypothesis programs")

TRAPS = ['K1', 'K11', 'PEN', 'STRIG', 'TIMER']
TRAP_DIGIT = {'K1': '1', 'K11': '2', 'PEN': '3', 'STRIG': '4', 'TIMER': '5'}
ON_DEF = {'K1': 'ON KEY(1) GOSUB %d', 'K11': 'ON KEY(11) GOSUB %d', 'PEN': 'ON PEN GOSUB %d',
          'STRIG': 'ON STRIG(0) GOSUB %d', 'TIMER': 'ON TIMER(1) GOSUB %d'}
CMD_TEXT = {'K1': 'KEY(1) %s', 'K11': 'KEY(11) %s', 'PEN': 'PEN %s', 'STRIG': 'STRIG(0) %s',
            'TIMER': 'TIMER %s'}
PERIOD = 1000


# ---------------------------------------------------------------------------------------------
# compile a case into (BASIC text, flat instruction list for the model)

def compile_case(case):
    traps = case['traps']
    code = []           # model instructions: (op, a, b)
    lines = []          # BASIC lines
    ln = [10]

    join = [0]          # > 0: append the next statements to the previous line with ':'

    def emit(text, ins):
        if join[0] > 0 and lines and ins[0] not in ('end',):
            lines[-1] += ':' + text
            join[0] -= 1
        else:
            lines.append('%d %s' % (ln[0], text))
            ln[0] += 10
            join[0] = case.get('join', 0) if ins[0] in ('tag', 'cmd', 'err') else 0
        code.append(ins)

    def tagstmt(tag):
        return 'T$=T$+"%s"' % tag

    def body(stmts, prefix, owner):
        for j, sm in enumerate(stmts):
            if sm['s'] == 'tag':
                tag = prefix + chr(65 + j)
                emit(tagstmt(tag), ('tag', tag, None))
            elif sm['s'] == 'cmd':
                if sm['e'] not in traps:
                    tag = prefix + chr(97 + j)
                    emit(tagstmt(tag), ('tag', tag, None))
                else:
                    emit(CMD_TEXT[sm['e']] % sm['c'], ('cmd', sm['e'], sm['c']))
            elif sm['s'] == 'redef':
                # ON <event> GOSUB executed again, with the same or the alternate routine as target
                # (not for TIMER: ON TIMER(x) also sets the interval, whose restart is unspecified)
                if sm['e'] not in traps or sm['e'] == 'TIMER':
                    tag = prefix + chr(97 + j)
                    emit(tagstmt(tag), ('tag', tag, None))
                else:
                    which = 'alt' if sm.get('alt') else 'pri'
                    line = 1000 * (traps.index(sm['e']) + 1) + (500 if which == 'alt' else 0)
                    emit(ON_DEF[sm['e']] % line, ('redef', sm['e'], which))
            elif sm['s'] == 'err':
                if case.get('errh') is None or owner == 'errh':
                    tag = prefix + chr(97 + j)
                    emit(tagstmt(tag), ('tag', tag, None))
                else:
                    emit('ERROR 99', ('err', None, None))
            else:
                raise ValueError(sm)

    has_err = case.get('errh') is not None
    hstart = {}
    # line numbers of handlers are fixed: 1000*(index+1), error handler 9000
    if has_err:
        emit('ON ERROR GOTO 9000', ('nop', None, None))
    for i, tr in enumerate(traps):
        emit(ON_DEF[tr] % (1000 * (i + 1)), ('def', tr, None))
    body(case['main'], 'm', 'main')
    emit('END', ('end', None, None))
    for i, tr in enumerate(traps):
        ln[0] = 1000 * (i + 1)
        join[0] = 0
        hstart[(tr, 'pri')] = len(code)
        d = TRAP_DIGIT[tr]
        emit(tagstmt(d + '<'), ('tag', d + '<', None))
        body(case['handlers'].get(tr, []), d, tr)
        emit(tagstmt(d + '>'), ('tag', d + '>', None))
        emit('RETURN', ('return', None, None))
        # alternate routine for the same trap (target of a redefinition)
        ln[0] = 1000 * (i + 1) + 500
        join[0] = 0
        hstart[(tr, 'alt')] = len(code)
        emit(tagstmt(d + '{'), ('tag', d + '{', None))
        emit(tagstmt(d + '}'), ('tag', d + '}', None))
        emit('RETURN', ('return', None, None))
    estart = None
    if has_err:
        ln[0] = 9000
        join[0] = 0
        estart = len(code)
        emit(tagstmt('e<'), ('tag', 'e<', None))
        body(case['errh'], 'e', 'errh')
        emit(tagstmt('e>'), ('tag', 'e>', None))
        emit('RESUME NEXT', ('resume', None, None))
    return '\n'.join(lines) + '\n', code, hstart, estart


# ---------------------------------------------------------------------------------------------
# reference model

class TooManyBranches(Exception):
    pass


def model_traces(case, timer_rearm_on_ON=True, max_steps=400, max_branches=200):
    """-> (set of allowed traces, stats dict) exploring every unspecified choice."""
    _text, code, hstart, estart = compile_case(case)
    traps = case['traps']
    sched = {}
    for k, ev in case['sched']:
        sched.setdefault(k, []).append(ev)
    results = set()
    stats = {'stopped': 0, 'off': 0, 'inhandler': 0, 'inerr': 0, 'entered': 0, 'timer_off_tick': 0,
             'after_end': 0, 'steps': 0, 'redef_stopped': 0, 'redef_pending': 0}
    # DFS over choice sequences
    pending_runs = [[]]
    nruns = 0
    while pending_runs:
        prefix = pending_runs.pop()
        nruns += 1
        if nruns > max_branches:
            raise TooManyBranches()
        choices = list(prefix)
        used = [0]
        arities = []

        def choose(n):
            """Pick among n alternatives; record the arity for backtracking."""
            i = used[0]
            used[0] += 1
            if i < len(choices):
                return choices[i]
            choices.append(0)
            arities.append((i, n))
            return 0

        mode = {t: 'OFF' for t in traps}
        stopped = {t: False for t in traps}
        pend = {t: False for t in traps}
        defined = {t: False for t in traps}
        target = {t: 'pri' for t in traps}
        clock = 0
        tstart = 0
        in_err = False
        resume_pc = None
        stack = []          # (return pc, trap, flags)
        trace = []
        pc = 0
        b = 0
        first = (nruns == 1)
        while True:
            b += 1
            if b > max_steps:
                raise TooManyBranches()
            # occurrences injected just before this boundary's check
            for ev in sched.get(b, []):
                if ev == 'TICK':
                    clock += PERIOD
                    if first and 'TIMER' in traps and mode['TIMER'] == 'OFF':
                        stats['timer_off_tick'] += 1
                    continue
                if ev not in traps:
                    continue
                if first:
                    if mode[ev] == 'OFF':
                        stats['off'] += 1
                    elif any(fr[1] == ev for fr in stack):
                        stats['inhandler'] += 1
                    elif stopped[ev]:
                        stats['stopped'] += 1
                    if in_err and mode[ev] == 'ON':
                        stats['inerr'] += 1
                if mode[ev] == 'ON':
                    pend[ev] = True
            # the timer is polled while switched on
            if 'TIMER' in traps and mode['TIMER'] == 'ON' and defined['TIMER']:
                if clock - tstart >= PERIOD:
                    tstart = clock
                    if first:
                        if any(fr[1] == 'TIMER' for fr in stack):
                            stats['inhandler'] += 1
                        elif stopped['TIMER']:
                            stats['stopped'] += 1
                        if in_err:
                            stats['inerr'] += 1
                    pend['TIMER'] = True
            # dispatch
            if not in_err:
                elig = [t for t in traps if pend[t] and mode[t] == 'ON' and not stopped[t]
                        and defined[t]]
                if len(elig) > 1:
                    perms = list(itertools.permutations(elig))
                    elig = list(perms[choose(len(perms))])
                for t in elig:
                    pend[t] = False
                    stopped[t] = True
                    stack.append([pc, t, False, False])     # ret pc, trap, own STOP seen, own OFF
                    pc = hstart[(t, target[t])]
                    if first:
                        stats['entered'] += 1
            op, a, c = code[pc]
            if op == 'tag':
                trace.append(a)
                pc += 1
            elif op == 'nop':
                pc += 1
            elif op == 'def':
                defined[a] = True
                if a == 'TIMER':
                    tstart = clock
                pc += 1
            elif op == 'redef':
                # a redefinition changes the routine only: ON/OFF/STOP state, a remembered
                # occurrence and the block while the handler runs are untouched
                target[a] = c
                if first:
                    if stopped[a] and mode[a] == 'ON':
                        stats['redef_stopped'] += 1
                    if pend[a]:
                        stats['redef_pending'] += 1
                pc += 1
            elif op == 'cmd':
                if c == 'ON':
                    if a == 'TIMER' and mode[a] == 'OFF' and timer_rearm_on_ON:
                        tstart = clock
                    mode[a] = 'ON'
                    stopped[a] = False
                elif c == 'OFF':
                    if pend[a] and mode[a] == 'ON':
                        # unspecified whether a remembered occurrence survives OFF ... ON
                        if choose(2) == 1:
                            pend[a] = False
                    mode[a] = 'OFF'
                    for fr in stack:
                        if fr[1] == a:
                            fr[3] = True
                elif c == 'STOP':
                    if mode[a] == 'ON':
                        stopped[a] = True
                        for fr in stack:
                            if fr[1] == a:
                                fr[2] = True
                pc += 1
            elif op == 'err':
                in_err = True
                resume_pc = pc + 1
                pc = estart
            elif op == 'resume':
                in_err = False
                pc = resume_pc
            elif op == 'return':
                ret, t, own_stop, own_off = stack.pop()
                if own_stop and stopped[t] and mode[t] == 'ON':
                    # own STOP inside the handler, then RETURN: unspecified
                    if choose(2) == 0:
                        stopped[t] = False
                else:
                    stopped[t] = False
                pc = ret
            elif op == 'end':
                break
        if first:
            stats['steps'] = b
            stats['after_end'] = sum(1 for k, _ in case['sched'] if k > b)
        results.add(''.join(trace))
        # backtrack: schedule the alternatives of every new choice point of this run
        for (i, n) in arities:
            for alt in range(1, n):
                pending_runs.append(choices[:i] + [alt])
    return results, stats


# ---------------------------------------------------------------------------------------------
# real run

def run_real(case, res):
    text, _code, _hs, _es = compile_case(case)
    sched = {}
    for k, ev in case['sched']:
        sched.setdefault(k + 1, []).append(ev)       # call 1 is the direct-mode RUN statement
    with harness.Sess(budget=3000) as sess:
        clk = [3600000]
        sess.impl.clock.get_time_ms = lambda: clk[0]
        o = sess.execute(text.encode())
        if o.kind != 'ok' or o.errors:
            res.fail('unexpected-outcome', 'loading %r: %r' % (text, o))
            return None

        def inject(call):
            for ev in sched.get(call, ()):
                if ev == 'K1':
                    sess.put_signal(signals.KEYB_DOWN, (u'\0;', 0x3b, []))
                elif ev == 'K11':
                    sess.put_signal(signals.KEYB_DOWN, (u'\0H', 0x48, []))
                elif ev == 'PEN':
                    sess.put_signal(signals.PEN_DOWN, (10, 10))
                elif ev == 'STRIG':
                    sess.put_signal(signals.STICK_DOWN, (0, 0))
                elif ev == 'TICK':
                    clk[0] += PERIOD
        sess.inject = inject
        try:
            o = sess.execute(b'RUN')
        finally:
            sess.inject = None
        if o.kind == 'escaped':
            res.fail('escaped.%s@%s' % (o.exc, o.frame), '%r\n%s\n%s' % (case['sched'], text, o.tb))
            return None
        if o.kind == 'budget':
            res.inconclusive = True
            return None
        if o.kind != 'ok' or o.errors:
            res.fail('unexpected-outcome', 'RUN of\n%s with %r: %r' % (text, case['sched'], o))
            return None
        got = bytes(sess.get('T$')).decode('latin-1')
        # the program has ended: direct-mode ON commands and fresh occurrences must not start a handler
        post = case.get('post') or []
        for tr in post:
            if tr not in case['traps']:
                continue
            sched.clear()
            sched[1] = ['TICK' if t == 'TIMER' else t for t in case['traps']]
            sched[2] = list(sched[1])
            sess.inject = inject
            try:
                o = sess.execute((CMD_TEXT[tr] % 'ON').encode() + b":REM")
            finally:
                sess.inject = None
            if o.kind == 'escaped':
                res.fail('escaped.%s@%s' % (o.exc, o.frame), 'direct-mode %s ON after\n%s\n%s' % (
                    tr, text, o.tb))
                return None
            now = bytes(sess.get('T$')).decode('latin-1')
            if o.kind != 'ok' or o.errors or now != got:
                res.fail('trace.entry-in-direct-mode', 'after the program ended with trace %r (schedule '
                         '%r), the direct-mode statement %s changed it to %r: %r\n%s' % (
                             got, case['sched'], CMD_TEXT[tr] % 'ON', now, o, text))
                return None
        return got


def check_case(case):
    res = Result()
    try:
        strict, stats = model_traces(case, timer_rearm_on_ON=True)
    except TooManyBranches:
        res.inconclusive = True
        res.label('model-too-many-branches')
        return res
    nt = stats['stopped'] or stats['off'] or stats['inhandler'] or stats['inerr']
    res.nt(bool(nt))
    for k in ('stopped', 'off', 'inhandler', 'inerr', 'timer_off_tick', 'after_end',
              'redef_stopped', 'redef_pending'):
        if stats[k]:
            res.label('occurrence-' + k)
    res.label('entered-%s' % (stats['entered'] if stats['entered'] < 4 else '4+'))
    if len(strict) > 1:
        res.label('model-branches')
    got = run_real(case, res)
    if got is None:
        return res
    if got in strict:
        return res
    text = compile_case(case)[0]
    detail = 'schedule %r: trace %r, model allows %r\n%s' % (case['sched'], got, sorted(strict)[:6],
                                                           text)
    if stats['timer_off_tick'] or 'TIMER' in case['traps']:
        try:
            lenient, _ = model_traces(case, timer_rearm_on_ON=False)
        except TooManyBranches:
            lenient = set()
        if got in lenient:
            res.excluded += 1
            res.fail('timer.elapsed-while-off-fires-at-on', detail)
            return res
    # classify by the first difference
    res.fail('trace.%s' % classify(got, strict), detail)
    return res


def classify(got, allowed):
    """Root-cause class of a trace mismatch: handler entered although not allowed / missing."""
    def toks(s):
        return [s[i:i + 2] for i in range(0, len(s), 2)]
    g = toks(got)
    best = None
    for a in allowed:
        t = toks(a)
        i = 0
        while i < len(g) and i < len(t) and g[i] == t[i]:
            i += 1
        if best is None or i > best[0]:
            best = (i, t)
    i, t = best
    gi = g[i] if i < len(g) else 'END'
    ti = t[i] if i < len(t) else 'END'
    if gi[-1:] in '<{' and gi != 'e<':
        return 'spurious-entry'
    if ti[-1:] in '<{' and ti != 'e<':
        return 'missing-entry'
    return 'other'


# ---------------------------------------------------------------------------------------------
# generators

def T():
    return {'s': 'tag'}


def Cm(e, c):
    return {'s': 'cmd', 'e': e, 'c': c}


ER = {'s': 'err'}


def Rd(e, alt=False):
    return {'s': 'redef', 'e': e, 'alt': alt}


FIXED = [
    # 0: plain ON
    {'traps': ['K1', 'PEN'], 'main': [Cm('K1', 'ON'), T(), Cm('PEN', 'ON'), T(), T()],
     'handlers': {}, 'errh': None},
    # 1: STOP then ON
    {'traps': ['K1', 'PEN'], 'main': [Cm('K1', 'ON'), Cm('K1', 'STOP'), T(), T(), Cm('K1', 'ON'),
                                      T(), T()], 'handlers': {}, 'errh': None},
    # 2: OFF then ON
    {'traps': ['K1', 'STRIG'], 'main': [Cm('K1', 'ON'), T(), Cm('K1', 'OFF'), T(), Cm('K1', 'ON'),
                                        T()], 'handlers': {}, 'errh': None},
    # 3: handler body is long enough for a second occurrence inside it
    {'traps': ['K1', 'K11'], 'main': [Cm('K1', 'ON'), Cm('K11', 'ON'), T(), T(), T()],
     'handlers': {'K1': [T(), T()], 'K11': [T()]}, 'errh': None},
    # 4: handler turns its own trap back ON
    {'traps': ['K1', 'PEN'], 'main': [Cm('K1', 'ON'), T(), T(), T()],
     'handlers': {'K1': [Cm('K1', 'ON'), T(), T()]}, 'errh': None},
    # 5: handler switches its own trap OFF
    {'traps': ['K1', 'PEN'], 'main': [Cm('K1', 'ON'), Cm('PEN', 'ON'), T(), T(), Cm('K1', 'ON'),
                                      T()],
     'handlers': {'K1': [Cm('K1', 'OFF'), T()]}, 'errh': None},
    # 6: error handler
    {'traps': ['K1', 'PEN'], 'main': [Cm('K1', 'ON'), T(), ER, T(), T()],
     'handlers': {'K1': [T()]}, 'errh': [T(), T()]},
    # 7: error raised inside an event handler
    {'traps': ['K1', 'STRIG'], 'main': [Cm('K1', 'ON'), Cm('STRIG', 'ON'), T(), T()],
     'handlers': {'K1': [ER, T()]}, 'errh': [T()]},
    # 8: error handler toggles events
    {'traps': ['K1', 'PEN'], 'main': [Cm('K1', 'ON'), Cm('PEN', 'ON'), ER, T(), T()],
     'handlers': {}, 'errh': [Cm('K1', 'STOP'), T(), Cm('PEN', 'OFF')]},
    # 9: timer
    {'traps': ['TIMER', 'K1'], 'main': [T(), Cm('TIMER', 'ON'), T(), Cm('TIMER', 'STOP'), T(),
                                        Cm('TIMER', 'ON'), T(), Cm('TIMER', 'OFF'), T(),
                                        Cm('TIMER', 'ON'), T()],
     'handlers': {'TIMER': [T()]}, 'errh': None},
    # 10: handler stops another trap, main re-enables
    {'traps': ['K1', 'K11', 'PEN'], 'main': [Cm('K1', 'ON'), Cm('K11', 'ON'), Cm('PEN', 'ON'), T(),
                                             T(), Cm('K11', 'ON'), T()],
     'handlers': {'K1': [Cm('K11', 'STOP'), T()], 'PEN': [Cm('K1', 'OFF')]}, 'errh': None},
    # 11: own STOP inside handler; STOP while OFF
    {'traps': ['K1', 'PEN'], 'main': [Cm('PEN', 'STOP'), Cm('K1', 'ON'), T(), T(), Cm('PEN', 'ON'),
                                      T(), T()],
     'handlers': {'K1': [Cm('K1', 'STOP'), T()]}, 'errh': None},
    # 12: STOP, OFF, ON with an occurrence remembered in between
    {'traps': ['STRIG', 'K1'], 'main': [Cm('STRIG', 'ON'), Cm('STRIG', 'STOP'), T(),
                                        Cm('STRIG', 'OFF'), T(), Cm('STRIG', 'ON'), T()],
     'handlers': {}, 'errh': None},
    # 13: never switched on
    {'traps': ['K1', 'PEN'], 'main': [T(), Cm('K1', 'STOP'), T(), Cm('K1', 'OFF'), T()],
     'handlers': {}, 'errh': None},
    # 14: redefinition while stopped, then occurrences, then ON
    {'traps': ['K1', 'PEN'], 'main': [Cm('K1', 'ON'), Cm('K1', 'STOP'), Rd('K1'), T(), T(),
                                      Cm('K1', 'ON'), T()], 'handlers': {}, 'errh': None},
    # 15: the handler redefines its own trap (to the alternate routine)
    {'traps': ['K1', 'PEN'], 'main': [Cm('K1', 'ON'), T(), T(), T(), T()],
     'handlers': {'K1': [Rd('K1', True), T(), T()]}, 'errh': None},
    # 16: redefinition between a remembered occurrence and ON; another trap's handler redefines
    {'traps': ['K1', 'STRIG'], 'main': [Cm('K1', 'ON'), Cm('STRIG', 'ON'), Cm('K1', 'STOP'), T(),
                                        Rd('K1', True), T(), Cm('K1', 'ON'), T()],
     'handlers': {'STRIG': [Rd('K1'), T()]}, 'errh': None},
    # 17: redefinition inside the error handler and while OFF
    {'traps': ['PEN', 'K1'], 'main': [Rd('PEN', True), Cm('PEN', 'ON'), ER, T(), Rd('PEN'), T()],
     'handlers': {'PEN': [Rd('PEN'), T()]}, 'errh': [Rd('PEN', True), T()]},
]


def _events_of(prog):
    evs = []
    for t in prog['traps']:
        evs.append('TICK' if t == 'TIMER' else t)
    return evs


def _nboundaries(prog):
    """Upper bound of boundaries worth scheduling: the run without events plus room for handlers."""
    _, stats = model_traces(dict(prog, sched=[]))
    return stats['steps']


def _subsample():
    """VERIF_SCALE < 1 (development / mutation runs only) keeps every k-th enumerated case."""
    try:
        sc = float(os.environ.get('VERIF_SCALE', '1'))
    except ValueError:
        sc = 1.0
    return max(1, int(round(1.0 / sc))) if 0 < sc < 1 else 1


def gen_exhaustive(shard, nshards, tier, seed):
    step = _subsample()
    for j, case in enumerate(_gen_exhaustive(shard, nshards, tier, seed)):
        if j % step == 0:
            yield case


def _gen_exhaustive(shard, nshards, tier, seed):
    i = 0
    for pi, prog in enumerate(FIXED):
        evs = _events_of(prog)
        n0 = _nboundaries(prog)
        # handlers lengthen the run: allow placements a bit beyond the undisturbed length
        nb = n0 + (6 if tier == 'thorough' else 3)
        for k in range(1, nb + 1):
            for e in evs:
                i += 1
                if i % nshards == shard:
                    yield dict(prog, sched=[[k, e]], fixed=pi, post=prog['traps'])
        if pi in (3, 4, 6, 7):
            # the same with two/three statements per program line (returns into mid-line)
            for jn in (1, 2):
                for k in range(1, nb + 1):
                    for e in evs:
                        i += 1
                        if i % nshards == shard:
                            yield dict(prog, sched=[[k, e], [k + 2, e]], fixed=pi, join=jn)
        for k1 in range(1, nb + 1):
            # quick tier: the second occurrence within 7 boundaries of the first (covers every
            # handler/error-handler overlap of these programs); thorough: all pairs
            for k2 in range(k1, nb + 5 if tier == 'thorough' else min(nb + 5, k1 + 8)):
                for e1 in evs:
                    for e2 in evs:
                        if k1 == k2 and e1 >= e2 and not (e1 == e2 and e1 != 'TICK'):
                            continue
                        i += 1
                        if i % nshards == shard:
                            yield dict(prog, sched=[[k1, e1], [k2, e2]], fixed=pi, post=prog['traps'][:1])
        if tier == 'thorough' or pi in (1, 3, 4, 15):
            e = evs[0]
            for ks in itertools.combinations(range(1, nb + 3), 3):
                i += 1
                if i % nshards == shard:
                    yield dict(prog, sched=[[k, e] for k in ks], fixed=pi)


def strat_case():
    traps = st.lists(st.sampled_from(TRAPS), min_size=2, max_size=3, unique=True).map(
        lambda l: sorted(l, key=TRAPS.index))

    def build(tr):
        ev = st.sampled_from(tr)
        cmd = st.builds(Cm, ev, st.sampled_from(['ON', 'ON', 'ON', 'STOP', 'STOP', 'OFF']))
        redef = st.builds(Rd, ev, st.booleans())
        mainst = st.one_of(st.just(T()), st.just(T()), cmd, cmd, cmd, st.just(ER), redef)
        hst = st.one_of(st.just(T()), st.just(T()), cmd, st.just(ER), redef)
        est = st.one_of(st.just(T()), cmd, redef)
        main = st.lists(mainst, min_size=3, max_size=12)
        handlers = st.fixed_dictionaries({t: st.lists(hst, max_size=3) for t in tr})
        errh = st.one_of(st.none(), st.lists(est, max_size=3), st.lists(est, max_size=3))
        evname = st.sampled_from(['TICK' if t == 'TIMER' else t for t in tr])
        sched = st.lists(st.tuples(st.integers(0, 999), evname).map(list), min_size=1, max_size=7)

        def fin(m, h, e, s, jn):
            # fold the boundaries into the length of the run (plus room for handler statements)
            # (multiplicative hashing spreads Hypothesis' small-integer bias over the whole run)
            lo = len(tr) + (1 if e is not None else 0) + 1
            span = len(m) + len(tr) + 12
            s = [[lo + (k * 7919) % span, ev] for k, ev in s]
            return {'traps': tr, 'main': m, 'handlers': h, 'errh': e,
                    'sched': sorted(s, key=lambda x: x[0]), 'post': tr, 'join': jn}
        return st.builds(fin, main, handlers, errh, sched, st.sampled_from([0, 0, 1, 2]))
    return traps.flatmap(build)


def strat_case_on():
    """Same, but the main line starts by switching all traps ON."""
    def pre(case):
        case = dict(case)
        case['main'] = [Cm(t, 'ON') for t in case['traps']] + case['main']
        shift = len(case['traps']) - 1
        case['sched'] = [[k + shift, ev] for k, ev in case['sched']]
        return case
    return strat_case().map(pre)


def units(tier):
    return [
        Unit('exhaustive-small', 'enum', shards=16, gen=gen_exhaustive, exhaustive=True),
        Unit('sampled', 'hyp', shards={'quick': 4, 'thorough': 16}, examples={'quick': 120, 'thorough': 8000},
             strategy=strat_case),
        Unit('sampled-on', 'hyp', shards={'quick': 8, 'thorough': 16}, examples={'quick': 140, 'thorough': 16000},
             strategy=strat_case_on),
    ]


REGRESSIONS = [
    # calibration: F1 at the boundary before the 2nd tag of program 0
    dict(FIXED[0], sched=[[5, 'K1']]),
    dict(FIXED[1], sched=[[5, 'K1'], [5, 'K1']]),
    dict(FIXED[6], sched=[[6, 'K1'], [7, 'K1']]),
    # fixed 79ed299f: a timer period that elapsed before TIMER ON / while TIMER OFF fired after ON
    {'traps': ['TIMER', 'K1'], 'main': [T(), Cm('TIMER', 'ON'), T(), T()], 'handlers': {},
     'errh': None, 'sched': [[2, 'TICK']]},
]

KILLS = [
    "interpreter.handle_basic_events: drop `event.stopped = True` on entry -> trace.spurious-entry "
    "(nested re-entry 1<1<1>1>)",
    "interpreter.trap_error: drop `suspend_all = True` -> trace.spurious-entry (handler inside e< e>)",
    "interpreter.return_: do not clear handler.stopped -> trace.missing-entry (second press never "
    "handled) and trace.spurious-entry",
    "basicevents.command: OFF does not discard from `enabled` -> trace.spurious-entry (occurrence "
    "while OFF handled after ON)",
    "interpreter.handle_basic_events: drop `or not self.run_mode` -> trace.entry-in-direct-mode "
    "(post phase: direct-mode KEY(1) ON after END runs the handler)",
    "interpreter.handle_basic_events: drop `event.triggered = False` -> trace.spurious-entry",
    "interpreter.handle_basic_events: ignore `event.stopped` -> trace.spurious-entry",
    "interpreter.resume_: keep suspend_all -> trace.missing-entry",
    "basicevents.command: STOP also discards from `enabled` -> trace.missing-entry (occurrence "
    "while stopped forgotten)",
    "basicevents.command: ON clears `triggered` -> trace.missing-entry",
    "tree before fix 79ed299f (TIMER period not restarted by TIMER ON) -> "
    "timer.elapsed-while-off-fires-at-on (exhaustive-small program 9, sampled units, REGRESSIONS)",
    "basicevents.EventHandler.set_jump calls reset() (ON <event> GOSUB clears stopped/triggered) -> "
    "trace.spurious-entry (fires while STOPped; handler re-entered before RETURN) and "
    "trace.missing-entry (remembered occurrence dropped) in exhaustive-small programs 14-17, sampled "
    "and sampled-on (survived before redefinition statements were generated)",
    "(exhaustive-small run with VERIF_SCALE=0.15, i.e. every 7th case; all ten still killed)",
]
