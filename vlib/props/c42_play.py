"""
C42 - PLAY emits the notes its music string specifies.

A case is a list of PLAY statements, each a list of structured MML commands. The commands are
rendered to MML text (random case, blanks, single semicolons, numbers as literals / `=VAR;` /
`=`+VARPTR$(VAR), X substrings by name or VARPTR$) and executed in a fresh session whose audio
queue is a recording object installed through the public Session.attach(). The reference MML
interpreter below works on the *structured* commands (it never parses the text the implementation
parses) with exact rational arithmetic and produces the expected list of tone events.

Timing inside pcbasic.basic.sound uses the wall clock only to decide how long PLAY waits (background
queue of 32, foreground wait). The checker replaces the `datetime` name in that module by a
harness-owned clock that jumps one hour at every statement-boundary check, so no case waits in real
time and nothing depends on the machine's speed. The recorded events do not depend on the clock.
"""
import datetime as _real_datetime
from fractions import Fraction

from hypothesis import strategies as st

from vlib.core import Result, Unit
from vlib import harness

from pcbasic.basic import sound as _sound_module
from pcbasic.basic.base import signals

ID = 'C42'
LEVEL = 'exploration'
RULE = ("Hypothesis command lists (1-3 PLAY statements, <= 40 commands) over notes A-G with "
        "#/+/- and explicit lengths 0-64 and 0-3 dots, N0-84, P, L, T32-255, O0-6, runs of < and > "
        "past both ends, MN/ML/MS/MB/MF, X substrings, numeric arguments given as literal, =VAR; or "
        "=VARPTR$; rendered with random case/blanks/semicolons; a malformed command (out-of-range "
        "number, unknown letter, missing number, double semicolon, G=VAR;, bad M mode) may be "
        "inserted at a random position; plus an exhaustive table: every note letter x accidental x "
        "octave and every N0..84, every L1..64 and T32..255 on a dotted note, every mode x dots, every "
        "state setter x {nothing, SOUND f,0, SOUND f,d, BEEP, CLEAR, RUN, NEW} x a following PLAY; "
        "sequences: 3-11 statements (state-setting and note-playing PLAY statements with SOUND/BEEP/"
        "CLEAR/RUN/NEW - on Tandy also SOUND ON/OFF, NOISE - in between), state carried by the model. "
        "Non-trivial: the statement list has a dotted or explicit-length note and a mode, octave or "
        "tempo change, or a malformed command after at least one tone, or PLAY state set by one "
        "statement is carried over another sound statement / reset by CLEAR, RUN, NEW before a later "
        "PLAY; distinct = distinct case.")
ASSUMPTIONS = [
    "frequency: the statement's 'note number n' is read as the 0-based index into the equal-tempered "
    "table, i = octave*12 + semitone (C=0) = N-1, f = 440*2^((i-33)/12): the only reading under which "
    "the letter A is 440*2^k Hz (O2 A = N34 = 440 Hz, as on real GW-BASIC); with the literal '+1' every "
    "A would sound as A#. Independently of that reading, letter notes and N numbers must agree",
    "duration: a note occupies D = (240/T)/L * 1.5^dots seconds, of which the tone lasts fill*D and "
    "a silent gap (1-fill)*D follows, fill = 7/8 (MN), 1 (ML, no gap event), 3/4 (MS) - the manual's "
    "wording; tone == D would contradict the manual",
    "E#, B#, C-, F- : Illegal function call or the enharmonic note are both accepted; a trailing "
    "semicolon is not generated; P0 emits nothing; note length 0 means the current L",
    "events are compared per tone: voice, frequency (rel. 1e-6), duration (rel. 1e-9), volume>0 for "
    "tones; AUDIO_PERSIST/AUDIO_STOP housekeeping events are ignored",
    "three-voice PLAY (syntax=tandy): only the per-voice note sequences are asserted; the silent "
    "synchronisation events inserted at the start of a statement are only required to be silent, "
    "and notes below 110 Hz are not generated (hardware clamp)",
    "a string variable in a numeric position: Type mismatch (manual)",
    "PLAY state (octave, L, tempo, MN/ML/MS) is the *current* setting until changed (manual: 'set "
    "the current octave', defaults only named as defaults) and is reset by CLEAR ('Resets PLAY "
    "state'), RUN ('implies CLEAR') and NEW ('executes CLEAR') - nothing else is documented to "
    "reset it, so SOUND f,d (also d=0), BEEP, NOISE and SOUND ON/OFF in between must leave it alone. "
    "The tones of SOUND f,d (f Hz, d/18.2 s within 1e-3, f=0 a silence) and BEEP (800 Hz, 0.25 s) "
    "are checked as documented; NOISE events are ignored",
    "blanks between commands and between a command letter, its accidental, its number and its dots "
    "are generated and asserted to be ignored (ubiquitous in real MML; GW-BASIC ignores blanks); "
    "blanks BETWEEN THE DIGITS of one number (T2 55, N1 2) are generated in 1 case of 5 but NOT "
    "asserted to be accepted: the statement and docs/source/reference.html (PLAY, DRAW, MML "
    "parameters) say nothing about them. There, Illegal function call is accepted (label "
    "blank-inside-number-rejected); if the statement is accepted its notes must be the right ones",
]
TECHNIQUE = ("recording audio queue via Session.attach; structured-command generator with "
             "independent renderer and reference MML interpreter (exact rationals); exhaustive "
             "note/length/tempo tables; harness-owned clock for sound waits")


# ---------------------------------------------------------------------------------------------
# harness-owned clock for the sound module

_CLOCK = [_real_datetime.datetime(2020, 1, 1)]


class _FakeDatetimeClass(object):
    @staticmethod
    def now():
        return _CLOCK[0]


class _FakeDatetimeModule(object):
    datetime = _FakeDatetimeClass
    timedelta = _real_datetime.timedelta


_sound_module.datetime = _FakeDatetimeModule


def _advance_clock(_call):
    _CLOCK[0] = _CLOCK[0] + _real_datetime.timedelta(hours=1)


class _RecQueue(object):
    """Recording queue: accepts everything, always looks empty to the producer."""

    def __init__(self):
        self.items = []

    def put(self, item, block=False, timeout=None):
        self.items.append(item)

    def put_nowait(self, item):
        self.items.append(item)

    def qsize(self):
        return 0

    def empty(self):
        return True

    def full(self):
        return False

    def get(self, block=False, timeout=None):
        import queue
        raise queue.Empty

    def task_done(self):
        pass

    def join(self):
        pass


class _Iface(object):
    def __init__(self, inputs):
        self.inputs = inputs
        self.video = _RecQueue()
        self.audio = _RecQueue()

    def get_queues(self):
        return self.inputs, self.video, self.audio


# ---------------------------------------------------------------------------------------------
# reference MML interpreter over structured commands

SEMITONE = {'C': 0, 'D': 2, 'E': 4, 'F': 5, 'G': 7, 'A': 9, 'B': 11}
BAD_ACC = {('E', '#'), ('B', '#'), ('C', '-'), ('F', '-')}


def ref_freq(index):
    """440*2^((i-33)/12) as a float (the reference only needs 1e-6 relative accuracy)."""
    return 440.0 * 2.0 ** ((index - 33) / 12.0)


class RefState(object):
    def __init__(self):
        self.octave = 4
        self.L = Fraction(1, 4)
        self.tempo = Fraction(240, 120)     # seconds per whole note
        self.fill = Fraction(7, 8)


class Malformed(Exception):
    def __init__(self, code=5, alt=None):
        Exception.__init__(self)
        self.code = code
        self.alt = alt          # alternative continuation allowed (enharmonic), or None


def ref_run(cmds, state, out, voice, subs, depth=0):
    """Interpret structured commands; append expected events (voice, freq|0, dur, kind) to out."""
    for c in cmds:
        k = c['c']
        if k == 'note':
            dots = c.get('dots', 0)
            ln = c.get('len')
            if ln is not None and not 0 <= ln <= 64:
                raise Malformed()
            D = state.L if not ln else Fraction(1, ln)
            D = D * Fraction(3, 2) ** dots * state.tempo
            acc = c.get('acc', '')
            a = '#' if acc in ('#', '+') else acc
            semi = SEMITONE[c['n']] + (1 if a == '#' else -1 if a == '-' else 0)
            if (c['n'], a) in BAD_ACC:
                raise Malformed(alt=('note', state.octave * 12 + semi, D))
            emit_note(out, voice, state.octave * 12 + semi, D, state.fill)
        elif k == 'N':
            n = c['v']
            if not 0 <= n <= 84:
                raise Malformed()
            D = state.L * Fraction(3, 2) ** c.get('dots', 0) * state.tempo
            if n == 0:
                out.append((voice, 0.0, D, 'pause'))
            else:
                emit_note(out, voice, n - 1, D, state.fill)
        elif k == 'P':
            n = c['v']
            if n is None or not 0 <= n <= 64:
                raise Malformed()
            if n > 0:
                D = Fraction(1, n) * Fraction(3, 2) ** c.get('dots', 0) * state.tempo
                out.append((voice, 0.0, D, 'pause'))
        elif k == 'L':
            if not 1 <= c['v'] <= 64:
                raise Malformed()
            state.L = Fraction(1, c['v'])
        elif k == 'T':
            if not 32 <= c['v'] <= 255:
                raise Malformed()
            state.tempo = Fraction(240, c['v'])
        elif k == 'O':
            if not 0 <= c['v'] <= 6:
                raise Malformed()
            state.octave = c['v']
        elif k == '>':
            state.octave = min(6, state.octave + 1)
        elif k == '<':
            state.octave = max(0, state.octave - 1)
        elif k == 'M':
            m = c['m']
            if m == 'N':
                state.fill = Fraction(7, 8)
            elif m == 'L':
                state.fill = Fraction(1)
            elif m == 'S':
                state.fill = Fraction(3, 4)
            elif m in ('F', 'B'):
                pass
            else:
                raise Malformed()
        elif k == 'X':
            ref_run(subs[c['s']], state, out, voice, subs, depth + 1)
        elif k == 'bad':
            raise Malformed(c.get('code', 5))
        else:
            raise ValueError(k)


def emit_note(out, voice, index, D, fill):
    out.append((voice, ref_freq(index), fill * D, 'tone'))
    if fill != 1:
        out.append((voice, 0.0, (1 - fill) * D, 'gap'))


# ---------------------------------------------------------------------------------------------
# renderer: structured commands -> BASIC string expression pieces

class Renderer(object):
    """Deterministic pseudo-random rendering driven by the integers in case['style']."""

    def __init__(self, style, numvars, digitblanks=False):
        self.digitblanks = digitblanks
        self.split_used = False
        self.style = list(style) or [0]
        self.i = 0
        self.numvars = numvars      # value -> variable name for numbers passed by reference
        self.pieces = ['']          # literal text pieces and ('vp', varname)

    def pick(self, n):
        v = self.style[self.i % len(self.style)] + self.i // len(self.style)
        self.i += 1
        return v % n

    def text(self, s):
        if isinstance(self.pieces[-1], str):
            self.pieces[-1] += s
        else:
            self.pieces.append(s)

    def vp(self, name):
        self.pieces.append(('vp', name))
        self.pieces.append('')

    def blank(self):
        if self.pick(5) == 0:
            self.text(' ' * (1 + self.pick(2)))

    def letter(self, ch):
        self.text(ch.lower() if self.pick(4) == 0 else ch)

    def number(self, v, allow_ref=True):
        mode = self.pick(6) if allow_ref else 0
        if mode == 4 and v in self.numvars:
            self.text('=' + self.numvars[v] + ';')
        elif mode == 5 and v in self.numvars:
            self.text('=')
            self.vp(self.numvars[v])
        else:
            s = str(v)
            if self.pick(7) == 0 and v >= 0:
                s = '0' + s
            self.blank()
            self.text(self.digits(s))

    def digits(self, s):
        """Optionally put blanks BETWEEN the digits of a number (unasserted region, see
        ASSUMPTIONS): only in cases generated with digitblanks."""
        if self.digitblanks and len(s) > 1 and s.isdigit() and self.pick(2) == 0:
            self.split_used = True
            return (' ' * (1 + self.pick(2))).join(s)
        return s

    def cmds(self, cmds, substyle):
        for j, c in enumerate(cmds):
            if j and c['c'] == 'bad':
                # a separator, so that the malformed text cannot be read as a suffix of the
                # preceding command (C then 1 would be the note C1)
                self.text(';')
            elif j and self.pick(4) == 0:
                self.text(';')
            self.blank()
            k = c['c']
            if k == 'note':
                self.letter(c['n'])
                if c.get('acc'):
                    self.blank()
                    self.text(c['acc'])
                if c.get('len') is not None:
                    self.blank()
                    self.text(self.digits(str(c['len'])))
                for _ in range(c.get('dots', 0)):
                    self.blank()
                    self.text('.')
            elif k in ('N', 'L', 'T', 'O'):
                self.letter(k)
                self.number(c['v'])
                for _ in range(c.get('dots', 0)):
                    self.text('.')
            elif k == 'P':
                self.letter('P')
                if c['v'] is not None:
                    self.number(c['v'], allow_ref=False)
                for _ in range(c.get('dots', 0)):
                    self.text('.')
            elif k in ('>', '<'):
                self.text(k)
            elif k == 'M':
                self.letter('M')
                self.blank()
                self.letter(c['m'])
            elif k == 'X':
                self.letter('X')
                if substyle[c['s']] == 'name':
                    self.text(c['s'] + ';')
                else:
                    self.vp(c['s'])
            elif k == 'bad':
                self.text(c['text'])
            else:
                raise ValueError(k)
        return self.pieces


def expr_of(pieces):
    parts = []
    for p in pieces:
        if isinstance(p, str):
            if p:
                parts.append('"%s"' % p)
        else:
            parts.append('VARPTR$(%s)' % p[1])
    return '+'.join(parts) or '""'


def plain_text(cmds, style):
    """Render a substring (no references inside) to MML text."""
    r = Renderer(style, {})
    pieces = r.cmds(cmds, {})
    return ''.join(p for p in pieces if isinstance(p, str))


# ---------------------------------------------------------------------------------------------
# oracle

NUMVARS = {4: 'K4%', 8: 'K8', 2: 'K2%', 16: 'K16', 3: 'K3', 120: 'T1%', 64: 'K64', 200: 'T2',
           1: 'K1%', 5: 'K5', 0: 'K0%', 40: 'N40', 84: 'N84%', 32: 'K32', 255: 'T3%', 6: 'K6%'}


def close(obs, ref, rel):
    ref = float(ref)
    return abs(obs - ref) <= rel * max(abs(ref), 1e-12)


def check_case(case):
    res = Result()
    tandy = case.get('syntax') == 'tandy'
    subs = case.get('subs', {})
    substyle = case.get('substyle', {})
    style = case.get('style', [0])
    kw = {'syntax': 'tandy'} if tandy else {}
    nvoices = 3 if tandy else 1
    states = [RefState() for _ in range(nvoices)]
    sess = harness.Sess(budget=4000, **kw)
    try:
        iface = _Iface(sess.impl.queues.inputs)
        sess.s.attach(iface)
        audio = iface.audio
        sess.inject = _advance_clock
        # variables
        setup = []
        for v, name in sorted(NUMVARS.items()):
            setup.append('%s=%d' % (name, v))
        for name, cmds in sorted(subs.items()):
            setup.append('%s="%s"' % (name, plain_text(cmds, style)))

        def do_setup():
            o = sess.execute(':'.join(setup).encode())
            if o.kind != 'ok' or o.errors:
                res.fail('unexpected-outcome', 'setup %r: %r' % (setup, o))
                return False
            return True
        if not do_setup():
            return res
        had_tone = False
        sound_on = tandy        # Tandy starts with SOUND ON
        state_set = False       # a PLAY changed octave/length/tempo/articulation since the last reset
        summary = {'dotted': False, 'explicit': False, 'change': False, 'malformed_after_tone': False,
                   'state-carried-over-other-sound-statement': False,
                   'state-reset-by-clear-run-new': False}
        for stmt in case['plays']:
            if isinstance(stmt, dict):
                # a statement between PLAY statements
                kind = stmt['st']
                if kind == 'noise' and not sound_on:
                    continue
                text = inter_text(stmt)
                n0 = len(audio.items)
                o = sess.execute(text.encode())
                if o.kind == 'escaped':
                    res.fail('escaped.%s@%s' % (o.exc, o.frame), '%s\n%s' % (text, o.tb))
                    return res
                if o.kind == 'budget':
                    res.inconclusive = True
                    return res
                if o.kind != 'ok' or o.errors:
                    res.fail('unexpected-outcome', '%s: %r' % (text, o))
                    return res
                got = [e.params for e in audio.items[n0:] if e.event_type == signals.AUDIO_TONE]
                res.label('inter-' + kind)
                if kind in ('clear', 'run', 'new'):
                    # manual: CLEAR resets the PLAY state; RUN implies CLEAR; NEW executes CLEAR
                    states = [RefState() for _ in range(nvoices)]
                    if state_set:
                        summary['state-reset-by-clear-run-new'] = True
                    state_set = False
                    if not do_setup():
                        return res
                else:
                    # SOUND, BEEP, NOISE, SOUND ON/OFF are not documented to touch the PLAY state
                    if state_set:
                        summary['state-carried-over-other-sound-statement'] = True
                    if kind == 'soundon':
                        sound_on = True
                    elif kind == 'soundoff':
                        sound_on = False
                    elif kind == 'sound' and stmt['d'] > 0:
                        # manual: frequency Hz for duration/18.2 seconds (0: silence of that length)
                        exp1 = [(0, float(stmt['f']), Fraction(stmt['d'] * 10, 182),
                                 'tone' if stmt['f'] else 'pause')]
                        if not compare(res, text, got, exp1, 'sound', dur_rel=1e-3):
                            return res
                    elif kind == 'beep':
                        # manual: 800 Hz for 0.25 s
                        if not compare(res, text, got, [(0, 800.0, Fraction(1, 4), 'tone')], 'beep'):
                            return res
                continue
            voices = stmt if tandy else [stmt]
            if any(c['c'] in ('O', 'L', 'T', '>', '<') or (c['c'] == 'M' and c['m'] in 'NLS')
                   or c['c'] == 'X' for cmds in voices for c in cmds):
                state_set = True
            exp = []
            errs = []
            for v, cmds in enumerate(voices):
                out = []
                try:
                    ref_run(cmds, states[v], out, v, subs)
                    errs.append(None)
                except Malformed as m:
                    errs.append(m)
                exp.append(out)
                scan_summary(cmds, subs, summary)
            texts = []
            split_digits = False
            for v, cmds in enumerate(voices):
                r = Renderer([x + 3 * v for x in style], NUMVARS, bool(case.get('digitblanks')))
                texts.append(expr_of(r.cmds(cmds, substyle)))
                split_digits = split_digits or r.split_used
            stmt_text = 'PLAY ' + ','.join(texts)
            n0 = len(audio.items)
            o = sess.execute(stmt_text.encode())
            if o.kind == 'escaped':
                res.fail('escaped.%s@%s' % (o.exc, o.frame), '%s\n%s' % (stmt_text, o.tb))
                return res
            if o.kind == 'budget':
                res.inconclusive = True
                return res
            if o.kind != 'ok':
                res.fail('unexpected-outcome', '%s: %r' % (stmt_text, o))
                return res
            got = [e.params for e in audio.items[n0:] if e.event_type == signals.AUDIO_TONE]
            err = o.err
            if split_digits:
                res.label('blank-inside-number')
                if err == 5:
                    # neither the statement nor the manual says whether a blank may split a number:
                    # rejection is accepted (the case ends here); acceptance must give the right notes
                    res.label('blank-inside-number-rejected')
                    break
            if tandy:
                if any(errs):
                    # interleaved parsing: how far the other voices got is not modelled
                    if err not in (5, 13):
                        res.fail('malformed.no-error', '%s: expected Illegal function call, got %r'
                                 % (stmt_text, o))
                    res.label('tandy-malformed')
                    return res
                if err:
                    res.fail('spurious-error', '%s: %r' % (stmt_text, o))
                    return res
                for v in range(3):
                    gv = [p for p in got if p[0] == v]
                    # leading silent synchronisation event(s)
                    while gv and gv[0][1] == 0 and gv[0][4] == 0 and (
                            not exp[v] or len(gv) > len(exp[v])):
                        gv.pop(0)
                    if not compare(res, stmt_text, gv, exp[v], 'voice%d' % v):
                        return res
                res.label('tandy-ok')
                continue
            m = errs[0]
            if m is None:
                if err:
                    res.fail('spurious-error', '%s: %r, expected %d tone events' % (
                        stmt_text, o, len(exp[0])))
                    return res
                if not compare(res, stmt_text, got, exp[0], ''):
                    return res
                if exp[0]:
                    had_tone = True
            else:
                if had_tone or exp[0]:
                    summary['malformed_after_tone'] = True
                ok_alt = False
                if m.alt is not None and not err:
                    # enharmonic reading accepted: re-run the model treating the note as valid
                    res.label('enharmonic-accepted')
                    ok_alt = True
                    # resynchronise: we cannot continue this statement's model cheaply -> stop case
                    break
                if not ok_alt:
                    if err != m.code:
                        res.fail('malformed.no-error' if not err else 'malformed.wrong-error',
                                 '%s: expected error %d after %d events, got %r (events %r)' % (
                                     stmt_text, m.code, len(exp[0]), o, got[len(exp[0]):][:4]))
                        return res
                    if not compare(res, stmt_text, got, exp[0], 'before-error'):
                        return res
                    res.label('malformed-%d' % m.code)
                    if exp[0]:
                        had_tone = True
        res.nt(((summary['dotted'] or summary['explicit']) and summary['change'])
               or summary['malformed_after_tone']
               or summary['state-carried-over-other-sound-statement']
               or summary['state-reset-by-clear-run-new'])
        for k, v in sorted(summary.items()):
            if v:
                res.label(k)
    finally:
        sess.inject = None
        sess.close()
    return res


def scan_summary(cmds, subs, summary):
    for c in cmds:
        k = c['c']
        if k in ('note', 'N', 'P') and c.get('dots'):
            summary['dotted'] = True
        if k == 'note' and c.get('len'):
            summary['explicit'] = True
        if k in ('M', 'O', 'T', '>', '<', 'L'):
            summary['change'] = True
        if k == 'X':
            scan_summary(subs[c['s']], subs, summary)


def inter_text(stmt):
    kind = stmt['st']
    if kind == 'sound':
        return 'SOUND %d,%d' % (stmt['f'], stmt['d'])
    return {'beep': 'BEEP', 'clear': 'CLEAR', 'run': 'RUN', 'new': 'NEW', 'soundon': 'SOUND ON',
            'soundoff': 'SOUND OFF',
            'noise': 'NOISE %d,%d,%d' % (stmt.get('src', 0), stmt.get('vol', 8), stmt.get('d', 3))
            }[kind]


def compare(res, stmt_text, got, exp, tag, dur_rel=1e-9):
    """got: list of params (voice, freq, dur, loop, volume); exp: (voice, freq, dur, kind)."""
    pre = ('%s ' % tag) if tag else ''
    for i, e in enumerate(exp):
        if i >= len(got):
            res.fail('events.missing', '%s%s: %d events, expected %d; first missing %r' % (
                pre, stmt_text, len(got), len(exp), show(e)))
            return False
        g = got[i]
        v, f, d, kind = e
        if g[0] != v:
            res.fail('events.voice', '%s%s: event %d %r expected %r' % (pre, stmt_text, i, g, show(e)))
            return False
        if kind == 'tone':
            if not close(g[1], f, 1e-6):
                res.fail('tone.frequency', '%s%s: event %d frequency %r expected %r (%r)' % (
                    pre, stmt_text, i, g[1], f, g))
                return False
            if not g[4] > 0 or g[3]:
                res.fail('tone.volume-loop', '%s%s: event %d %r' % (pre, stmt_text, i, g))
                return False
        else:
            if g[1] != 0:
                res.fail('%s.frequency' % kind, '%s%s: event %d %r expected silence %r' % (
                    pre, stmt_text, i, g, show(e)))
                return False
        if not close(g[2], d, dur_rel):
            res.fail('%s.duration' % kind, '%s%s: event %d duration %r expected %s = %r (%r)' % (
                pre, stmt_text, i, g[2], d, float(d), g))
            return False
    if len(got) > len(exp):
        res.fail('events.extra', '%s%s: %d events, expected %d; first extra %r' % (
            pre, stmt_text, len(got), len(exp), got[len(exp)]))
        return False
    return True


def show(e):
    return (e[0], round(e[1], 3), str(e[2]), e[3])


# ---------------------------------------------------------------------------------------------
# generators

NOTE_NAMES = 'CDEFGAB'
BAD_TEXTS = [
    ('L0', 5), ('L65', 5), ('T31', 5), ('T256', 5), ('O7', 5), ('N85', 5), ('C65', 5), ('P65', 5),
    ('H', 5), ('I', 5), ('J', 5), ('K', 5), ('Q', 5), ('R', 5), ('S', 5), ('U', 5), ('W', 5),
    ('Y', 5), ('Z', 5), ('MX', 5), ('MA', 5), ('L', 5), ('T', 5), ('O', 5), ('N', 5), ('P', 5),
    ('=K4%;', 5), (';;C', 5), ('L=S9$;', 13), ('1', 5), ('#', 5), ('.', 5), ('O-1', 5),
    ('N-1', 5), ('L=;', 5), ('X;', 5), ('$', 5), ('V5', 5),
]


def st_cmd(allow_x, lowoct=0):
    note = st.builds(
        lambda n, acc, ln, dots: dict({'c': 'note', 'n': n, 'dots': dots},
                                      **dict(([('acc', acc)] if acc else [])
                                             + ([('len', ln)] if ln is not None else []))),
        st.sampled_from(NOTE_NAMES), st.sampled_from(['', '', '', '#', '+', '-']),
        st.one_of(st.none(), st.none(), st.integers(0, 64), st.sampled_from([1, 2, 4, 8, 16, 64, 0])),
        st.sampled_from([0, 0, 0, 1, 1, 2, 3]))
    num = lambda lo, hi, extra: st.one_of(st.integers(lo, hi), st.sampled_from(extra))    # noqa: E731
    alts = [
        note, note, note, note,
        st.builds(lambda v, d: {'c': 'N', 'v': v, 'dots': d}, num(0 if not lowoct else 25, 84,
                                                                  [40, 84, 84]),
                  st.sampled_from([0, 0, 1, 2])),
        st.builds(lambda v, d: {'c': 'P', 'v': v, 'dots': d if v else 0}, num(0, 64, [4, 8, 0, 64]),
                  st.sampled_from([0, 0, 1, 2])),
        st.builds(lambda v: {'c': 'L', 'v': v}, num(1, 64, [4, 8, 16, 64, 1, 2, 3])),
        st.builds(lambda v: {'c': 'T', 'v': v}, num(32, 255, [120, 200, 32, 255])),
        st.builds(lambda v: {'c': 'O', 'v': v}, num(lowoct or 0, 6, [0 if not lowoct else lowoct, 6])),
        st.just({'c': '>'}), st.just({'c': '>'}), st.just({'c': '<'}) if not lowoct
        else st.just({'c': '>'}),
        st.builds(lambda m: {'c': 'M', 'm': m}, st.sampled_from(['N', 'L', 'S', 'B', 'F', 'S', 'L'])),
    ]
    if allow_x:
        alts.append(st.builds(lambda s: {'c': 'X', 's': s}, st.sampled_from(['S1$', 'S2$'])))
    return st.one_of(*alts)


def _fix_bad_acc(cmds):
    """Keep E#/B#/C-/F- rare: rewrite most of them to a valid accidental."""
    out = []
    for i, c in enumerate(cmds):
        if c['c'] == 'note':
            a = '#' if c.get('acc') in ('#', '+') else c.get('acc', '')
            if (c['n'], a) in BAD_ACC and i % 5:
                c = dict(c)
                del c['acc']
        out.append(c)
    return out


def strat_case():
    sub = st.lists(st_cmd(False), min_size=0, max_size=5).map(_fix_bad_acc)
    body = st.lists(st_cmd(True), min_size=1, max_size=14).map(_fix_bad_acc)
    bad = st.one_of(st.none(), st.none(),
                    st.tuples(st.sampled_from(BAD_TEXTS), st.integers(0, 40)))
    style = st.lists(st.integers(0, 1000), min_size=1, max_size=8)

    def build(plays, s1, s2, bad_, style_, ss1, ss2, runs, db=False, gaps=()):
        plays = [list(p) for p in plays]
        # runs of < or > past both ends of the octave range
        if runs is not None:
            k, n, at = runs
            p = plays[at % len(plays)]
            pos = (at // 3) % (len(p) + 1)
            p[pos:pos] = [{'c': k}] * n
        if bad_ is not None:
            (text, code), at = bad_
            p = plays[at % len(plays)]
            pos = (at // 3) % (len(p) + 1)
            p.insert(pos, {'c': 'bad', 'text': text, 'code': code})
        plays[0] = [{'c': 'M', 'm': 'B'}] + plays[0]
        if gaps:
            seq = []
            for i, p in enumerate(plays):
                seq.append(p)
                if i + 1 < len(plays):
                    seq.extend(gaps[i % len(gaps)])
            plays = seq
        case = {'plays': plays, 'subs': {'S1$': s1, 'S2$': s2},
                'substyle': {'S1$': ss1, 'S2$': ss2}, 'style': style_}
        if db:
            case['digitblanks'] = True
        return case
    return st.builds(build, st.lists(body, min_size=1, max_size=3), sub, sub, bad, style,
                     st.sampled_from(['name', 'vp']), st.sampled_from(['name', 'vp']),
                     st.one_of(st.none(), st.tuples(st.sampled_from(['<', '>']), st.integers(3, 9),
                                                    st.integers(0, 60))),
                     st.sampled_from([False, False, False, False, True]),
                     st.lists(st.lists(st_inter(), max_size=2), max_size=2))


def st_inter(tandy=False):
    """Statements between PLAY statements."""
    freq = st.sampled_from([0, 110, 440, 523, 1000, 2000, 37 if not tandy else 150, 32000])
    alts = [
        st.builds(lambda f_, d: {'st': 'sound', 'f': f_, 'd': d}, freq,
                  st.sampled_from([0, 0, 0, 1, 2, 5, 18])),
        st.just({'st': 'beep'}),
        st.sampled_from([{'st': 'clear'}, {'st': 'run'}, {'st': 'new'}]),
    ]
    if tandy:
        alts += [st.just({'st': 'soundon'}), st.just({'st': 'soundoff'}),
                 st.builds(lambda s, v, d: {'st': 'noise', 'src': s, 'vol': v, 'd': d},
                           st.integers(0, 7), st.integers(0, 15), st.integers(1, 9))]
    return st.one_of(*alts)


def st_setter():
    """A command that changes the PLAY state."""
    return st.one_of(
        st.builds(lambda v: {'c': 'O', 'v': v}, st.sampled_from([0, 1, 2, 3, 5, 6])),
        st.builds(lambda v: {'c': 'L', 'v': v}, st.sampled_from([1, 2, 8, 16, 3, 64])),
        st.builds(lambda v: {'c': 'T', 'v': v}, st.sampled_from([32, 60, 200, 255, 99])),
        st.builds(lambda m: {'c': 'M', 'm': m}, st.sampled_from(['S', 'L', 'S', 'L', 'N', 'F', 'B'])),
        st.sampled_from([{'c': '>'}, {'c': '<'}]),
    )


def strat_sequence():
    """Sequences of statements: short PLAY statements that set state or play notes relying on
    the state set by an earlier one, with other sound statements / CLEAR, RUN, NEW in between."""
    notecmd = st_cmd(False)
    play = st.one_of(
        st.lists(st_setter(), min_size=1, max_size=4),
        st.lists(st.one_of(notecmd, notecmd, st_setter()), min_size=1, max_size=5).map(_fix_bad_acc),
    )
    item = st.one_of(play, play, play, st_inter())
    style = st.lists(st.integers(0, 1000), min_size=1, max_size=6)

    def build(items, style_):
        items = [list(x) if isinstance(x, list) else x for x in items]
        # background mode first, and a note at the very end that shows the accumulated state
        seq = [[{'c': 'M', 'm': 'B'}]] + items + [[{'c': 'note', 'n': 'E', 'dots': 1}]]
        return {'plays': seq, 'subs': {'S1$': [], 'S2$': []},
                'substyle': {'S1$': 'name', 'S2$': 'name'}, 'style': style_}
    return st.builds(build, st.lists(item, min_size=2, max_size=9), style)


def strat_tandy():
    body = st.lists(st_cmd(False, lowoct=2), min_size=0, max_size=6).map(_fix_bad_acc)
    style = st.lists(st.integers(0, 1000), min_size=1, max_size=6)

    def build(plays, style_, inters):
        plays = [[list(v) for v in p] for p in plays]
        plays[0][0] = [{'c': 'M', 'm': 'B'}] + plays[0][0]
        if not any(plays[0]):
            plays[0][0].append({'c': 'note', 'n': 'C', 'dots': 0})
        for p in plays:
            if not any(p):
                p[1].append({'c': 'note', 'n': 'E', 'dots': 0})
        seq = []
        for i, p in enumerate(plays):
            seq.append(p)
            if i + 1 < len(plays):
                seq.extend(inters[i % len(inters)] if inters else [])
        return {'plays': seq, 'subs': {}, 'substyle': {}, 'style': style_, 'syntax': 'tandy'}
    return st.builds(build, st.lists(st.tuples(body, body, body), min_size=1, max_size=3), style,
                     st.lists(st.lists(st_inter(True), max_size=2), max_size=2))


def gen_tables(shard, nshards, tier, seed):
    cases = []
    MB = {'c': 'M', 'm': 'B'}
    # every letter x accidental x octave, cross-checked with the N number of the same pitch
    for o in range(7):
        cmds = [MB, {'c': 'O', 'v': o}]
        for n in NOTE_NAMES:
            for acc in ('', '#', '+', '-'):
                a = '#' if acc == '+' else acc
                if (n, a) in BAD_ACC:
                    continue
                cmds.append({'c': 'note', 'n': n, 'acc': acc, 'dots': 0} if acc
                            else {'c': 'note', 'n': n, 'dots': 0})
        cases.append({'plays': [cmds[:16], [{'c': 'M', 'm': 'B'}] + cmds[16:]], 'style': [1]})
    for lo in range(0, 85, 12):
        cases.append({'plays': [[MB] + [{'c': 'N', 'v': v, 'dots': 0}
                                        for v in range(lo, min(lo + 12, 85))]], 'style': [2]})
    # every L and every explicit note length with dots
    for L in range(1, 65):
        cases.append({'plays': [[MB, {'c': 'L', 'v': L}, {'c': 'note', 'n': 'A', 'dots': 2},
                                 {'c': 'note', 'n': 'C', 'len': L, 'dots': 3},
                                 {'c': 'P', 'v': L, 'dots': 1}, {'c': 'N', 'v': 30, 'dots': 1}]],
                      'style': [L]})
    # every tempo
    for T in range(32, 256):
        if tier == 'quick' and T % 3 and T not in (32, 255, 120):
            continue
        cases.append({'plays': [[MB, {'c': 'T', 'v': T}, {'c': 'M', 'm': 'S'},
                                 {'c': 'note', 'n': 'G', 'len': 8, 'dots': 1},
                                 {'c': 'M', 'm': 'L'}, {'c': 'note', 'n': 'G', 'dots': 0}]],
                      'style': [T]})
    # every mode x dots, octave clamping at both ends
    for m in 'NLS':
        for dots in range(4):
            cases.append({'plays': [[MB, {'c': 'M', 'm': m}, {'c': 'note', 'n': 'D', 'acc': '-',
                                                              'len': 3, 'dots': dots}]],
                          'style': [dots]})
    for k, o in (('>', 4), ('<', 3), ('>', 6), ('<', 0)):
        cases.append({'plays': [[MB, {'c': 'O', 'v': o}] + [{'c': k}] * 8
                                + [{'c': 'note', 'n': 'B', 'dots': 0}, {'c': 'N', 'v': 84, 'dots': 0},
                                   {'c': 'N', 'v': 1, 'dots': 0}]], 'style': [7]})
    # every malformed text alone and after a tone
    for text, code in BAD_TEXTS:
        cases.append({'plays': [[MB, {'c': 'bad', 'text': text, 'code': code}]], 'style': [0]})
        cases.append({'plays': [[MB, {'c': 'note', 'n': 'C', 'dots': 1},
                                 {'c': 'bad', 'text': text, 'code': code},
                                 {'c': 'note', 'n': 'D', 'dots': 0}],
                                [{'c': 'note', 'n': 'E', 'dots': 0}]], 'style': [0]})
    # PLAY state across statements: every setter x every statement in between x a note
    setters = [[{'c': 'O', 'v': 2}], [{'c': 'L', 'v': 16}], [{'c': 'T', 'v': 200}],
               [{'c': 'M', 'm': 'S'}], [{'c': 'M', 'm': 'L'}], [{'c': '>'}, {'c': '>'}],
               [{'c': 'O', 'v': 1}, {'c': 'L', 'v': 2}, {'c': 'T', 'v': 60}, {'c': 'M', 'm': 'S'}]]
    inters = [None, {'st': 'sound', 'f': 440, 'd': 0}, {'st': 'sound', 'f': 440, 'd': 3},
              {'st': 'sound', 'f': 0, 'd': 2}, {'st': 'beep'}, {'st': 'clear'}, {'st': 'run'},
              {'st': 'new'}]
    for si, setter in enumerate(setters):
        for it in inters:
            seq = [[MB] + setter]
            if it is not None:
                seq.append(it)
            seq.append([MB, {'c': 'note', 'n': 'E', 'dots': 1}, {'c': 'N', 'v': 40, 'dots': 0}])
            cases.append({'plays': seq, 'style': [si]})
    for i, c in enumerate(cases):
        c.setdefault('subs', {})
        c.setdefault('substyle', {})
        if i % nshards == shard:
            yield c


def units(tier):
    return [
        Unit('tables', 'enum', shards={'quick': 2, 'thorough': 8}, gen=gen_tables, exhaustive=(tier == 'thorough')),
        Unit('strings', 'hyp', shards={'quick': 8, 'thorough': 16}, examples={'quick': 300, 'thorough': 12500},
             strategy=strat_case),
        Unit('sequences', 'hyp', shards={'quick': 4, 'thorough': 16},
             examples={'quick': 300, 'thorough': 6000}, strategy=strat_sequence),
        Unit('three-voice', 'hyp', shards={'quick': 2, 'thorough': 8}, examples={'quick': 160, 'thorough': 2500},
             strategy=strat_tandy),
    ]


REGRESSIONS = [
    # O2 A = N34 = 440 Hz; dotted quarter at T120 = 0.75 s of which 7/8 sound
    {'plays': [[{'c': 'M', 'm': 'B'}, {'c': 'O', 'v': 2}, {'c': 'note', 'n': 'A', 'len': 4, 'dots': 1},
                {'c': 'N', 'v': 34, 'dots': 0}]], 'subs': {}, 'substyle': {}, 'style': [0]},
    {'plays': [[{'c': 'M', 'm': 'B'}, {'c': 'X', 's': 'S1$'}, {'c': 'note', 'n': 'C', 'dots': 2}],
               [{'c': 'note', 'n': 'C', 'dots': 0}]],
     'subs': {'S1$': [{'c': 'L', 'v': 16}, {'c': 'M', 'm': 'S'}, {'c': '>'}], 'S2$': []},
     'substyle': {'S1$': 'vp', 'S2$': 'name'}, 'style': [4, 5, 9]},
]

KILLS = [
    "sound.play_: second and later dots do not lengthen a letter note -> tone.duration (tables)",
    "sound.play_: tempo 240./T -> 60./T -> tone.duration",
    "sound.play_: MN fill 7/8 -> 0.9 -> tone.duration; MS fill 3/4 -> 0.7 -> tone.duration",
    "sound.play_: '>' clamps at 7 -> escaped.IndexError@sound.py:play_",
    "sound.play_: '<' clamps at 1 -> tone.frequency",
    "sound.play_: N n uses NOTE_FREQ[n] -> tone.frequency, escaped.IndexError (N84)",
    "sound.NOTES: E- mapped to semitone 4 -> tone.frequency",
    "sound.play_: L accepts 65 -> malformed.no-error",
    "sound.play_: pause emitted with the note fill -> pause.duration",
    "sound.play_: X substring inserted after the rest of the string -> events.extra/missing, "
    "tone.frequency, tone.duration (strings)",
    "sound.stop_all_sound also calls reset_play() (and _clear_all no longer does): SOUND f,0 / "
    "SOUND ON/OFF between PLAY statements reset octave/L/T/articulation -> tone.frequency, "
    "tone.duration, pause.duration in tables (setter x inter family), sequences, strings and "
    "three-voice (survived while cases had nothing between their PLAY statements)",
    "NOT ASSERTED: mlparser._parse_literal stopping at a blank inside a number (T2 55) - the "
    "statement and the manual are silent on blanks between digits; such strings are generated and "
    "labelled (blank-inside-number / -rejected), a rejection is accepted",
    "sound.play_: dots after N ignored -> tone.duration, pause.duration (tables and strings)",
]
