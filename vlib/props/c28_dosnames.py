"""
C28 - DOS file names map to host files consistently.

Stateful model-based check on a native mount. A case is a set of pre-existing host files plus a
list of operations (create by OPEN FOR OUTPUT/APPEND/RANDOM or SAVE, re-open / LOAD under another
spelling of an existing name, FILES with and without mask, NAME, KILL, attempts with illegal names).
`check_case` interprets it against a fresh session and a dict model and compares, after every step,
the host directory with the model (directory diff).

Model (written from the manual, not from disk.py): key = normalised DOS name = upper case, trunk =
first 8 characters before the first dot, extension = first 3 characters after it, '.' + extension
only if the extension is not empty; program statements (SAVE/LOAD) append '.BAS' first when the
name has no dot. A name is illegal when the normalised form contains a character outside
A-Z 0-9 blank ! # $ % & ' ( ) - @ ^ _ ` { } ~ (so also a second dot) or has an empty trunk. Every entry knows its host file
name (the key for files created from BASIC, the original name for pre-existing 8.3 files in lower
or mixed case) and the first line of its content.
"""
import os

from hypothesis import strategies as st

from vlib.core import Result, Unit
from vlib import harness

ID = 'C28'
LEVEL = 'exploration'
TECHNIQUE = ("Hypothesis operation sequences (create/open/LOAD/FILES/NAME/KILL under generated "
             "spellings) vs. a dict model keyed by the normalised DOS name; host directory diff and "
             "content markers after every step")
RULE = ("Histories of up to 30 (quick) / 100 (thorough) operations on one mount with 0-4 "
        "pre-existing host files (lower/mixed-case 8.3 names, one over-long bystander): names with "
        "trunk 1-10 and extension 0-5 characters over all allowable characters in random case, no "
        "dot / trailing dot / dot at position 8, over-long parts (clipped), forbidden characters "
        "(* ? + , ; = [ ] < > | \" and bytes >= 0x80) inside the 8.3 window, two dots; existing "
        "entries are re-addressed as the k-th model entry under a random capitalisation, with an "
        "optional trailing dot, dropped .BAS (program statements) or over-long spelling. "
        "Non-trivial: some name of the history has its dot at position 8 or last, mixed case, "
        "needs clipping, or is illegal. Distinct = distinct case hash.")
ASSUMPTIONS = [
    "blanks: interior blanks are legal and kept; trailing blanks of the whole name are ignored; a "
    "name with a leading blank, a blank directly before/after the dot or a blank left at the end "
    "of the trunk/extension by the 8.3 clipping may EITHER be refused (Bad file name; File not "
    "found too for a leading blank) OR be accepted with those blanks ignored (manual: 'leading and "
    "trailing spaces are ignored') - in both cases no host file with such a blank may appear, "
    "FILES names must open, and the file must open under any capitalisation of the typed name",
    "no control characters, no path separators or colons in names",
    "names whose trunk is AUX/CON/PRN/NUL in any case are not generated (device aliases; the "
    "case-sensitive alias test is outside this property's statement)",
    "'illegal names raise Bad file name' is asserted for OPEN (all modes), SAVE, LOAD and the new "
    "name of NAME when a forbidden character or a second dot survives the 8.3 clipping; KILL/FILES "
    "take such characters as (non-matching) masks and are not asserted",
    "over-long names are clipped to 8.3, not rejected (manual)",
    "FILES masks are generated only in forms whose meaning the manual fixes: *.*, *.ext, "
    "prefix*.*, ?-patterns of the full trunk length, and full names in any capitalisation",
    "a name with an empty trunk ('.x') is illegal (not a DOS name; fixed finding 89bac787)",
]

BYSTANDER = 'bystander-with-a-long-name.data'
ALLOWED = set(b"ABCDEFGHIJKLMNOPQRSTUVWXYZ0123456789 !#$%&'()-@^_`{}~")
FORBIDDEN = '*?+,;=[]<>|"\xe9\x80\xff'
RESERVED = {b'AUX', b'CON', b'PRN', b'NUL'}
PRE_POOL = ['readme.txt', 'MiXed.Dat', 'lower', 'Prog.bas', 'UPPER.TXT', 'a.b']

K_DOTFILE = 'dotfile'
# fixed 89bac787: '.y' used to create a host dotfile that FILES hid and KILL refused; a name without
# a trunk is now a Bad file name. (A host file whose name starts with a dot would still report under
# the 'dotfile.' keys.)
REG_DOTFILE = {'pre': [], 'ops': [
    {'o': 'create', 'how': 'O', 'name': '.y'},
    {'o': 'create', 'how': 'S', 'name': '.bas'},
    {'o': 'files', 'mask': None},
    {'o': 'illegal', 'name': '.y', 'how': 'I', 'k': 0},
]}


def normalise(name, defext=False):
    """DOS name (bytes) -> (key bytes, legal?) following the manual's rules."""
    name = name.rstrip(b' ')
    if defext and b'.' not in name:
        name += b'.BAS'
    up = name.upper()
    trunk, dot, ext = up.partition(b'.')
    # blanks at the edges of either part (typed there or left there by the clipping) are ignored in
    # the key; whether such a name is accepted at all is decided by blank_class() below
    trunk, ext = trunk[:8].strip(b' '), ext[:3].strip(b' ')
    key = trunk + (b'.' + ext if ext else b'')
    legal = (set(trunk) | set(ext)) <= ALLOWED and len(trunk) >= 1
    return key, legal


def blank_class(name, defext=False):
    """
    -> (lead, edge): `lead` = the name starts with a blank; `edge` = after clipping to 8.3 a blank
    stands at the start or end of the trunk or of the extension (directly before/after the dot, at
    the clipping boundary, or leading). The manual says "Spaces are allowed but leading and
    trailing spaces are ignored": for such names EITHER Bad file name (File not found too for a
    leading blank) OR acceptance with those blanks ignored is allowed.
    """
    name = name.rstrip(b' ')
    if defext and b'.' not in name:
        name += b'.BAS'
    trunk, dot, ext = name.partition(b'.')
    trunk, ext = trunk[:8], ext[:3]
    edge = trunk != trunk.strip(b' ') or ext != ext.strip(b' ')
    return name.startswith(b' '), edge


def edge_blank_host_name(host):
    """A host file name with a blank at the start/end of its trunk or extension."""
    trunk, dot, ext = host.partition('.')
    return trunk != trunk.strip(' ') or ext != ext.strip(' ')


def recase(name, mask):
    """Apply a capitalisation pattern (bit i set -> i-th letter lower case)."""
    out = bytearray()
    i = 0
    for c in name:
        ch = bytes([c])
        if ch.isalpha():
            ch = ch.lower() if (mask >> (i % 16)) & 1 else ch.upper()
            i += 1
        out += ch
    return bytes(out)


def display(key):
    trunk, dot, ext = key.partition(b'.')
    return trunk, ext


def mask_match(name, mask):
    """DOS wildcard match of one name element (case-insensitive), written independently."""
    name, mask = name.upper(), mask.upper()

    def rec(i, j):
        if j == len(mask):
            return i == len(name)
        if mask[j:j + 1] == b'*':
            return any(rec(k, j + 1) for k in range(i, len(name) + 1))
        if i < len(name) and (mask[j:j + 1] == b'?' or mask[j] == name[i]):
            return rec(i + 1, j + 1)
        return False
    return rec(0, 0)


class Entry(object):
    def __init__(self, host, first, kind):
        self.host = host          # host file name (str)
        self.first = first        # first line of the content (bytes) or None if unknown
        self.kind = kind          # 'data' | 'ascii' | 'token'
        self.typed = None         # the name as typed, when it was accepted with edge blanks


class Run(object):

    def __init__(self, case, res):
        self.case, self.res = case, res
        self.known = bool(case.get('known'))
        self.model = {}
        self.stop = False
        self.step = 0

    def fail(self, key, msg):
        self.res.fail(key, 'step %d: %s' % (self.step, msg))

    def ex(self, text, **vars_):
        for k, v in vars_.items():
            self.s.set(k, v)
        o = self.s.execute(text)
        if o.kind == 'budget':
            self.res.inconclusive = True
            self.stop = True
            return None
        if o.kind != 'ok':
            self.fail('escaped.%s@%s' % (o.exc, o.frame), '%r %r\n%s' % (text, vars_, o.tb))
            self.stop = True
            return None
        return o

    def marker(self):
        return b'M%03d' % self.step

    def keys(self):
        return sorted(self.model)

    def pick(self, k):
        ks = self.keys()
        return ks[k % len(ks)] if ks else None

    def note_name(self, raw):
        """Labels + non-triviality from the shape of a typed name."""
        trunk, dot, ext = raw.partition(b'.')
        key, legal = normalise(raw)
        lead, edge = blank_class(raw)
        if edge:
            self.res.nt(True)
            self.res.label('name:leading-blank' if lead else 'name:blank-at-part-edge')
        elif b' ' in raw.rstrip(b' '):
            self.res.label('name:interior-blank')
        if raw != raw.rstrip(b' '):
            self.res.label('name:trailing-blank')
        if not legal:
            self.res.nt(True)
            self.res.label('name:illegal')
            return
        if raw != raw.upper() and raw != raw.lower():
            self.res.nt(True)
            self.res.label('name:mixed-case')
        if len(trunk) > 8 or len(ext) > 3:
            self.res.nt(True)
            self.res.label('name:clipped')
        if dot and not ext:
            self.res.nt(True)
            self.res.label('name:trailing-dot')
        if dot and len(trunk) == 8:
            self.res.nt(True)
            self.res.label('name:dot-at-8')
        if not dot:
            self.res.label('name:no-dot')

    def spelling(self, key, sp, program=False):
        """Another spelling of an existing entry's name."""
        trunk, dot, ext = key.partition(b'.')
        name = key
        style = sp.get('style', 0) % 4
        if program:
            if not dot:
                name = key + b'.'                       # otherwise .BAS would be appended
            elif ext == b'BAS' and style in (1, 3):
                name = trunk                            # default extension
                self.res.label('spelling:default-ext')
        else:
            if not dot and style == 1:
                name = key + b'.'
                self.res.label('spelling:trailing-dot')
        if style == 2:
            # over-long spelling that clips to the same key
            t2 = trunk + b'XY' if len(trunk) == 8 else trunk
            e2 = ext + b'Z' if len(ext) == 3 else ext
            if (t2, e2) != (trunk, ext) and b'.' in name:
                name = t2 + b'.' + e2
                self.res.label('spelling:over-long')
        out = recase(name, int(sp.get('case', 0)))
        if out != name:
            self.res.nt(True)
            self.res.label('spelling:other-case')
        return out

    # -- directory diff ---------------------------------------------------------------------

    def check_dir(self, what, key='dir'):
        actual = set(os.listdir(self.s.sandbox.z))
        expect = {e.host for e in self.model.values()} | {BYSTANDER}
        bad = sorted(h for h in actual - expect if edge_blank_host_name(h))
        if bad:
            # such a file is listed by FILES under a name (blank-padded columns) that cannot open it
            self.fail('blank.host-name-with-edge-blank', '%s: host file(s) %r have a blank next '
                      'to the dot or at the end of trunk/extension' % (what, bad))
            self.stop = True
            return False
        if actual != expect:
            extra, missing = sorted(actual - expect), sorted(expect - actual)
            self.fail(key + ('.unexpected-host-file' if extra else '.missing-host-file'),
                      '%s: host directory has unexpected %r, lacks %r' % (what, extra, missing))
            self.stop = True
            return False
        return True

    def host_first_line(self, entry):
        with open(os.path.join(self.s.sandbox.z, entry.host), 'rb') as f:
            data = f.read()
        return data.split(b'\r\n', 1)[0].rstrip(b'\x1a')

    # -- operations -------------------------------------------------------------------------

    def do_sibling(self, op):
        """Create a file that shares its trunk (or its extension) with an existing entry."""
        key = self.pick(op['k'])
        if key is None:
            return
        trunk, dot, ext = key.partition(b'.')
        if op.get('same_ext') and ext:
            name = (trunk[:6] + b'2') + b'.' + ext
        else:
            name = trunk + b'.' + [b'', b'X', b'BAS', b'DAT', b'D2'][op.get('e', 0) % 5]
        self.res.label('op:sibling')
        self.do_create({'o': 'create', 'how': op.get('how', 'O'),
                        'name': recase(name, op.get('case', 0)).decode('latin-1')})

    def blank_refusal(self, o, lead, what):
        """An edge-blank name was refused: Bad file name (or File not found for a leading blank)."""
        self.res.label('blank:refused')
        if o.err != 64 and not (lead and o.err == 53):
            self.fail('blank.wrong-error', '%s -> %r, expected Bad file name%s or acceptance with '
                      'the blank ignored' % (what, o.errors, ' / File not found' if lead else ''))
        self.s.execute('CLOSE')
        self.check_dir(what, 'blank')

    def do_create(self, op):
        raw = op['name'].encode('latin-1')
        how = op.get('how', 'O')
        program = how in ('S', 'SA')
        if not self.usable(raw):
            return
        key, legal = normalise(raw, defext=program)
        lead, edge = blank_class(raw, defext=program)
        self.note_name(raw)
        m = self.marker()
        if program:
            o = self.ex('NEW')
            if o is None:
                return
            o = self.ex('10 REM ' + m.decode())
            if o is None:
                return
            text = 'SAVE F$' + (',A' if how == 'SA' else '')
        elif how == 'R':
            text = 'OPEN F$ FOR RANDOM AS 1 LEN=8:FIELD #1,8 AS X$:LSET X$=M$:PUT #1,1:CLOSE'
        elif how == 'A':
            text = 'OPEN F$ FOR APPEND AS 1:PRINT #1,M$:CLOSE'
        else:
            text = 'OPEN F$ FOR OUTPUT AS 1:PRINT #1,M$:CLOSE'
        o = self.ex(text, **{'F$': raw, 'M$': m})
        if o is None:
            return
        self.res.label('op:create-' + how)
        what = '%s with F$=%r' % (text.split(':')[0], raw)
        if not legal:
            if o.err != 64 and not (lead and o.err == 53):
                self.fail('illegal.accepted' if not o.err else 'illegal.wrong-error',
                          '%s -> %r, expected Bad file name' % (what, o.errors or 'success'))
                self.s.execute('CLOSE')
                self.stop = not o.err
                if self.stop:
                    return
            self.check_dir(what, 'illegal')
            return
        if edge and o.err:
            self.blank_refusal(o, lead, what)
            return
        if o.err:
            self.fail('legal.refused', '%s -> %r (normalised %r)' % (what, o.errors, key))
            self.s.execute('CLOSE')
            return
        old = self.model.get(key)
        if old is None:
            self.model[key] = Entry(key.decode('latin-1'), None, 'data')
            self.res.label('create:new')
        else:
            self.res.label('create:existing-key')
        e = self.model[key]
        if edge:
            self.res.label('blank:accepted-blank-ignored')
            e.typed = raw
        if program:
            e.kind = 'ascii' if how == 'SA' else 'token'
            e.first = b'10 REM ' + m
            if key.endswith(b'.BAS') and b'.' not in raw:
                self.res.label('save:default-ext-added')
        elif how == 'R':
            # record 1 rewritten: first 8 bytes
            e.kind, e.first = 'random', m.ljust(8)[:8]
        elif how == 'A' and old is not None:
            self.appended(e)
        else:
            e.kind, e.first = 'data', m
        if not self.check_dir(what, 'create'):
            return
        self.check_content(key, what)

    @staticmethod
    def appended(e):
        """A text line was appended: the first line stays, but it is no longer a program file."""
        if e.kind == 'token':
            e.first = None
        if e.kind in ('ascii', 'token'):
            e.kind = 'data'

    def usable(self, raw):
        """Is the raw name inside the generated domain (and outside known-defect regions)?"""
        trunk = raw.partition(b'.')[0]
        if not raw.strip(b'. ') or trunk.strip(b' ').upper() in RESERVED:
            self.res.label('skip:name-outside-domain')
            return False
        if raw.startswith(b'.'):
            self.res.label('name:empty-trunk')
        return True

    def check_content(self, key, what):
        e = self.model[key]
        if e.first is None or e.kind == 'token':
            return
        got = self.host_first_line(e)
        exp = e.first
        if e.kind == 'random':
            got = got[:8]
        if got != exp:
            self.fail('content', '%s: host file %s starts with %r, expected %r' % (
                what, e.host, got[:40], exp))

    def do_reopen(self, op):
        key = self.pick(op['k'])
        if key is None:
            return
        e = self.model[key]
        mode = op.get('mode', 'I')
        name = self.spelling(key, op.get('sp', {}))
        if e.typed is not None and op.get('sp', {}).get('style', 0) % 4 == 3:
            # any capitalisation of the very name (with its edge blanks) that created the file
            name = recase(e.typed, int(op.get('sp', {}).get('case', 0)))
            self.res.label('spelling:typed-with-edge-blank')
        self.note_name(name)
        prefix = K_DOTFILE + '.' if key.startswith(b'.') else ''
        m = self.marker()
        if mode == 'I':
            text = 'OPEN F$ FOR INPUT AS 1:LINE INPUT #1,L$:CLOSE'
        elif mode == 'A':
            text = 'OPEN F$ FOR APPEND AS 1:PRINT #1,M$:CLOSE'
        else:
            text = 'OPEN F$ FOR RANDOM AS 1 LEN=8:CLOSE'
        if mode == 'I' and e.kind == 'token':
            text = 'OPEN F$ FOR INPUT AS 1:CLOSE'
        self.s.set('L$', b'')
        o = self.ex(text, **{'F$': name, 'M$': m})
        if o is None:
            return
        self.res.label('op:reopen-' + mode)
        what = '%s with F$=%r (entry %r on host %r)' % (text.split(':')[0], name, key, e.host)
        if o.err:
            if o.err == 62 and mode == 'I':
                pass        # empty file: opened all right
            else:
                self.fail(prefix + 'open.existing-refused', '%s -> %r' % (what, o.errors))
                self.s.execute('CLOSE')
                self.check_dir(what, prefix + 'reopen')
                return
        if mode == 'I' and e.first is not None and e.kind in ('data', 'ascii') and not o.err:
            got = self.s.get('L$')
            if got != e.first:
                self.fail(prefix + 'open.other-file', '%s: first line %r, expected %r' % (
                    what, got, e.first))
        if mode == 'A':
            self.appended(e)
        if not self.check_dir(what, prefix + 'reopen'):
            return
        self.check_content(key, what)

    def do_load(self, op):
        progs = [k for k in self.keys() if self.model[k].kind in ('ascii', 'token')]
        if not progs:
            self.res.label('skip:no-program')
            return
        key = progs[op['k'] % len(progs)]
        e = self.model[key]
        name = self.spelling(key, op.get('sp', {}), program=True)
        self.note_name(name)
        o = self.ex('NEW')
        if o is None:
            return
        o = self.ex('LOAD F$', **{'F$': name})
        if o is None:
            return
        self.res.label('op:load')
        what = 'LOAD with F$=%r (entry %r)' % (name, key)
        if o.err:
            self.fail('load.existing-refused', '%s -> %r' % (what, o.errors))
            return
        o = self.ex('SAVE "Z:$$LIST.TMP",A')
        listing = b''
        p = os.path.join(self.s.sandbox.z, '$$LIST.TMP')
        if os.path.exists(p):
            with open(p, 'rb') as f:
                listing = f.read()
            os.remove(p)
        if o is None:
            return
        if e.first not in listing:
            self.fail('load.other-file', '%s: program is %r, expected %r' % (
                what, listing[:60], e.first))
        self.check_dir(what, 'load')

    def do_probe_missing(self, op):
        """A legal name that maps to no entry: File not found for INPUT, LOAD, KILL, NAME."""
        raw = op['name'].encode('latin-1')
        if not self.usable(raw):
            return
        how = op.get('how', 'I')
        key, legal = normalise(raw, defext=(how == 'L'))
        lead, edge = blank_class(raw, defext=(how == 'L'))
        if not legal or key in self.model:
            return
        if how == 'L':
            text = 'LOAD F$'
        elif how == 'K':
            text = 'KILL F$'
        elif how == 'N':
            text = 'NAME F$ AS "QQQQ.QQQ"'
        else:
            text = 'OPEN F$ FOR INPUT AS 1:CLOSE'
        o = self.ex(text, **{'F$': raw})
        if o is None:
            return
        self.res.label('op:missing-' + how)
        if edge and o.err == 64 and how != 'K':
            self.res.label('blank:refused')
        elif o.err != 53:
            self.fail('missing.not-reported', '%s with F$=%r -> %r, expected File not found' % (
                text, raw, o.errors or 'success'))
            self.s.execute('CLOSE')
        self.check_dir(text, 'missing')

    def do_illegal(self, op):
        """A forbidden character inside the 8.3 window of an otherwise well-formed name."""
        raw = op['name'].encode('latin-1')
        if not self.usable(raw):
            return
        how = op.get('how', 'I')
        key, legal = normalise(raw, defext=(how == 'L'))
        lead, edge = blank_class(raw, defext=(how == 'L'))
        if legal:
            return
        self.note_name(raw)
        if how == 'L':
            text = 'LOAD F$'
        elif how == 'N':
            k = self.pick(op.get('k', 0))
            if k is None:
                return
            text = 'NAME G$ AS F$'
            self.s.set('G$', k + (b'.' if b'.' not in k else b''))
        else:
            text = 'OPEN F$ FOR INPUT AS 1:CLOSE'
        o = self.ex(text, **{'F$': raw})
        if o is None:
            return
        self.res.label('op:illegal-' + how)
        if o.err != 64 and not (lead and o.err == 53):
            self.fail('illegal.accepted' if not o.err else 'illegal.wrong-error',
                      '%s with F$=%r -> %r, expected Bad file name' % (text, raw, o.errors or 'success'))
            self.s.execute('CLOSE')
        self.check_dir(text, 'illegal')

    def do_files(self, op):
        mask = op.get('mask')
        ks = self.keys()
        if mask is None:
            text, vars_ = 'FILES', {}
            want = set(ks)
            mdesc = None
        else:
            kind = mask.get('kind', 'all')
            base = self.pick(mask.get('k', 0)) or b'X.Y'
            trunk, dot, ext = base.partition(b'.')
            if kind == 'ext':
                mk = b'*.' + ext
            elif kind == 'prefix':
                mk = trunk[:1 + mask.get('n', 0) % max(1, len(trunk))] + b'*.*'
            elif kind == 'qmark':
                mk = b'?' * len(trunk) + b'.' + (b'?' * len(ext))
            elif kind == 'exact':
                mk = base + (b'.' if not dot else b'')
            else:
                mk = b'*.*'
            mk = recase(mk, int(mask.get('case', 0)))
            tm, _, em = mk.partition(b'.')
            want = {k for k in ks if mask_match(display(k)[0], tm) and mask_match(display(k)[1], em)}
            text, vars_ = 'FILES F$', {'F$': mk}
            mdesc = mk
        hidden = {k for k in want if k.startswith(b'.')}
        o = self.ex('CLS:' + text, **vars_)
        if o is None:
            return
        self.res.label('op:files' + ('' if mask is None else '-' + mask.get('kind', 'all')))
        what = 'FILES %r with entries %r' % (mdesc, ks)
        lines = o.output.replace(b'\xff', b'').split(b'\r\n')
        shown = set()
        for ln in lines[1:]:
            if b'Bytes free' in ln or not ln.strip():
                continue
            if any(h in ln for h in (b'File not found', b'Bad file', b'error')):
                continue
            for i in range(0, len(ln), 18):
                cell = ln[i:i + 18]
                if len(cell) < 12 or not cell[:12].strip():
                    continue
                if cell[12:17] == b'<DIR>':
                    continue
                trunk, ext = cell[:8].rstrip(b' '), cell[9:12].rstrip(b' ')
                if b'+' in cell[:12]:
                    continue                    # clipped display of the over-long bystander
                shown.add(trunk + (b'.' + ext if ext else b''))
        want_visible = want - hidden
        if not want_visible and not (mask is None):
            # (only a full name cannot match the bystander's display name or the . and .. entries)
            if o.err != 53 and not shown and mask.get('kind') == 'exact':
                self.fail('files.no-match-error', '%s -> %r, expected File not found' % (
                    what, o.errors or 'success'))
            if shown:
                self.fail('files.lists-unknown', '%s lists %r' % (what, sorted(shown)))
            return
        if o.err and want_visible:
            self.fail('files.error', '%s -> %r' % (what, o.errors))
            return
        if hidden:
            if hidden - shown:
                self.fail(K_DOTFILE + '.files-hides', '%s does not list %r' % (what, sorted(hidden)))
            shown -= hidden
        if shown != want_visible:
            self.fail('files.missing' if want_visible - shown else 'files.lists-unknown',
                      '%s lists %r, expected %r' % (what, sorted(shown), sorted(want_visible)))
            return
        # every shown name opens the file it stands for
        if shown:
            k = sorted(shown)[op.get('open', 0) % len(shown)]
            e = self.model[k]
            nm = k + (b'.' if b'.' not in k else b'')
            self.s.set('L$', b'')
            o = self.ex('OPEN F$ FOR INPUT AS 1:CLOSE', **{'F$': nm})
            if o is None:
                return
            if o.err:
                self.fail('files.shown-name-does-not-open', 'OPEN %r (listed by %s) -> %r' % (
                    nm, what, o.errors))
                self.s.execute('CLOSE')

    def do_name(self, op):
        key = self.pick(op['k'])
        if key is None:
            return
        raw = op['name'].encode('latin-1')
        if not self.usable(raw):
            return
        e = self.model[key]
        old = self.spelling(key, op.get('sp', {}))
        newkey, legal = normalise(raw)
        lead, edge = blank_class(raw)
        self.note_name(raw)
        self.note_name(old)
        prefix = K_DOTFILE + '.' if key.startswith(b'.') else ''
        o = self.ex('NAME G$ AS F$', **{'G$': old, 'F$': raw})
        if o is None:
            return
        self.res.label('op:name')
        what = 'NAME %r AS %r (entry %r on host %r, new key %r)' % (old, raw, key, e.host, newkey)
        if not legal:
            if o.err != 64 and not (lead and o.err == 53):
                self.fail('illegal.accepted' if not o.err else 'illegal.wrong-error',
                          '%s -> %r, expected Bad file name' % (what, o.errors or 'success'))
                self.stop = not o.err
            if not self.stop:
                self.check_dir(what, 'illegal')
            return
        if edge and o.err in ((64, 53) if lead else (64,)):
            self.blank_refusal(o, lead, what)
            return
        if newkey in self.model:
            self.res.label('name:target-exists')
            if o.err != 58:
                self.fail('name.onto-existing', '%s -> %r, expected File already exists' % (
                    what, o.errors or 'success'))
                self.stop = not o.err
            if not self.stop:
                self.check_dir(what, 'name')
            return
        if o.err:
            self.fail(prefix + 'name.refused', '%s -> %r' % (what, o.errors))
            self.check_dir(what, prefix + 'name')
            return
        del self.model[key]
        self.model[newkey] = Entry(newkey.decode('latin-1'), e.first, e.kind)
        if edge:
            self.res.label('blank:accepted-blank-ignored')
            self.model[newkey].typed = raw
        self.res.label('name:renamed')
        if self.check_dir(what, prefix + 'name'):
            self.check_content(newkey, what)

    def do_kill(self, op):
        key = self.pick(op['k'])
        if key is None:
            return
        e = self.model[key]
        sp = dict(op.get('sp', {}))
        if sp.get('style', 0) % 4 == 2:
            sp['style'] = 0         # KILL takes a mask: an over-long spelling is not 'the name'
        name = self.spelling(key, sp)
        self.note_name(name)
        prefix = K_DOTFILE + '.' if key.startswith(b'.') else ''
        o = self.ex('KILL F$', **{'F$': name})
        if o is None:
            return
        self.res.label('op:kill')
        what = 'KILL %r (entry %r on host %r)' % (name, key, e.host)
        if o.err:
            self.fail(prefix + 'kill.refused', '%s -> %r' % (what, o.errors))
            self.check_dir(what, prefix + 'kill')
            return
        del self.model[key]
        self.check_dir(what, prefix + 'kill')

    # -- driver -----------------------------------------------------------------------------

    def run(self):
        with harness.Sess(budget=50000) as s:
            self.s = s
            z = s.sandbox.z
            with open(os.path.join(z, BYSTANDER), 'wb') as f:
                f.write(b'bystander\r\n\x1a')
            seen = set()
            for i in self.case.get('pre', [])[:4]:
                host = PRE_POOL[i % len(PRE_POOL)]
                key, _ = normalise(host.encode())
                if key in seen:
                    continue
                seen.add(key)
                first = b'10 REM PRE%d' % i if host.lower().endswith('.bas') else b'PRE%d' % i
                with open(os.path.join(z, host), 'wb') as f:
                    f.write(first + b'\r\n\x1a')
                self.model[key] = Entry(host, first, 'ascii' if first.startswith(b'10') else 'data')
                self.res.label('pre-existing')
            table = {'create': self.do_create, 'reopen': self.do_reopen, 'load': self.do_load,
                     'files': self.do_files, 'name': self.do_name, 'kill': self.do_kill,
                     'missing': self.do_probe_missing, 'illegal': self.do_illegal,
                     'sibling': self.do_sibling}
            for i, op in enumerate(self.case['ops']):
                self.step = i
                table[op['o']](op)
                if self.stop:
                    break
            if not self.stop:
                self.step = len(self.case['ops'])
                self.check_dir('at end')
                with open(os.path.join(z, BYSTANDER), 'rb') as f:
                    if f.read() != b'bystander\r\n\x1a':
                        self.fail('bystander.changed', 'the over-long host file was modified')


def check_case(case):
    res = Result()
    Run(case, res).run()
    return res


# ------------------------------------------------------------------------------------------------
# generators

def weighted(*pairs):
    table = [strat for strat, wgt in pairs for _ in range(wgt)]
    return st.integers(0, len(table) - 1).flatmap(lambda i: table[i])


LETTERS = 'abcdefghijklmnopqrstuvwxyzABCDEFGHIJKLMNOPQRSTUVWXYZ'
PUNCT = "!#$%&'()-@^_`{}~"


def strat_part(lo, hi):
    ch = st.one_of(st.sampled_from(LETTERS), st.sampled_from(LETTERS), st.sampled_from('0123456789'),
                   st.sampled_from(PUNCT))
    body = st.text(alphabet=ch, min_size=lo, max_size=hi)
    spaced = st.builds(lambda a, b: a + ' ' + b, st.text(alphabet=ch, min_size=1, max_size=3),
                       st.text(alphabet=ch, min_size=1, max_size=3))
    return weighted((body, 12), (spaced, 1))


def strat_legal_name():
    trunk = weighted((strat_part(1, 8), 6), (strat_part(8, 8), 2), (strat_part(9, 11), 2),
                     (st.sampled_from(['a', 'Z9', 'data', 'Prog', 'file', 'ab', 'abcdefgh']), 3))
    ext = weighted((st.none(), 3), (st.just(''), 2), (strat_part(1, 3), 5), (strat_part(3, 3), 1),
                   (strat_part(4, 5), 1), (st.sampled_from(['bas', 'BAS', 'Bas', 'txt', 'd']), 3))
    plain = st.builds(lambda t, e: t if e is None else t + '.' + e, trunk, ext)
    trail = st.builds(lambda n: n + ' ', plain)
    dot0 = st.builds(lambda e: '.' + e, strat_part(1, 3))
    blanky = st.builds(add_blank, plain, st.sampled_from(BLANK_PLACES), st.integers(0, 7))
    return weighted((plain, 30), (blanky, 9), (trail, 1), (dot0, 1))


BLANK_PLACES = ['lead', 'trail', 'in-trunk', 'before-dot', 'after-dot', 'in-ext', 'trunk-8th',
                'trunk-9th', 'ext-3rd', 'ext-4th', 'double', 'both-sides-of-dot', 'only-ext-blank']


def add_blank(name, where, n):
    """Put a blank at a chosen place of a well-formed name (see BLANK_PLACES)."""
    trunk, dot, ext = name.partition('.')
    trunk = trunk.replace(' ', '') or 'a'
    ext = ext.replace(' ', '')
    fill = 'QwErTyUiOp'
    if where == 'lead':
        return ' ' + name
    if where == 'trail':
        return name + ' ' * (1 + n % 2)
    if where == 'in-trunk':
        t = (trunk + fill)[:max(2, len(trunk))]
        p = 1 + n % (len(t) - 1)
        return t[:p] + ' ' + t[p:] + dot + ext
    if where == 'double':
        t = (trunk + fill)[:max(2, min(6, len(trunk)))]
        return t[:1] + '  ' + t[1:] + dot + ext
    if where == 'before-dot':
        return trunk[:7] + ' .' + (ext or 'txt')
    if where == 'after-dot':
        return trunk + '. ' + (ext or 'tx')[:2]
    if where == 'both-sides-of-dot':
        return trunk[:7] + ' . ' + (ext or 'tx')[:2]
    if where == 'only-ext-blank':
        return trunk + '. '
    if where == 'in-ext':
        e = (ext + fill)[:max(3, len(ext))]
        return trunk + '.' + e[:1] + ' ' + e[1:]
    if where == 'trunk-8th':
        return (trunk + fill)[:7] + ' ' + 'h' + dot + ext        # clipping leaves a trailing blank
    if where == 'trunk-9th':
        return (trunk + fill)[:8] + ' ' + 'i' + dot + ext        # the blank is clipped away
    if where == 'ext-3rd':
        return trunk + '.' + (ext + fill)[:2] + ' ' + 'e'        # clipping leaves a trailing blank
    return trunk + '.' + (ext + fill)[:3] + ' ' + 'e'            # ext-4th: clipped away


def strat_illegal_name():
    def spoil(name, ch, pos, where):
        trunk, dot, ext = name.partition('.')
        if where and ext:
            p = pos % min(3, len(ext))
            ext = ext[:p] + ch + ext[p + 1:]
        else:
            p = pos % min(8, len(trunk))
            trunk = trunk[:p] + ch + trunk[p:]
        return trunk + dot + ext
    bad = st.builds(spoil, strat_legal_name().filter(lambda n: not n.startswith('.')),
                    st.sampled_from(FORBIDDEN), st.integers(0, 7), st.booleans())
    dots = st.builds(lambda a, b, c: a + '.' + b + '.' + c, strat_part(1, 4), strat_part(0, 2),
                     strat_part(0, 2))
    return weighted((bad, 4), (dots, 1))


def strat_case(maxops):
    k = st.integers(0, 11)
    sp = st.builds(lambda case, style: {'case': case, 'style': style},
                   st.one_of(st.sampled_from([0, 0xffff, 0x5555, 1, 2]), st.integers(0, 0xffff)),
                   st.integers(0, 3))
    legal = strat_legal_name()
    illegal = strat_illegal_name()
    how_create = st.sampled_from(['O', 'O', 'O', 'A', 'R', 'S', 'S', 'SA'])
    op_create = st.builds(lambda n, h: {'o': 'create', 'how': h, 'name': n}, legal, how_create)
    op_create_bad = st.builds(lambda n, h: {'o': 'create', 'how': h, 'name': n}, illegal, how_create)
    op_reopen = st.builds(lambda kk, s_, m: {'o': 'reopen', 'k': kk, 'sp': s_, 'mode': m}, k, sp,
                          st.sampled_from(['I', 'I', 'A', 'R']))
    op_load = st.builds(lambda kk, s_: {'o': 'load', 'k': kk, 'sp': s_}, k, sp)
    maskd = st.one_of(st.none(), st.builds(
        lambda kind, kk, n, case: {'kind': kind, 'k': kk, 'n': n, 'case': case},
        st.sampled_from(['all', 'ext', 'prefix', 'qmark', 'exact', 'exact']), k, st.integers(0, 7),
        st.sampled_from([0, 0xffff, 0x5555, 0x1234])))
    op_files = st.builds(lambda m, o: {'o': 'files', 'mask': m, 'open': o}, maskd, k)
    op_name = st.builds(lambda kk, s_, n: {'o': 'name', 'k': kk, 'sp': s_, 'name': n}, k, sp,
                        st.one_of(legal, legal, legal, illegal))
    op_kill = st.builds(lambda kk, s_: {'o': 'kill', 'k': kk, 'sp': s_}, k, sp)
    op_missing = st.builds(lambda n, h: {'o': 'missing', 'name': n, 'how': h}, legal,
                           st.sampled_from(['I', 'L', 'K', 'N']))
    op_illegal = st.builds(lambda n, h, kk: {'o': 'illegal', 'name': n, 'how': h, 'k': kk}, illegal,
                           st.sampled_from(['I', 'L', 'N']), k)
    op_sibling = st.builds(lambda kk, e, se, h, c: {'o': 'sibling', 'k': kk, 'e': e, 'same_ext': se,
                                                   'how': h, 'case': c},
                           k, st.integers(0, 4), st.booleans(), st.sampled_from(['O', 'O', 'S']),
                           st.sampled_from([0, 0xffff, 0x5555]))
    one = weighted((op_create, 7), (op_sibling, 3), (op_create_bad, 2), (op_reopen, 6), (op_load, 2), (op_files, 4),
                   (op_name, 4), (op_kill, 2), (op_missing, 1), (op_illegal, 2))
    body = st.integers(1, maxops).flatmap(lambda n: st.lists(one, min_size=n, max_size=n))
    pre = st.lists(st.integers(0, len(PRE_POOL) - 1), max_size=4)
    return st.builds(lambda p, first, ops: {'pre': p, 'ops': [first] + ops}, pre, op_create, body)


def units(tier):
    div = max(1, int(os.environ.get('VERIF_DIV', '1')))
    maxops = 30 if tier == 'quick' else 100
    return [
        Unit('histories', 'hyp', shards=16, examples={'quick': 120 // div, 'thorough': 2400 // div},
             strategy=lambda: strat_case(maxops)),
    ]


REGRESSIONS = [
    # fixed 89bac787: a name with an empty trunk created a host dotfile that FILES hid and KILL
    # could not remove; it is a Bad file name now
    REG_DOTFILE,
    # the mapping table of DESIGN.md (probe results)
    {'pre': [0, 1, 3], 'ops': [
        {'o': 'create', 'how': 'O', 'name': 'Abc.Txt'},
        {'o': 'create', 'how': 'O', 'name': 'longfilename.text'},
        {'o': 'create', 'how': 'O', 'name': 'x.'},
        {'o': 'create', 'how': 'O', 'name': 'a b'},
        {'o': 'create', 'how': 'O', 'name': 'README.TXT'},
        {'o': 'create', 'how': 'O', 'name': 'a.b.c'},
        {'o': 'create', 'how': 'O', 'name': 'x..'},
        {'o': 'create', 'how': 'O', 'name': 'a*b'},
        {'o': 'create', 'how': 'A', 'name': 'ab\xe9'},
        {'o': 'create', 'how': 'S', 'name': 'prog'},
        {'o': 'create', 'how': 'S', 'name': 'prog2.x'},
        {'o': 'create', 'how': 'SA', 'name': 'prog3.'},
        {'o': 'create', 'how': 'S', 'name': 'verylongprogname'},
        {'o': 'create', 'how': 'R', 'name': 'abcdefgh.ijk'},
        {'o': 'load', 'k': 0, 'sp': {'case': 0x5555, 'style': 1}},
        {'o': 'load', 'k': 1, 'sp': {'case': 3, 'style': 0}},
        {'o': 'load', 'k': 2, 'sp': {'case': 0, 'style': 3}},
        {'o': 'load', 'k': 3, 'sp': {'case': 0xffff, 'style': 1}},
        {'o': 'files', 'mask': None, 'open': 3},
        {'o': 'files', 'mask': {'kind': 'ext', 'k': 8, 'n': 0, 'case': 0xffff}, 'open': 0},
        {'o': 'files', 'mask': {'kind': 'exact', 'k': 2, 'n': 0, 'case': 0x5555}, 'open': 0},
        {'o': 'reopen', 'k': 2, 'sp': {'case': 0xffff, 'style': 2}, 'mode': 'I'},
        {'o': 'reopen', 'k': 11, 'sp': {'case': 0x5555, 'style': 1}, 'mode': 'A'},
        {'o': 'name', 'k': 1, 'sp': {'case': 0xffff, 'style': 0}, 'name': 'newname.longext'},
        {'o': 'name', 'k': 0, 'sp': {'case': 0, 'style': 0}, 'name': 'Prog.Bas'},
        {'o': 'name', 'k': 0, 'sp': {'case': 0, 'style': 0}, 'name': 'q?'},
        {'o': 'kill', 'k': 5, 'sp': {'case': 0x5555, 'style': 1}},
        {'o': 'missing', 'name': 'nothere', 'how': 'I'},
        {'o': 'illegal', 'name': 'a+b', 'how': 'I', 'k': 0},
        {'o': 'files', 'mask': {'kind': 'prefix', 'k': 4, 'n': 0, 'case': 0}, 'open': 1},
    ]},
]

REGRESSIONS.append(
    # blanks in every position (reviewer's seeded change: per-part strip check simplified to a
    # whole-name strip): a blank next to the dot or left by clipping must never reach the host name
    {'pre': [], 'ops': [
        {'o': 'create', 'how': 'O', 'name': 'A .TXT'},
        {'o': 'create', 'how': 'O', 'name': 'A. TX'},
        {'o': 'create', 'how': 'O', 'name': 'ABCDEFG H.TXT'},
        {'o': 'create', 'how': 'O', 'name': 'AB.CD E'},
        {'o': 'create', 'how': 'S', 'name': 'Pr .bas'},
        {'o': 'create', 'how': 'O', 'name': ' lead.txt'},
        {'o': 'create', 'how': 'O', 'name': 'A B.TXT'},
        {'o': 'create', 'how': 'O', 'name': 'trail.txt  '},
        {'o': 'create', 'how': 'O', 'name': 'ABCDEFGH I.TXT'},
        {'o': 'create', 'how': 'O', 'name': 'ab.c d'},
        {'o': 'create', 'how': 'O', 'name': 'a  b'},
        {'o': 'create', 'how': 'O', 'name': 'x. '},
        {'o': 'files', 'mask': None, 'open': 0},
        {'o': 'files', 'mask': None, 'open': 1},
        {'o': 'name', 'k': 0, 'sp': {'case': 0x5555, 'style': 0}, 'name': 'new .nam'},
        {'o': 'name', 'k': 0, 'sp': {'case': 0x5555, 'style': 0}, 'name': 'n w.n m'},
        {'o': 'reopen', 'k': 1, 'sp': {'case': 0xffff, 'style': 3}, 'mode': 'I'},
        {'o': 'missing', 'name': 'no .fil', 'how': 'I'},
        {'o': 'kill', 'k': 0, 'sp': {'case': 0xffff, 'style': 0}},
    ]})

KILLS = [
    'dos_normalise_name: upper() dropped  => create.unexpected-host-file',
    '_get_dos_name_defext: default extension also when a dot is present  => legal.refused, load.existing-refused',
    'dos_normalise_name: trunk[:8] -> [:7]  => create.unexpected-host-file, name.unexpected-host-file ; ext[:3] -> [:4] => legal.refused, open.existing-refused',
    "ALLOWABLE_CHARS: '+' allowed => illegal.accepted / illegal.wrong-error ; '^' removed => legal.refused",
    'dos_name_matches: mask not upper-cased => kill.refused, files.error ; dos_to_native_name case-sensitive => open.existing-refused, reopen.unexpected-host-file',
    'rename onto an existing file allowed => name.onto-existing ; rename target not normalised => name.unexpected-host-file',
    'listdir: trunk column 7 wide => files.missing ; _filter_names ignores the extension mask => files.lists-unknown',
    "kill ignores the extension mask => kill.missing-host-file (needs sibling names: op 'sibling')",
    '_get_native_name: legality check dropped => illegal.accepted ; created name keeps the typed case => create.unexpected-host-file',
    "dos_is_legal_name: per-part blank check simplified to a whole-name strip (reviewer's seeded change) => ./check red: blank.host-name-with-edge-blank ; blank check dropped entirely => same bucket ; control: dos_normalise_name strips part-edge blanks (accept-and-ignore) => stays green",
    'SURVIVED (equivalent): trailing single dot not stripped in _get_native_name - dos_normalise_name drops the empty extension anyway',
]
