"""
C13 - the stored program matches the entered lines after any edit history.

A case is a list of edit operations interpreted against a fresh session and a reference model
(dict line number -> atoms, see vlib/genlines.py).  After every operation: LIST (to a file) must
equal the model rendering, the line links read from memory must chain the lines in ascending
order with the expected record sizes and end on the terminator, GOTO to sampled existing/missing
numbers must land on the line / give Undefined line number, and the incremental line index must
equal the one derived from the memory scan.
"""
import os

from hypothesis import strategies as st

from vlib.core import Result, Unit
from vlib import harness, progio
from vlib import genlines as G

ID = 'C13'
LEVEL = 'exploration'
TECHNIQUE = ('model-based stateful testing: Hypothesis operation lists interpreted against a '
             'dict model; invariants after every step (LIST, memory link walk, GOTO, index)')
RULE = ("Operation lists (quick 20-50, thorough 40-300 ops, behind an initial MERGE of 0-10 lines) over line numbers skewed to 0, 1, "
        "multiples of 10, 65528, 65529, existing lines and their neighbours: enter/replace a line "
        "(body from the C17 canonical generator behind PRINT \"T<tag>\":END, lengths 12..170), delete "
        "by empty line (existing and missing), DELETE a-b/a-/-b/a/none (existing, missing, partial), "
        "RENUM with all argument forms (accepted and rejected), SAVE,A/tokenised + LOAD or NEW+MERGE, "
        "MERGE of a harness-written text file (lines out of order, duplicates, empty and blank-only "
        "lines, leading blanks, bare CR, missing final line break / 1A), NEW, rejected line numbers > 65529, LIST of a "
        "sub-range. Non-trivial: the history replaces a line by one of a different length, or "
        "deletes a range in the middle of the program, or re-inserts a deleted number; distinct = "
        "distinct operation list.")
ASSUMPTIONS = [
    "text program files: empty lines and lines of blanks are ignored, blanks before the line number "
    "are skipped, CR and CR LF both end a line, the final line break and the 1A are optional "
    "(GW-BASIC practice; LF-only files are not generated)",
    "program memory is read in one statement with BSAVE over the data segment, which goes through "
    "the same byte-wise memory interface as PEEK; the program-start pointer is read with PEEK(&H30)",
    "DELETE follows the manual: the inclusive range may name missing numbers; Illegal function "
    "call only if it contains no stored line",
    "RENUM follows the manual: rejected (Illegal function call, program unchanged) if a new number "
    "would exceed 65529, if the increment is 0, or if new <= an existing number below old",
    "RENUM 'Undefined line' messages are not asserted here (C14)",
    "line texts stay below 255 characters so that the ASCII save/load precondition of C15 holds",
    "histories with a string literal holding byte 0x8F carry the bucket suffix "
    ".rem-byte-in-string (fixed in /repo c95f3f06; directed regression case kept)",
]
KILLS = [
    "update_line_dict: length off by one (`length -= afterpos - pos - 1`) -> links.broken, list.mismatch, index.mismatch, goto.wrong-line",
    "find_pos_line_dict: `num >= fromline` -> `num > fromline` -> links.order, links.count, list.mismatch, op.DELETE.unexpected-error, op.del.unexpected-error",
    "update_line_dict: first deletable key not removed from line_numbers -> index.mismatch, list.mismatch",
    "update_line_dict: index shift off by one for shrinking replacements > 40 bytes -> index.mismatch, goto.wrong-line, list.mismatch, links.broken",
    "Program.load: rebuild_line_dict skipped after a tokenised load -> list.mismatch, index.mismatch, goto.wrong-line",
    "Program.merge: stop at the first empty line / at a blanks-only line / drop a last line without line break -> links.count, links.offset, goto.wrong-line, list.mismatch",
    "unfixed tree: 0x8F inside a string literal (skip_to) -> *.rem-byte-in-string",
]

POOL = [0, 1, 2, 5, 9, 10, 11, 20, 30, 40, 50, 100, 110, 200, 255, 256, 1000, 6552, 6553, 9999,
        10000, 32767, 32768, 65520, 65527, 65528, 65529]


# ---------------------------------------------------------------------------------------------
# model helpers

def tagged(atoms, tag):
    out = [list(a) for a in atoms]
    assert out[1][0] == 's' and out[0][1] == 'PRINT'
    out[1] = ['s', 'T%d' % tag, True]
    return out


def resolve(sel, model):
    """Line-number selector -> int in 0..65529."""
    nums = sorted(model.lines)
    kind = sel[0]
    if kind == 'abs':
        return sel[1]
    if not nums:
        return POOL[sel[1] % len(POOL)]
    n = nums[sel[1] % len(nums)]
    if kind == 'ex':
        return n
    return max(0, min(65529, n + sel[2]))


renum_atoms = progio.renum_atoms
renum_plan = progio.renum_plan


class Model(object):

    def __init__(self):
        self.lines = {}         # number -> atoms (tagged)
        self.tags = {}          # number -> tag text
        self.deleted = set()
        self.nt = False

    def store(self, num, atoms, tag):
        if num == 0:
            # the blank behind line number 0 is stored (and stays with the line through RENUM)
            atoms = [['sp', 1]] + atoms
        if num in self.lines:
            if len(G.render(self.lines[num])[2]) != len(G.render(atoms)[2]):
                self.nt = True
        elif num in self.deleted:
            self.nt = True
        self.lines[num] = atoms
        self.tags[num] = 'T%d' % tag

    def remove(self, nums):
        nums = list(nums)
        if nums and self.lines:
            lo, hi = min(self.lines), max(self.lines)
            if min(nums) > lo and max(nums) < hi:
                self.nt = True
        for n in nums:
            del self.lines[n]
            del self.tags[n]
            self.deleted.add(n)

    def listing(self, lo=None, hi=None):
        out = []
        for n in sorted(self.lines):
            if (lo is None or n >= lo) and (hi is None or n <= hi):
                canon = G.render(self.lines[n])[1]
                if n == 0 and canon[:1] == b' ':
                    # the lister drops one blank behind line number 0
                    canon = canon[1:]
                out.append(('%d ' % n).encode() + canon)
        return out

    def tokens(self, n):
        return G.render(self.lines[n])[2]

    def reentered(self):
        """Effect of an ASCII save and reload: line 0 regains its stored blank."""
        if 0 in self.lines and self.lines[0][0][0] != 'sp':
            self.lines[0] = [['sp', 1]] + self.lines[0]


# ---------------------------------------------------------------------------------------------
# interpretation

def run_ok(s, res, step, opname, text, expect_err=None, line=False, allowed=None):
    """Execute; classify. Returns Outcome or None if the session is unusable."""
    o = s.execute_line(text) if line else s.execute(text)
    if o.kind == 'escaped':
        res.fail('escaped.%s@%s' % (o.exc, o.frame), 'step %d %s: %r -> %s' % (
            step, opname, text, o.tb))
        return None
    if o.kind != 'ok':
        res.inconclusive = True
        return None
    codes = [c for c, _ in o.errors]
    if expect_err is None:
        if codes:
            res.fail('op.%s.unexpected-error' % opname, 'step %d: %r -> %r' % (step, text, o))
    else:
        ok = allowed or (expect_err,)
        if not codes:
            res.fail('op.%s.error-missing' % opname, 'step %d: %r expected error %r, got %r' % (
                step, text, expect_err, o))
        elif codes[0] not in ok:
            res.fail('op.%s.wrong-error' % opname, 'step %d: %r expected error %r, got %r' % (
                step, text, expect_err, o))
    return o


def verify(s, model, res, step, probes, bodies=True):
    """All invariants of the property on the current state."""
    # 1. LIST
    data, o = progio.list_to_file(s)
    got = progio.listing_lines(data)
    exp = model.listing()
    if got is None:
        res.fail('list.failed', 'step %d: LIST -> %r %r' % (step, o, data))
    elif got != exp:
        i = 0
        while i < len(got) and i < len(exp) and got[i] == exp[i]:
            i += 1
        res.fail('list.mismatch', 'step %d: LIST line %d is %r, model has %r (%d vs %d lines)' % (
            step, i, got[i] if i < len(got) else None, exp[i] if i < len(exp) else None,
            len(got), len(exp)))
    # 2. memory links
    nums = sorted(model.lines)
    try:
        start = progio.program_start(s)
        size = sum(5 + len(model.tokens(n)) for n in nums) + 2
        block = progio.bsave_block(s, start, size + 64)
    except progio.PeekFailed as e:
        res.fail('memory.unreadable', 'step %d: %s' % (step, e))
        return
    recs, problems = progio.walk_block(block, start)
    if problems:
        res.fail('links.broken', 'step %d: %s' % (step, '; '.join(problems[:3])))
    else:
        seen = [r[2] for r in recs]
        if any(b <= a for a, b in zip(seen, seen[1:])):
            res.fail('links.order', 'step %d: line numbers along the links: %r' % (step, seen))
        elif len(recs) != len(nums):
            res.fail('links.count', 'step %d: %d records before the terminator, model has %d: %r'
                     % (step, len(recs), len(nums), seen))
        elif seen != nums:
            res.fail('links.numbers', 'step %d: linked line numbers %r, model %r' % (
                step, seen, nums))
        else:
            for (addr, link, num, body) in recs:
                exp_body = model.tokens(num)
                if link != addr + 5 + len(exp_body):
                    res.fail('links.offset', 'step %d: line %d at %d links to %d, expected %d' % (
                        step, num, addr, link, addr + 5 + len(exp_body)))
                    break
                if bodies and body != exp_body:
                    res.fail('memory.body', 'step %d: line %d holds %s, expected %s' % (
                        step, num, body.hex(' '), exp_body.hex(' ')))
                    break
        # 3. internal index vs. scan
        index = dict(s.impl.program.line_numbers)
        scan = {r[2]: r[0] - start for r in recs}
        end = (recs[-1][1] if recs else start) - start
        scan[65536] = end
        if index != scan:
            diff = sorted(set(index.items()) ^ set(scan.items()))[:6]
            res.fail('index.mismatch', 'step %d: line index differs from memory scan: %r' % (
                step, diff))
    # 4. GOTO
    for p in probes:
        if nums and p % 3 != 2:
            n = nums[p % len(nums)]
            o = s.execute(b'GOTO %d' % n)
            want = model.tags[n].encode() + b'\r\n'
            if o.kind == 'escaped':
                res.fail('escaped.%s@%s' % (o.exc, o.frame), 'step %d GOTO %d: %s' % (step, n, o.tb))
            elif o.kind == 'ok' and (o.errors or o.output != want):
                res.fail('goto.wrong-line', 'step %d: GOTO %d printed %r, expected %r' % (
                    step, n, o.output, want))
        else:
            n = POOL[p % len(POOL)] + (p % 7)
            n = min(n, 65529)
            if n in model.lines:
                continue
            o = s.execute(b'GOTO %d' % n)
            if o.kind == 'escaped':
                res.fail('escaped.%s@%s' % (o.exc, o.frame), 'step %d GOTO %d: %s' % (step, n, o.tb))
            elif o.kind == 'ok' and [c for c, _ in o.errors] != [8]:
                res.fail('goto.missing', 'step %d: GOTO %d (no such line) gave %r' % (step, n, o))


def write_text_file(s, name, lines):
    with open(os.path.join(s.sandbox.z, name), 'wb') as f:
        for ln in lines:
            f.write(ln + b'\r\n')
        f.write(b'\x1a')


def check_hist(case, res):
    ops = case['ops']
    model = Model()
    maxlines = 0
    with harness.Sess() as s:
        for step, op in enumerate(ops):
            kind = op['op']
            res.label('op:' + kind)
            if step % 6 == 0:
                s.execute(b'CLS')
            if kind == 'enter':
                num = resolve(op['sel'], model)
                atoms = tagged(op['atoms'], step)
                text = G.line_text(num, atoms)
                res.label('enter:' + ('replace' if num in model.lines else 'insert'))
                o = run_ok(s, res, step, kind, text, line=True)
                if o is None:
                    return res
                model.store(num, atoms, step)
            elif kind == 'enter_bad':
                text = b'%d PRINT "X%d"' % (op['num'], step)
                if run_ok(s, res, step, kind, text, expect_err=2, line=True) is None:
                    return res
            elif kind == 'del':
                num = resolve(op['sel'], model)
                if num in model.lines:
                    res.label('del:existing')
                    o = run_ok(s, res, step, kind, b'%d' % num, line=True)
                    model.remove([num])
                else:
                    res.label('del:missing')
                    o = run_ok(s, res, step, kind, b'%d' % num, expect_err=8, line=True)
                if o is None:
                    return res
            elif kind == 'DELETE':
                a, b = resolve(op['a'], model), resolve(op['b'], model)
                form = op['form']
                if form == 'a-b':
                    if a > b and op.get('swap', True):
                        a, b = b, a
                    text, lo, hi = b'DELETE %d-%d' % (a, b), a, b
                elif form == 'a':
                    text, lo, hi = b'DELETE %d' % a, a, a
                elif form == 'a-':
                    text, lo, hi = b'DELETE %d-' % a, a, 65535
                elif form == '-b':
                    text, lo, hi = b'DELETE -%d' % b, 0, b
                elif form == 'span':
                    # the k-th existing line and up to two successors; bounds may name gaps
                    nums = sorted(model.lines)
                    if nums:
                        i = op['a'][1] % len(nums)
                        j = min(len(nums) - 1, i + op.get('span', 0))
                        lo, hi = nums[i], nums[j]
                        if op.get('loose') and (i == 0 or nums[i - 1] < lo - 1) and lo > 0:
                            lo -= 1
                        if op.get('loose') and (j == len(nums) - 1 or nums[j + 1] > hi + 1) \
                                and hi < 65529:
                            hi += 1
                    else:
                        lo, hi = a, a
                    text = b'DELETE %d-%d' % (lo, hi) if (lo != hi or op.get('loose')) else \
                        b'DELETE %d' % lo
                else:
                    text, lo, hi = b'DELETE', 0, 65535
                victims = [n for n in model.lines if lo <= n <= hi]
                res.label('DELETE:%s' % ('none' if not victims else
                                         'all' if len(victims) == len(model.lines) else 'some'))
                if victims:
                    o = run_ok(s, res, step, kind, text)
                    model.remove(victims)
                else:
                    o = run_ok(s, res, step, kind, text, expect_err=5)
                if o is None:
                    return res
            elif kind == 'RENUM':
                new = None if op['new'] is None else resolve(op['new'], model)
                old = None if op['old'] is None else resolve(op['old'], model)
                inc = op['inc']
                args = progio.renum_args(new, old, inc)
                mapping, err = renum_plan(list(model.lines), new, old, inc)
                s.execute(b'CLS')
                if mapping is None:
                    res.label('RENUM:rejected')
                    o = run_ok(s, res, step, kind, b'RENUM' + args, expect_err=err)
                else:
                    res.label('RENUM:accepted' if mapping else 'RENUM:nothing')
                    o = run_ok(s, res, step, kind, b'RENUM' + args)
                    if any(k != v for k, v in mapping.items()):
                        newlines, newtags = {}, {}
                        for n, atoms in model.lines.items():
                            nn = mapping.get(n, n)
                            newlines[nn] = renum_atoms(atoms, mapping)
                            newtags[nn] = model.tags[n]
                        model.lines, model.tags = newlines, newtags
                        model.deleted = set()
                if o is None:
                    return res
            elif kind == 'saveload':
                mode = op['mode']
                res.label('saveload:' + mode)
                save = b'SAVE "T.BAS",A' if mode[0] == 'A' else b'SAVE "T.BAS"'
                if run_ok(s, res, step, 'SAVE', save) is None:
                    return res
                if mode.endswith('NEW-MERGE'):
                    seq = [b'NEW', b'MERGE "T.BAS"']
                elif mode.endswith('MERGE'):
                    seq = [b'MERGE "T.BAS"']
                else:
                    seq = [b'LOAD "T.BAS"']
                for cmd in seq:
                    if run_ok(s, res, step, cmd.split()[0].decode(), cmd) is None:
                        return res
                if mode[0] == 'A':
                    model.reentered()
            elif kind == 'mergefile':
                texts = []
                pending = []
                for i, (sel, atoms) in enumerate(op['lines']):
                    # selectors are resolved against the model as it is before the MERGE
                    num = resolve(sel, model)
                    at = tagged(atoms, step * 1000 + i)
                    texts.append(G.line_text(num, at))
                    pending.append((num, at, step * 1000 + i))
                fmt = op.get('fmt')
                if fmt:
                    res.label('mergefile:layout-variation')
                with open(os.path.join(s.sandbox.z, 'M.BAS'), 'wb') as f:
                    f.write(progio.text_file_bytes(texts, fmt))
                if run_ok(s, res, step, 'MERGE', b'MERGE "M.BAS"') is None:
                    return res
                for num, at, tag in pending:
                    model.store(num, at, tag)
            elif kind == 'NEW':
                if run_ok(s, res, step, kind, b'NEW') is None:
                    return res
                model.remove(list(model.lines))
                model.deleted = set()
            elif kind == 'listrange':
                a, b = resolve(op['a'], model), resolve(op['b'], model)
                if a > b:
                    a, b = b, a
                data, o = progio.list_to_file(s, line_range=b'%d-%d' % (a, b))
                got = progio.listing_lines(data)
                if got != model.listing(a, b):
                    res.fail('list.range', 'step %d: LIST %d-%d gave %r, expected %r' % (
                        step, a, b, got, model.listing(a, b)))
            else:
                raise ValueError(kind)
            maxlines = max(maxlines, len(model.lines))
            before = len(res.fails)
            verify(s, model, res, step, op.get('probe', [0]),
                   bodies=True)
            if len(res.fails) > before or res.fails:
                # one root cause per case: later steps would only repeat it
                break
        res.label('final-lines:%d' % min(len(model.lines) // 5 * 5, 30))
        res.label('max-lines:%d' % min(maxlines // 5 * 5, 30))
    res.nt(model.nt)
    return res


def has_rem_byte_in_string(case):
    """Some entered line has a string literal containing byte 0x8F (finding rem-byte-in-string)."""
    for op in case['ops']:
        bodies = [op['atoms']] if 'atoms' in op else [l[1] for l in op.get('lines', [])]
        for atoms in bodies:
            if any(a[0] == 's' and '\x8f' in a[1] for a in atoms):
                return True
    return False


def check_case(case):
    res = Result()
    if case['u'] == 'hist':
        check_hist(case, res)
        if res.fails and has_rem_byte_in_string(case):
            res.fails = [(k + '.rem-byte-in-string', m) for k, m in res.fails]
        return res
    raise ValueError(case['u'])


# ---------------------------------------------------------------------------------------------
# generators

def st_sel():
    return st.one_of(
        st.sampled_from(POOL).map(lambda n: ['abs', n]),
        st.integers(0, 65529).map(lambda n: ['abs', n]),
        st.integers(1, 30).map(lambda n: ['abs', n * 10]),
        st.integers(0, 40).map(lambda k: ['ex', k]),
        st.integers(0, 40).map(lambda k: ['ex', k]),
        st.tuples(st.integers(0, 40), st.sampled_from([-10, -2, -1, 1, 2, 10])).map(
            lambda t: ['near', t[0], t[1]]),
    )


def st_jumps():
    return st.one_of(st.sampled_from(POOL), st.integers(1, 30).map(lambda n: n * 10),
                     st.integers(0, 65529)).map(lambda n: ['j', n])


TAGPFX = [['k', 'PRINT', 0], ['s', 'T0', True], ['p', ':'], ['k', 'END', 0]]


def no_rem_byte(atoms):
    """Replace byte 0x8F inside string literals (finding rem-byte-in-string)."""
    return [['s', a[1].replace('\x8f', '\x90'), a[2]] if a[0] == 's' else a for a in atoms]


def st_body():
    short = G.st_line_atoms('advanced', jumps=st_jumps(), max_len=60, max_statements=1,
                            prefix=TAGPFX)
    longer = G.st_line_atoms('advanced', jumps=st_jumps(), max_len=150, max_statements=4,
                             prefix=TAGPFX)
    return st.one_of(st.just([list(a) for a in TAGPFX]), short, short, longer)


def st_probe():
    return st.lists(st.integers(0, 200), min_size=1, max_size=2)


def st_op():
    sel = st_sel()
    opt_sel = st.one_of(st.none(), sel)
    enter = st.builds(lambda s_, a, p: {'op': 'enter', 'sel': s_, 'atoms': a, 'probe': p},
                      sel, st_body(), st_probe())
    exsel = st.integers(0, 40).map(lambda k: ['ex', k])
    dele = st.builds(lambda s_, p: {'op': 'del', 'sel': s_, 'probe': p},
                     st.one_of(exsel, exsel, sel), st_probe())
    delete = st.builds(
        lambda a, b, f, sp, lo, p: {'op': 'DELETE', 'a': a, 'b': b, 'form': f, 'span': sp,
                                    'loose': lo, 'probe': p},
        st.one_of(exsel, sel), sel,
        st.sampled_from(['span'] * 14 + ['a-b'] * 3 + ['a'] * 3 + ['a-', '-b', '']),
        st.integers(0, 2), st.booleans(), st_probe())
    renum = st.builds(lambda n, o, i, p: {'op': 'RENUM', 'new': n, 'old': o, 'inc': i, 'probe': p},
                      opt_sel, opt_sel,
                      st.one_of(st.none(), st.sampled_from([0, 1, 2, 5, 10, 100, 1000, 30000]),
                                st.integers(1, 200)), st_probe())
    saveload = st.builds(lambda m, p: {'op': 'saveload', 'mode': m, 'probe': p},
                         st.sampled_from(['A-LOAD', 'A-NEW-MERGE', 'A-MERGE', 'B-LOAD']), st_probe())
    mergefile = st.builds(lambda ls, p, f: {'op': 'mergefile', 'lines': ls, 'probe': p, 'fmt': f},
                          st.lists(st.tuples(sel, st_body()).map(list), min_size=1, max_size=5),
                          st_probe(), progio.st_text_fmt())
    new = st.just({'op': 'NEW', 'probe': [0]})
    bad = st.sampled_from([65530, 65531, 65535, 65536, 70000, 99999]).map(
        lambda n: {'op': 'enter_bad', 'num': n, 'probe': [1]})
    listr = st.builds(lambda a, b: {'op': 'listrange', 'a': a, 'b': b, 'probe': [2]}, sel, sel)
    table = {'enter': enter, 'del': dele, 'DELETE': delete, 'RENUM': renum, 'saveload': saveload,
             'mergefile': mergefile, 'listrange': listr, 'bad': bad, 'NEW': new}
    weights = (['enter'] * 24 + ['del'] * 5 + ['DELETE'] * 6 + ['RENUM'] * 5 + ['saveload'] * 3 +
               ['mergefile'] * 3 + ['listrange'] * 2 + ['bad'])
    # NEW is rare: one in a hundred
    weights = weights * 2 + ['NEW']
    return st.sampled_from(weights).flatmap(lambda k: table[k])


def strat_hist():
    tier = os.environ.get('VERIF_TIER', 'quick')
    lo, hi = (20, 50) if tier == 'quick' else (40, 300)
    init = st.lists(st.tuples(st.integers(1, 40).map(lambda n: ['abs', n * 10]), st_body()).map(list),
                    min_size=0, max_size=10).map(
        lambda ls: [{'op': 'mergefile', 'lines': ls, 'probe': [1, 2]}] if ls else [])
    return st.tuples(init, st.lists(st_op(), min_size=lo, max_size=hi)).map(
        lambda t: {'u': 'hist', 'ops': t[0] + t[1]})


def units(tier):
    return [
        Unit('histories', 'hyp', shards=16,
             examples={'quick': G.scaled(70), 'thorough': G.scaled(300)},
             strategy=strat_hist, per_case_timeout=120.0),
    ]


def _L(*atoms):
    return [list(a) for a in TAGPFX] + [list(a) for a in atoms]


REGRESSIONS = [
    # finding rem-byte-in-string: 0x8F inside a string literal + a constant holding a zero byte,
    # tokenised SAVE/LOAD loses the following line
    {'u': 'hist', 'ops': [
        {'op': 'enter', 'sel': ['abs', 10], 'atoms': _L(['p', ':'], ['v', 'A$', 0], ['o', '='],
                                                        ['s', '\x8f', True], ['p', ':'], ['v', 'B', 0],
                                                        ['o', '='], ['n', 's', 5, -1, 0]),
         'probe': [0]},
        {'op': 'enter', 'sel': ['abs', 20], 'atoms': _L(), 'probe': [1]},
        {'op': 'saveload', 'mode': 'B-LOAD', 'probe': [0, 1]},
    ]},
    # replace by a longer and a shorter line, delete in the middle, re-insert, renumber, reload
    {'u': 'hist', 'ops': [
        {'op': 'enter', 'sel': ['abs', 10], 'atoms': _L(), 'probe': [0]},
        {'op': 'enter', 'sel': ['abs', 20], 'atoms': _L(['p', ':'], ['k', 'GOTO', 0], ['sp', 1],
                                                        ['j', 10]), 'probe': [1]},
        {'op': 'enter', 'sel': ['abs', 30], 'atoms': _L(), 'probe': [2]},
        {'op': 'enter', 'sel': ['ex', 1], 'atoms': _L(['p', ':'], ['rem', 'REM', 0, ' much longer '
                                                                    'than before']), 'probe': [1]},
        {'op': 'enter', 'sel': ['ex', 1], 'atoms': _L(), 'probe': [1]},
        {'op': 'del', 'sel': ['abs', 20], 'probe': [0, 1]},
        {'op': 'del', 'sel': ['abs', 20], 'probe': [0]},
        {'op': 'enter', 'sel': ['abs', 20], 'atoms': _L(['p', ':'], ['k', 'GOSUB', 0], ['sp', 1],
                                                        ['j', 30]), 'probe': [1]},
        {'op': 'DELETE', 'a': ['abs', 15], 'b': ['abs', 25], 'form': 'a-b', 'probe': [0, 5]},
        {'op': 'DELETE', 'a': ['abs', 15], 'b': ['abs', 25], 'form': 'a-b', 'probe': [0]},
        {'op': 'enter', 'sel': ['abs', 0], 'atoms': _L(), 'probe': [0]},
        {'op': 'enter', 'sel': ['abs', 65529], 'atoms': _L(), 'probe': [3]},
        {'op': 'RENUM', 'new': ['abs', 100], 'old': ['abs', 10], 'inc': 5, 'probe': [1, 2]},
        {'op': 'RENUM', 'new': ['abs', 0], 'old': ['abs', 100], 'inc': 10, 'probe': [1]},
        {'op': 'RENUM', 'new': ['abs', 65000], 'old': None, 'inc': 1000, 'probe': [1]},
        {'op': 'saveload', 'mode': 'A-NEW-MERGE', 'probe': [0, 1]},
        {'op': 'saveload', 'mode': 'B-LOAD', 'probe': [0, 1]},
        {'op': 'mergefile', 'lines': [[['ex', 0], _L()], [['abs', 7], _L()], [['abs', 7], _L(
            ['p', ':'], ['k', 'BEEP', 0])]], 'probe': [0, 1]},
        {'op': 'mergefile', 'lines': [[['abs', 300], _L()], [['abs', 280], _L(['p', ':'], ['k', 'BEEP', 0])],
                                      [['abs', 300], _L(['p', ':'], ['k', 'CLS', 0])], [['abs', 290], _L()]],
         'fmt': {'per': [{'e': 1, 'b': 0, 'l': 0, 'cr': False}, {'e': 0, 'b': 4, 'l': 3, 'cr': True}],
                 'tail': 0, 'brk': False, 'eof': False}, 'probe': [0, 1]},
        {'op': 'enter_bad', 'num': 65530, 'probe': [1]},
        {'op': 'DELETE', 'a': ['abs', 0], 'b': ['abs', 0], 'form': '', 'probe': [2]},
        {'op': 'NEW', 'probe': [0]},
    ]},
]
