"""
C15 - saved programs load back identically in every file format.

Units
  cipher-exhaustive : every (position mod 143, byte) pair through pcbasic's protect/unprotect
                      against a reference cipher written from the manual's description
  cipher-random     : random byte strings of length 0..1000: both compositions are the identity
                      and both directions agree with the reference
  programs          : generated programs saved in tokenised / protected / ASCII format on disk, an
                      in-memory bound file and cassette; file bytes against an independent image
                      model; NEW + LOAD (and MERGE for ASCII) restores byte-identical memory
  tokfile           : harness-built tokenised and protected files (arbitrary stored links, line
                      numbers up to 65535, bytes 0x01-0xFF in strings and comments)
  textfile          : hand-written text program files (empty / blank-only lines, leading blanks,
                      bare CR, missing final line break or 1A, unordered and duplicate lines,
                      lines of exactly 254/255 characters) through LOAD and MERGE against the
                      model of the resulting program
  history           : a longer program was in memory first (typed / LOADed from B, P, A), is
                      replaced (NEW+type, LOAD, CHAIN, DELETE, line-by-line, DELETE+MERGE) and the
                      result saved in each format: differential against a fresh session fed the
                      final LIST, image model, end-marker structure, re-LOAD
  convert           : pcbasic.main('--convert=X', in, out) for all 9 (from, to) pairs against
                      LOAD + SAVE in a session
"""
import io
import os
import sys

from hypothesis import strategies as st

from vlib.core import Result, Unit
from vlib import harness, progio
from vlib import genlines as G

ID = 'C15'
LEVEL = 'exploration'
TECHNIQUE = ('round trip + independent file-image model; reference cipher from the manual, '
             'exhaustive over (position, byte); differential converter vs. session')
RULE = ("Cipher: all 143 x 256 (position, byte) pairs (exhaustive) and random strings of length "
        "0..1000 with lengths around multiples of 143. Programs: 1-12 lines from the C17 canonical "
        "generator (plus, for the binary formats, strings/comments with arbitrary bytes 0x01-0xFF incl. "
        "0x1A), lines up to 254 characters, line numbers 0..65529, formats default/,P/,A crossed with "
        "disk, bound in-memory file and cassette. Token files: line numbers up to 65535, random "
        "non-zero stored links. Converter: the 9 (from, to) pairs. Non-trivial: the program holds a "
        "0x1A, NUL or 0xFF byte, a line of >= 250 characters, or more than 143 bytes (cipher wraps); "
        "for cipher strings: length > 143.")
ASSUMPTIONS = [
    "history unit: one extra trailing 1A per earlier tokenised/protected LOAD in the session is "
    "tolerated behind the 00 00 end marker (see the resave:grows note); anything else there fails",
    "text program files: empty lines and lines of blanks are ignored, blanks before the line number "
    "are skipped, CR and CR LF both end a line, the final line break and the 1A are optional, lines "
    "up to 255 characters load (GW-BASIC practice; LF-only files are not generated; a 255-character "
    "line always keeps its line break)",
    "program memory = the bytes from the program start pointer to the 00 00 terminator, read with "
    "BSAVE (same byte-wise interface as PEEK); what follows the terminator is not asserted "
    "(a tokenised LOAD keeps the file's trailing 1A behind it, so re-saving grows the file by one "
    "byte per cycle - reported as a label, not a violation: the statement is about program memory)",
    "ASCII round trips are asserted for programs of the canonical generator only (listing re-enters "
    "as the same program); binary formats also for lines with control bytes",
    "the cipher's identity is asserted as unprotect(protect(x) + EOF) == x: unprotect drops the "
    "end-of-file byte that SAVE appends; the empty string has its own bucket (cipher.empty)",
    "cassette: the tape is read back in a fresh session (a new session starts at the tape's start)",
    "the converter is pcbasic.main('--convert=X', in, out) called in a fresh interpreter process (stdin /dev/null) with the user's existing default config",
]
KILLS = [
    "protect(): the two key indices swapped (KEY1[index % 11], KEY2[index % 13 % 11]) -> cipher.encrypt, cipher.position, cipher.roundtrip, file.P, memory.P.load",
    "unprotect(): index period 13*11 -> 13 -> cipher.decrypt, cipher.roundtrip, memory.P.load, tokfile.memory.P, convert.P-B/P-P",
    "BinaryFile.close: EOF byte not written -> file.B, file.P",
    "Program.load: rebuild_line_dict skipped for binary formats -> index.after-load, tokfile.memory.B/P",
    "Program.erase without bytecode.truncate() (old program stays behind the end marker; wave-4 seed) -> history.file.B, history.file.P",
    "Program.merge: `if not line and not cr` -> `if not line` (stop at the first empty line) -> textfile.list, textfile.memory",
    "Program.merge: stop at a line of blanks only -> textfile.list, textfile.memory",
    "Program.merge: last line dropped when the file lacks a final line break -> textfile.list, textfile.memory",
    "unfixed tree: skip_to treats 0x8F inside a string as REM -> memory.B.load (regression case)",
]

# ---------------------------------------------------------------------------------------------
# reference cipher (manual, 'Protected file format')

SEQ11 = [0x0B, 0x0A, 0x09, 0x08, 0x07, 0x06, 0x05, 0x04, 0x03, 0x02, 0x01]
KEY11 = [0x1E, 0x1D, 0xC4, 0x77, 0x26, 0x97, 0xE0, 0x74, 0x59, 0x88, 0x7C]
KEY13 = [0xA9, 0x84, 0x8D, 0xCD, 0x75, 0x83, 0x43, 0x63, 0x24, 0x83, 0x19, 0xF7, 0x9A]
SEQ13 = [0x0D, 0x0C, 0x0B, 0x0A, 0x09, 0x08, 0x07, 0x06, 0x05, 0x04, 0x03, 0x02, 0x01]


def ref_decrypt_byte(c, i):
    c = (c - SEQ11[i % 11]) & 0xff
    c ^= KEY11[i % 11]
    c ^= KEY13[i % 13]
    return (c + SEQ13[i % 13]) & 0xff


def ref_encrypt_byte(c, i):
    c = (c - SEQ13[i % 13]) & 0xff
    c ^= KEY13[i % 13]
    c ^= KEY11[i % 11]
    return (c + SEQ11[i % 11]) & 0xff


def ref_encrypt(data):
    return bytes(ref_encrypt_byte(c, i) for i, c in enumerate(data))


def ref_decrypt(data):
    return bytes(ref_decrypt_byte(c, i) for i, c in enumerate(data))


def _cipher():
    harness.Session      # make sure pcbasic is imported from the configured tree
    import pcbasic.basic.converter.protect      # noqa: F401
    return sys.modules['pcbasic.basic.converter.protect']


def pc_protect(data):
    out = io.BytesIO()
    _cipher().protect(io.BytesIO(data), out)
    return out.getvalue()


def pc_unprotect(data):
    out = io.BytesIO()
    _cipher().unprotect(io.BytesIO(data), out)
    return out.getvalue()


def check_cipher_string(x, res, tag):
    """Both directions against the reference and both compositions."""
    if len(x) == 0:
        try:
            if pc_protect(b'') != b'' or pc_unprotect(b'\x1a') != b'':
                res.fail('cipher.empty', 'empty string does not map to the empty string')
        except Exception as e:      # noqa: B902
            res.fail('cipher.empty', 'empty string: %s: %s' % (type(e).__name__, e))
        return
    try:
        enc = pc_protect(x)
        if enc != ref_encrypt(x):
            i = next(i for i in range(len(x)) if enc[i:i + 1] != ref_encrypt(x)[i:i + 1])
            res.fail('cipher.encrypt', '%s: byte %d at position %d encrypts to %r, reference %d' % (
                tag, x[i], i, enc[i:i + 1], ref_encrypt(x)[i]))
        dec = pc_unprotect(ref_encrypt(x) + b'\x1a')
        if dec != x:
            i = next(i for i in range(len(x)) if dec[i:i + 1] != x[i:i + 1])
            res.fail('cipher.decrypt', '%s: position %d: reference ciphertext %d decrypts to %r, '
                     'expected %d' % (tag, i, ref_encrypt(x)[i], dec[i:i + 1], x[i]))
        if pc_unprotect(enc + b'\x1a') != x:
            res.fail('cipher.roundtrip', '%s: unprotect(protect(x)+EOF) != x for %r' % (tag, x[:40]))
        # x read as ciphertext
        if pc_protect(pc_unprotect(x + b'\x1a')) != x:
            res.fail('cipher.roundtrip-inverse', '%s: protect(unprotect(y+EOF)) != y for %r' % (
                tag, x[:40]))
    except Exception as e:      # noqa: B902
        res.fail('escaped.%s@cipher' % type(e).__name__, '%s: %r: %s' % (tag, x[:40], e))


def run_cipher_exhaustive(shard, nshards, tier, seed, ev):
    for b in range(shard, 256, nshards):
        for p in range(143):
            res = Result()
            check_cipher_pos(p, b, res)
            for key, msg in res.fails:
                ev.fail(key, {'u': 'cpos', 'p': p, 'b': b}, msg)
        ev.count(143, nontrivial=143)
    ev.sample({'u': 'cpos', 'p': 142, 'b': shard})


def check_cipher_pos(p, b, res):
    """Byte b at position p (and at p+143: the cipher has period 143) in a fixed filler."""
    filler = bytes((7 * i + 3) & 0xff for i in range(p + 144))
    x = bytearray(filler)
    x[p] = b
    x[p + 143] = b
    x = bytes(x)
    check_cipher_string(x, res, 'position %d byte %d' % (p, b))
    try:
        enc = pc_protect(x)
        if enc[p] != ref_encrypt_byte(b, p) or enc[p + 143] != enc[p]:
            res.fail('cipher.position', 'byte %d at %d -> %d, at %d -> %d, reference %d' % (
                b, p, enc[p], p + 143, enc[p + 143], ref_encrypt_byte(b, p)))
    except Exception as e:      # noqa: B902
        res.fail('escaped.%s@cipher' % type(e).__name__, '%r' % e)


# ---------------------------------------------------------------------------------------------
# program image model

def image(lines, start, links=None):
    """
    Memory/file image of a program [(number, token body)] loaded at address `start`:
    link, number, body, NUL per line, then the 00 00 terminator.  `links`: stored link values to
    use instead of the real addresses (files: ignored on load).
    """
    out = bytearray()
    addr = start
    for i, (num, body) in enumerate(lines):
        nxt = addr + 5 + len(body)
        link = nxt if links is None else links[i]
        out += bytes([link & 0xff, link >> 8, num & 0xff, num >> 8]) + body + b'\0'
        addr = nxt
    out += b'\0\0'
    return bytes(out)


def program_texts(case):
    lines = case['lines']
    out = []
    for num, atoms in lines:
        out.append((num, G.line_text(num, atoms), G.line_tokens(num, atoms),
                    ('%d ' % num).encode() + G.render(atoms)[1]))
    return out


def enter_program(s, prog, res):
    for num, text, tok, can in prog:
        o = s.execute_line(text)
        if o.kind == 'escaped':
            res.fail('escaped.%s@%s' % (o.exc, o.frame), 'entering %r: %s' % (text, o.tb))
            return False
        if o.kind != 'ok' or o.errors:
            res.fail('harness.enter', 'entering %r -> %r' % (text, o))
            return False
    return True


def read_memory(s, size, res, what):
    try:
        start = progio.program_start(s)
        return start, progio.bsave_block(s, start, size)
    except progio.PeekFailed as e:
        res.fail('memory.unreadable', '%s: %s' % (what, e))
        return None, None


class KeepBytesIO(io.BytesIO):
    """BytesIO whose content survives close()."""

    def close(self):
        self.kept = self.getvalue()
        io.BytesIO.close(self)


def run(s, res, cmd, what):
    o = s.execute(cmd)
    if o.kind == 'escaped':
        res.fail('escaped.%s@%s' % (o.exc, o.frame), '%s %r: %s' % (what, cmd, o.tb))
        return False
    if o.kind != 'ok':
        res.inconclusive = True
        return False
    if o.errors:
        res.fail('%s.error' % what, '%r -> %r' % (cmd, o))
        return False
    return True


def nontrivial_program(prog, image_bytes):
    body = image_bytes
    return (b'\x1a' in body or b'\xff' in body or any(len(p[3]) >= 250 for p in prog) or
            len(body) > 143 or any(b'\0' in p[2] for p in prog))


FMT_SUFFIX = {'B': b'', 'P': b',P', 'A': b',A'}


def expected_file(fmt, img, prog):
    if fmt == 'B':
        return b'\xff' + img + b'\x1a'
    if fmt == 'P':
        return b'\xfe' + ref_encrypt(img) + b'\x1a'
    return b''.join(p[3] + b'\r\n' for p in prog) + b'\x1a'


def check_program(case, res):
    fmt, dev = case['fmt'], case['dev']
    prog = sorted(program_texts(case), key=lambda p: p[0])
    res.label('fmt:' + fmt, 'dev:' + dev)
    sb = harness.Sandbox()
    cas = os.path.join(sb.root, 'tape.cas')
    try:
        with harness.Sess(sandbox=sb, devices={'Z': sb.z, 'CAS1': cas}) as s:
            if not enter_program(s, prog, res):
                return res
            start = progio.program_start(s)
            img = image([(p[0], p[2]) for p in prog], start)
            size = len(img)
            _, m0 = read_memory(s, size, res, 'before SAVE')
            if m0 is None:
                return res
            if m0 != img:
                res.fail('harness.memory-model', 'memory %s, model %s' % (m0.hex(' '), img.hex(' ')))
                return res
            res.nt(nontrivial_program(prog, img))
            if any(len(p[3]) >= 250 for p in prog):
                res.label('line>=250')
            if len(img) > 143:
                res.label('image>143')
            if fmt == 'A':
                listing0, o = progio.list_to_file(s)
            # SAVE
            if dev == 'disk':
                if not run(s, res, b'SAVE "PROG"' + FMT_SUFFIX[fmt], 'save'):
                    return res
                with open(os.path.join(sb.z, 'PROG.BAS'), 'rb') as f:
                    data = f.read()
                name = b'PROG'
            elif dev == 'mem':
                buf = KeepBytesIO()
                with s.s.bind_file(buf, create=True) as bound:
                    name = bytes(bound)
                    if not run(s, res, b'SAVE "%s"' % name + FMT_SUFFIX[fmt], 'save'):
                        return res
                data = buf.kept if buf.closed else buf.getvalue()
            else:
                if not run(s, res, b'SAVE "CAS1:PROG"' + FMT_SUFFIX[fmt], 'save'):
                    return res
                data = None
                # the tape image is complete once the session is closed
                s.close()
            if data is not None:
                exp = expected_file(fmt, img, prog)
                if data != exp:
                    i = next((i for i in range(min(len(data), len(exp))) if data[i] != exp[i]),
                             min(len(data), len(exp)))
                    res.fail('file.%s' % fmt, '%s file differs from the model at byte %d: %s vs %s '
                             '(lengths %d, %d)' % (dev, i, data[max(0, i - 4):i + 8].hex(' '),
                                                   exp[max(0, i - 4):i + 8].hex(' '), len(data),
                                                   len(exp)))
            # LOAD back
            modes = ['LOAD'] + (['MERGE'] if fmt == 'A' else [])
            for mode in modes:
                if dev == 'disk':
                    ok = run(s, res, b'NEW', 'new') and run(s, res, b'%s "PROG"' % mode.encode(),
                                                           mode.lower())
                    t = s
                elif dev == 'mem':
                    with s.s.bind_file(io.BytesIO(data)) as bound:
                        ok = run(s, res, b'NEW', 'new') and run(
                            s, res, b'%s "%s"' % (mode.encode(), bytes(bound)), mode.lower())
                    t = s
                else:
                    t = harness.Sess(sandbox=sb, devices={'Z': sb.z, 'CAS1': cas})
                    ok = run(t, res, b'%s "CAS1:PROG"' % mode.encode(), mode.lower())
                try:
                    if not ok:
                        return res
                    _, m1 = read_memory(t, size, res, 'after ' + mode)
                    if m1 is None:
                        return res
                    if m1 != m0:
                        i = next(i for i in range(size) if m1[i] != m0[i])
                        res.fail('memory.%s.%s' % (fmt, mode.lower()),
                                 '%s: program memory differs at offset %d after SAVE%s + %s: %s was %s'
                                 % (dev, i, FMT_SUFFIX[fmt].decode(), mode,
                                    m1[max(0, i - 4):i + 8].hex(' '), m0[max(0, i - 4):i + 8].hex(' ')))
                    if fmt == 'A':
                        listing1, o = progio.list_to_file(t)
                        if listing1 != listing0:
                            res.fail('list.A.%s' % mode.lower(), '%s: LIST after SAVE,A + %s: %r was %r'
                                     % (dev, mode, listing1, listing0))
                    # the line index must have been rebuilt: GOTO the last line
                    if prog and case.get('goto', True):
                        last = prog[-1][0]
                        o = t.execute(b'LIST %d' % last)
                        if o.kind == 'ok' and not o.errors and not o.output.startswith(
                                b'%d' % last) and last <= 65529:
                            res.fail('index.after-load', 'LIST %d after %s printed %r' % (
                                last, mode, o.output))
                    if fmt == 'B' and dev == 'disk' and mode == 'LOAD':
                        # statement-silent: does a second SAVE give the same file?
                        if run(t, Result(), b'SAVE "PROG2"', 'save'):
                            with open(os.path.join(sb.z, 'PROG2.BAS'), 'rb') as f:
                                res.label('resave:%s' % ('same' if f.read() == data else 'grows'))
                finally:
                    if t is not s:
                        t.close()
    finally:
        sb.close()
    return res


# ---- harness-built token files ----------------------------------------------------------------

def check_tokfile(case, res):
    """lines: [(number, atoms)] ascending incl. numbers > 65529; links: stored link values."""
    lines = [(num, G.render(atoms)[2]) for num, atoms in case["lines"]]
    links = [l or 1 for l in case['links']][:len(lines)]
    links += [0x1234] * (len(lines) - len(links))
    fmt = case['fmt']
    res.label('fmt:' + fmt)
    with harness.Sess() as s:
        start = progio.program_start(s)
        img_file = image(lines, start, links)
        img_mem = image(lines, start)
        data = (b'\xff' + img_file + b'\x1a') if fmt == 'B' else (
            b'\xfe' + ref_encrypt(img_file) + b'\x1a')
        if case.get('noeof'):
            data = data[:-1] if fmt == 'B' else data
        with open(os.path.join(s.sandbox.z, 'T.BAS'), 'wb') as f:
            f.write(data)
        if not run(s, res, b'LOAD "T"', 'load'):
            return res
        _, m1 = read_memory(s, len(img_mem), res, 'after LOAD')
        if m1 is None:
            return res
        res.nt(nontrivial_program([], img_mem) or any(n > 65529 for n, _ in lines))
        if any(n > 65529 for n, _ in lines):
            res.label('line>65529')
        if m1 != img_mem:
            i = next(i for i in range(len(img_mem)) if m1[i] != img_mem[i])
            res.fail('tokfile.memory.%s' % fmt, 'memory after LOAD differs from the model at %d: %s '
                     'expected %s' % (i, m1[max(0, i - 4):i + 8].hex(' '),
                                      img_mem[max(0, i - 4):i + 8].hex(' ')))
            return res
        # save in both binary formats and reload
        for f2 in ('B', 'P'):
            if not run(s, res, b'SAVE "U"' + FMT_SUFFIX[f2], 'save'):
                return res
            with open(os.path.join(s.sandbox.z, 'U.BAS'), 'rb') as f:
                d2 = f.read()
            head = (b'\xff' + img_mem) if f2 == 'B' else (b'\xfe' + ref_encrypt(img_mem))
            if not d2.startswith(head) or d2[-1:] != b'\x1a':
                res.fail('file.%s' % f2, 're-saved file %s does not start with the image %s' % (
                    d2[:40].hex(' '), head[:40].hex(' ')))
            if not (run(s, res, b'NEW', 'new') and run(s, res, b'LOAD "U"', 'load')):
                return res
            _, m2 = read_memory(s, len(img_mem), res, 'after reload')
            if m2 is not None and m2 != img_mem:
                res.fail('memory.%s.load' % f2, 'memory differs after SAVE%s + LOAD' % (
                    FMT_SUFFIX[f2].decode()))
    return res


def pad_text_line(num, atoms, target):
    """Atoms whose typed line '<num> <body>' is exactly `target` characters (and lists the same)."""
    room = target - len('%d ' % num)
    ent, can, _ = G.render(atoms)
    if len(ent) != len(can) or len(ent) > room - 6:
        atoms = [['k', 'END', 0]]
    return pad_line(atoms, room)


def check_textfile(case, res):
    """A hand-written text program file: layout variations, unordered and duplicate lines."""
    items = []
    for num, atoms, padto in case['lines']:
        if padto:
            atoms = pad_text_line(num, atoms, padto)
        items.append((num, atoms))
    texts = [G.line_text(n, a) for n, a in items]
    model = {}
    for n, a in items:
        model[n] = a
    prog = [(n, None, G.line_tokens(n, model[n]), ('%d ' % n).encode() + G.render(model[n])[1])
            for n in sorted(model)]
    data = progio.text_file_bytes(texts, case.get('fmt'))
    cmd = case['cmd']
    res.label('cmd:' + cmd)
    if case.get('fmt'):
        res.label('layout-variation')
    if len(model) < len(items):
        res.label('duplicates')
    if [n for n, _ in items] != sorted(n for n, _ in items):
        res.label('out-of-order')
    for t in texts:
        if len(t) >= 254:
            res.label('line:%d' % len(t))
    with harness.Sess() as s:
        with open(os.path.join(s.sandbox.z, 'T.BAS'), 'wb') as f:
            f.write(data)
        if cmd == 'MERGE-over':
            # a line that the file replaces and one that it leaves alone
            keep = 65529 if 65529 not in model else None
            s.execute_line(b'%d REM old' % prog[0][0])
            if keep:
                s.execute_line(b'65529 REM kept')
                prog = prog + [(keep, None, b'\x8f kept', b'65529 REM kept')]
            ok = run(s, res, b'MERGE "T"', 'merge')
        elif cmd == 'MERGE':
            ok = run(s, res, b'MERGE "T"', 'merge')
        else:
            s.execute_line(b'1 REM to be replaced')
            ok = run(s, res, b'LOAD "T"', 'load')
        if not ok:
            res.fails = [(k, m + ' file %r' % data[:300]) for k, m in res.fails]
            return res
        start = progio.program_start(s)
        img = image([(p[0], p[2]) for p in prog], start)
        res.nt(bool(case.get('fmt')) or len(model) < len(items) or any(len(t) >= 254 for t in texts))
        listing, o = progio.list_to_file(s)
        want = [p[3] for p in prog]
        if progio.listing_lines(listing) != want:
            got = progio.listing_lines(listing) or []
            i = next((i for i in range(min(len(got), len(want))) if got[i] != want[i]),
                     min(len(got), len(want)))
            res.fail('textfile.list', '%s of %r: listing line %d is %r, expected %r (%d vs %d lines)' % (
                cmd, data[:200], i, got[i] if i < len(got) else None,
                want[i] if i < len(want) else None, len(got), len(want)))
        _, m1 = read_memory(s, len(img), res, 'after ' + cmd)
        if m1 is not None and m1 != img:
            i = next(i for i in range(len(img)) if m1[i] != img[i])
            res.fail('textfile.memory', '%s: program memory differs from the model at offset %d: %s '
                     'expected %s' % (cmd, i, m1[max(0, i - 4):i + 8].hex(' '),
                                      img[max(0, i - 4):i + 8].hex(' ')))
    return res


# ---- session history before SAVE -----------------------------------------------------------

PRIORS = ['typed', 'LOAD-B', 'LOAD-P', 'LOAD-A']
REPLACES = ['NEW+type', 'LOAD-B', 'LOAD-P', 'LOAD-A', 'DELETE', 'type-over', 'DELETE+MERGE',
            'CHAIN-B', 'CHAIN-A']


def _type_program(s, res, prog):
    return enter_program(s, [(n, G.line_text(n, a), None, None) for n, a in prog], res)


def _save_all(s, res, stem):
    for fmt in 'BPA':
        if not run(s, res, b'SAVE "%s%s"' % (stem, fmt.encode()) + FMT_SUFFIX[fmt], 'save'):
            return False
    return True


def split_binary(fmt, data):
    """-> (payload up to and excluding trailing 1A bytes, number of 1A bytes) of a B/P file."""
    body = data[1:]
    if fmt == 'P':
        if body[-1:] != b'\x1a':
            return None, 0
        body = ref_decrypt(body[:-1]) + b'\x1a'
    k = len(body) - len(body.rstrip(b'\x1a'))
    return body.rstrip(b'\x1a'), k


def check_history(case, res):
    """
    A longer program is in memory first (typed or LOADed), is replaced by a shorter one, and the
    result is saved: the file must be what a fresh session holding only the final program saves.
    """
    prior, repl, fmt = case['prior'], case['replace'], case['fmt']
    long_p = sorted(case['long'], key=lambda t: t[0])
    short_p = sorted(case['short'], key=lambda t: t[0])
    # the lowest line of the short program ends execution at once (CHAIN runs it)
    short_p[0] = [short_p[0][0], G.canonical([['k', 'END', 0], ['p', ':']] + short_p[0][1])]
    res.label('prior:' + prior, 'replace:' + repl, 'fmt:' + fmt,
              'class:%s/%s/%s' % (prior, repl, fmt))
    sb = harness.Sandbox()

    def sess():
        return harness.Sess(sandbox=sb)
    try:
        # files of both programs from fresh sessions
        for stem, prog in ((b'L', long_p), (b'S', short_p)):
            with sess() as s:
                if not (_type_program(s, res, prog) and _save_all(s, res, stem)):
                    return res
        binary_loads = 0
        with sess() as s:
            # 1. the earlier, longer program
            if prior == 'typed':
                ok = _type_program(s, res, long_p)
            else:
                ok = run(s, res, b'LOAD "L%s"' % prior[-1:].encode(), 'load')
                binary_loads += prior[-1] in 'BP'
            if not ok:
                return res
            # 2. replace it
            final = dict((n, a) for n, a in short_p)
            if repl == 'NEW+type':
                ok = run(s, res, b'NEW', 'new') and _type_program(s, res, short_p)
            elif repl.startswith('LOAD-'):
                ok = run(s, res, b'LOAD "S%s"' % repl[-1:].encode(), 'load')
                binary_loads += repl[-1] in 'BP'
            elif repl.startswith('CHAIN-'):
                ok = run(s, res, b'CHAIN "S%s"' % repl[-1:].encode(), 'chain')
                binary_loads += repl[-1] in 'BP'
            else:
                keep = long_p[:1 + case['keep'] % 2]
                lo = long_p[len(keep)][0]
                final = dict((n, a) for n, a in keep)
                if repl == 'type-over':
                    ok = True
                    for n, _ in long_p[len(keep):]:
                        ok = ok and run(s, res, b'%d' % n, 'delete-line')
                    n0, a0 = keep[0]
                    ok = ok and _type_program(s, res, [(n0, [['k', 'END', 0]])])
                    final[n0] = [['k', 'END', 0]]
                else:
                    ok = run(s, res, b'DELETE %d-' % lo, 'delete')
                    if ok and repl == 'DELETE+MERGE':
                        ok = run(s, res, b'MERGE "SA"', 'merge')
                        final.update(dict((n, a) for n, a in short_p))
            if not ok:
                return res
            prog = [(n, G.line_tokens(n, final[n]), ('%d ' % n).encode() + G.render(final[n])[1])
                    for n in sorted(final)]
            # 3. listing of the final program (independent model) and SAVE
            listing, o = progio.list_to_file(s, name=b'FINAL.TXT')
            if progio.listing_lines(listing) != [p[2] for p in prog]:
                res.fail('history.list', '%s/%s: LIST shows %r, model %r' % (
                    prior, repl, progio.listing_lines(listing), [p[2] for p in prog]))
                return res
            start = progio.program_start(s)
            img = image([(p[0], p[1]) for p in prog], start)
            if not run(s, res, b'SAVE "OUT"' + FMT_SUFFIX[fmt], 'save'):
                return res
        with open(os.path.join(sb.z, 'OUT.BAS'), 'rb') as f:
            out = f.read()
        with open(os.path.join(sb.z, 'FINAL.TXT'), 'wb') as f:
            f.write(listing)
        # 4. a fresh session fed the final LIST saves the reference file; another re-loads OUT
        with sess() as s:
            if not (run(s, res, b'LOAD "FINAL.TXT"', 'load') and
                    run(s, res, b'SAVE "REF"' + FMT_SUFFIX[fmt], 'save')):
                return res
        with open(os.path.join(sb.z, 'REF.BAS'), 'rb') as f:
            ref = f.read()
        res.nt(True)
        if fmt == 'A':
            if out != ref:
                res.fail('history.file.A', '%s/%s: SAVE,A wrote %r, a fresh session %r' % (
                    prior, repl, out[:200], ref[:200]))
        else:
            body, k = split_binary(fmt, out)
            rbody, rk = split_binary(fmt, ref)
            if body is None or body != rbody or out[:1] != ref[:1]:
                n = 0
                while body is not None and n < len(body) and n < len(rbody) and body[n] == rbody[n]:
                    n += 1
                res.fail('history.file.%s' % fmt, '%s/%s: saved file has %d bytes, a fresh session '
                         'holding the same program writes %d; payloads differ at offset %d: %s vs %s'
                         % (prior, repl, len(out), len(ref), n,
                            (body or b'')[max(0, n - 4):n + 12].hex(' '),
                            rbody[max(0, n - 4):n + 12].hex(' ')))
            elif body != img:
                res.fail('history.image.%s' % fmt, '%s/%s: file payload differs from the image model'
                         % (prior, repl))
            elif not body.endswith(b'\0\0\0') or k < rk or k > rk + binary_loads:
                res.fail('history.end-marker.%s' % fmt, '%s/%s: file must end with the 00 00 end '
                         'marker and %d..%d EOF bytes, has %d' % (prior, repl, rk, rk + binary_loads, k))
            if k > rk:
                res.label('extra-eof-after-binary-load')
        with sess() as s:
            if run(s, res, b'LOAD "OUT"', 'reload'):
                again, o = progio.list_to_file(s)
                if again != listing:
                    res.fail('history.reload.%s' % fmt, '%s/%s: OUT re-loads as %r, was %r' % (
                        prior, repl, again, listing))
    finally:
        sb.close()
    return res


def check_rawload(case, res):
    """LOAD of a degenerate file must end in a BASIC error or an (empty) program, not escape."""
    data = bytes.fromhex(case['hex'])
    res.nt(True)
    with harness.Sess() as s:
        with open(os.path.join(s.sandbox.z, 'E.BAS'), 'wb') as f:
            f.write(data)
        o = s.execute(b'LOAD "E"')
        if o.kind == 'escaped':
            res.fail('escaped.%s@%s' % (o.exc, o.frame), 'LOAD of file %s: %s' % (data.hex(' '), o.tb))


# ---- converter ----------------------------------------------------------------------------------

def check_convert(case, res):
    src, dst = case['from'], case['to']
    res.label('convert:%s->%s' % (src, dst))
    prog = sorted(program_texts(case), key=lambda p: p[0])
    sb = harness.Sandbox()
    try:
        with harness.Sess(sandbox=sb) as s:
            start = progio.program_start(s)
            img = image([(p[0], p[2]) for p in prog], start)
            data = expected_file(src, img, prog)
            infile = os.path.join(sb.z, 'IN.BAS')
            with open(infile, 'wb') as f:
                f.write(data)
            res.nt(nontrivial_program(prog, img))
            if not (run(s, res, b'LOAD "IN"', 'load') and
                    run(s, res, b'SAVE "OUT"' + FMT_SUFFIX[dst], 'save')):
                return res
            with open(os.path.join(sb.z, 'OUT.BAS'), 'rb') as f:
                want = f.read()
        outfile = os.path.join(sb.root, 'conv.out')
        # pcbasic.main in a fresh interpreter (a pool worker's closed stdin upsets the CLI set-up)
        import subprocess
        code = ('import sys; sys.path.insert(0, %r); from pcbasic import main; '
                'main(*sys.argv[1:])' % harness.REPO)
        try:
            proc = subprocess.run(
                [sys.executable, '-c', code, '--convert=%s' % dst.lower(), infile, outfile],
                stdin=subprocess.DEVNULL, stdout=subprocess.PIPE, stderr=subprocess.PIPE,
                cwd=sb.root, timeout=100)
        except subprocess.TimeoutExpired:
            res.inconclusive = True
            return res
        if proc.returncode != 0 or b'Traceback' in proc.stderr:
            res.fail('convert.crash', '%s->%s: exit %d, stderr %r' % (
                src, dst, proc.returncode, proc.stderr[-800:]))
            return res
        try:
            with open(outfile, 'rb') as f:
                got = f.read()
        except OSError:
            res.fail('convert.no-output', '%s->%s wrote no file' % (src, dst))
            return res
        if got != want:
            res.fail('convert.%s-%s' % (src, dst), 'converter wrote %r, SAVE in a session wrote %r' % (
                got[:120], want[:120]))
    finally:
        sb.close()
    return res


def check_case(case):
    res = Result()
    u = case['u']
    if u == 'cpos':
        res.nt(True)
        check_cipher_pos(case['p'], case['b'], res)
    elif u == 'cstr':
        x = case['x'].encode('latin-1')
        res.nt(len(x) > 143)
        res.label('len:%s' % ('0' if not x else '1-143' if len(x) <= 143 else '144-286' if
                              len(x) <= 286 else '>286'))
        check_cipher_string(x, res, 'string of length %d' % len(x))
    elif u == 'rawload':
        check_rawload(case, res)
    elif u == 'textfile':
        check_textfile(case, res)
    elif u == 'history':
        check_history(case, res)
    elif u == 'prog':
        check_program(case, res)
    elif u == 'tokfile':
        check_tokfile(case, res)
    elif u == 'convert':
        check_convert(case, res)
    else:
        raise ValueError(u)
    return res


# ---------------------------------------------------------------------------------------------
# generators

def strat_cstr():
    lens = st.one_of(st.integers(0, 1000), st.sampled_from([0, 1, 2, 10, 11, 12, 13, 14, 142, 143, 144,
                                                            285, 286, 287, 429, 999, 1000]))
    return lens.flatmap(lambda n: st.binary(min_size=n, max_size=n)).map(
        lambda b: {'u': 'cstr', 'x': b.decode('latin-1')})


_RAW_CHARS = [chr(c) for c in range(1, 256) if c not in (0x22, 0x0d, 0x0a)]


def st_raw_line():
    """A line with arbitrary bytes in a string and a comment (binary formats only)."""
    txt = st.text(alphabet=st.sampled_from(_RAW_CHARS), max_size=30)
    special = st.sampled_from(['\x1a', '\xff', '\x0e\x01\x02', '\x1a\x1a', '\x0b', '\x1f\x00'[:1]])
    def build(a, sp, b, c):
        return [['v', 'A$', 0], ['o', '='], ['s', a + sp + b, True], ['p', ':'],
                ['rem', 'REM', 0, ' ' + c.replace('\x00', '')]]
    return st.builds(build, txt, special, txt, st.text(alphabet=st.sampled_from(_RAW_CHARS),
                                                       max_size=20))


def pad_line(atoms, target=248):
    """Extend a line with comment text so that its listed body is exactly `target` characters."""
    k = target - G.body_len(atoms)
    if k <= 0:
        return atoms
    last = atoms[-1]
    if last[0] == 'rem':
        sep = ' ' if (last[1] == 'REM' and not last[3]) else ''
        return atoms[:-1] + [['rem', last[1], last[2], last[3] + sep + 'x' * (k - len(sep))]]
    if last[0] == 'data':
        return atoms[:-1] + [['data', last[1], last[2] + 'x' * k]]
    if last[0] == 's' and not last[2]:
        return atoms[:-1] + [['s', last[1] + 'x' * k, False]]
    if k < 5:
        return atoms
    return atoms + [['p', ':'], ['rem', 'REM', 0, ' ' + 'x' * (k - 5)]]


def st_program(binary, maxlines=12):
    body = G.st_line_atoms('advanced', max_len=100, max_statements=3)
    longb = G.st_line_atoms('advanced', max_len=248, max_statements=10).map(pad_line)
    opts = [body, body, body, longb]
    if binary:
        opts += [st_raw_line(), st_raw_line()]
    num = st.one_of(st.integers(0, 65529), st.integers(1, 500).map(lambda n: n * 10),
                    st.sampled_from([0, 1, 65528, 65529]))
    return st.lists(st.tuples(num, st.one_of(*opts)).map(list), min_size=1, max_size=maxlines,
                    unique_by=lambda t: t[0])


def strat_programs():
    def build(fmt, dev):
        return st_program(fmt != 'A').map(lambda ls: {'u': 'prog', 'fmt': fmt, 'dev': dev,
                                                     'lines': ls})
    return st.tuples(st.sampled_from(['B', 'P', 'A']),
                     st.sampled_from(['disk', 'disk', 'mem', 'cas'])).flatmap(lambda t: build(*t))


def strat_tokfile():
    num = st.one_of(st.integers(0, 65535), st.sampled_from([65529, 65530, 65531, 65534, 65535]))
    lines = st.lists(st.tuples(num, st.one_of(G.st_line_atoms('advanced', max_len=80,
                                                              max_statements=2),
                                              st_raw_line())).map(list),
                     min_size=1, max_size=8, unique_by=lambda t: t[0]).map(
        lambda ls: sorted(ls, key=lambda t: t[0]))
    return st.builds(lambda ls, links, fmt, noeof: {'u': 'tokfile', 'lines': ls, 'links': links,
                                                    'fmt': fmt, 'noeof': noeof},
                     lines, st.lists(st.integers(1, 65535), min_size=8, max_size=8),
                     st.sampled_from(['B', 'P']), st.booleans())


def strat_textfile():
    num = st.one_of(st.integers(0, 65529), st.integers(1, 60).map(lambda n: n * 10),
                    st.sampled_from([0, 1, 10, 20, 65529]))
    body = G.st_line_atoms('advanced', max_len=100, max_statements=3)
    padto = st.sampled_from([None] * 8 + [254, 255, 255])
    lines = st.lists(st.tuples(num, body, padto).map(list), min_size=1, max_size=10)
    return st.builds(lambda ls, fmt, cmd: {'u': 'textfile', 'lines': ls, 'fmt': fmt, 'cmd': cmd},
                     lines, progio.st_text_fmt(), st.sampled_from(['LOAD', 'MERGE', 'MERGE-over']))


def strat_history():
    body = G.st_line_atoms('advanced', max_len=90, max_statements=3)
    num = st.one_of(st.integers(0, 65529), st.integers(1, 400).map(lambda n: n * 10))
    longp = st.lists(st.tuples(num, body).map(list), min_size=8, max_size=22,
                     unique_by=lambda t: t[0])
    shortp = st.lists(st.tuples(num, st.one_of(body, st.just([['k', 'BEEP', 0]]))).map(list),
                      min_size=1, max_size=3, unique_by=lambda t: t[0])
    ncls = len(PRIORS) * len(REPLACES) * 3
    return st.integers(0, ncls - 1).flatmap(lambda c: st.builds(
        lambda lp, sp, keep: {'u': 'history', 'prior': PRIORS[c % 4],
                              'replace': REPLACES[(c // 4) % len(REPLACES)],
                              'fmt': 'BPA'[c // (4 * len(REPLACES))], 'long': lp, 'short': sp,
                              'keep': keep},
        longp, shortp, st.integers(0, 1)))


def gen_history_grid(shard, nshards, tier, seed):
    """Every (prior, replacement, format) class once with fixed programs."""
    longp = [[i * 10, [['k', 'PRINT', 0], ['sp', 1], ['s', 'THIS IS LINE NUMBER %d OF A LONGER PROGRAM'
                                                      % i, True], ['p', ':'], ['v', 'X', 0], ['o', '='],
                       ['v', 'X', 0], ['o', '+'], ['n', 'b', 10 + i]]] for i in range(1, 30)]
    shortp = [[10, [['k', 'PRINT', 0], ['sp', 1], ['s', 'HELLO', True]]],
              [20, [['v', 'A', 0], ['o', '='], ['n', 'd', 1], ['p', ':'], ['k', 'GOTO', 0], ['sp', 1],
                    ['j', 10]]]]
    cases = [{'u': 'history', 'prior': p, 'replace': r, 'fmt': f, 'long': longp, 'short': shortp,
              'keep': k}
             for k, p in enumerate(PRIORS) for r in REPLACES for f in 'BPA']
    return cases[shard::nshards]


def strat_convert():
    def build(src, dst):
        return st_program(src != 'A', maxlines=6).map(
            lambda ls: {'u': 'convert', 'from': src, 'to': dst, 'lines': ls})
    return st.tuples(st.sampled_from('ABP'), st.sampled_from('ABP')).flatmap(lambda t: build(*t))


def gen_convert_pairs(shard, nshards, tier, seed):
    cases = []
    lines = [[10, [['k', 'PRINT', -1], ['sp', 1], ['n', 'd', 1]]],
             [20, [['v', 'A$', 0], ['o', '='], ['s', 'caf\xe9', True], ['p', ':'], ['k', 'GOTO', 0],
                   ['sp', 1], ['j', 10]]]]
    for src in 'ABP':
        for dst in 'ABP':
            cases.append({'u': 'convert', 'from': src, 'to': dst, 'lines': lines})
    return cases[shard::nshards]


def units(tier):
    return [
        Unit('cipher-exhaustive', 'bulk', shards=8, run=run_cipher_exhaustive, exhaustive=True),
        Unit('cipher-random', 'hyp', shards=4, examples={'quick': G.scaled(150),
                                                         'thorough': G.scaled(5000)},
             strategy=strat_cstr),
        Unit('programs', 'hyp', shards=16, examples={'quick': G.scaled(40),
                                                     'thorough': G.scaled(6000)},
             strategy=strat_programs),
        Unit('tokfile', 'hyp', shards=8, examples={'quick': G.scaled(30), 'thorough': G.scaled(1500)},
             strategy=strat_tokfile),
        Unit('textfile', 'hyp', shards=16, examples={'quick': G.scaled(40),
                                                     'thorough': G.scaled(3000)},
             strategy=strat_textfile),
        Unit('history-grid', 'enum', shards=12, gen=gen_history_grid),
        Unit('history', 'hyp', shards=16, examples={'quick': G.scaled(20),
                                                    'thorough': G.scaled(1500)},
             strategy=strat_history),
        Unit('convert-pairs', 'enum', shards=3, gen=gen_convert_pairs),
        Unit('convert', 'hyp', shards=16, examples={'quick': G.scaled(4), 'thorough': G.scaled(60)},
             strategy=strat_convert, per_case_timeout=120.0),
    ]


REGRESSIONS = [
    # finding cipher.empty: no byte processed -> unbound local in protect/unprotect
    {'u': 'cstr', 'x': ''},
    {'u': 'rawload', 'hex': 'fe1a'},
    {'u': 'rawload', 'hex': 'fe'},
    {'u': 'rawload', 'hex': 'ff'},
    {'u': 'cpos', 'p': 142, 'b': 255},
    # 0x8F inside a string literal followed by a constant holding a NUL (fixed c95f3f06)
    {'u': 'prog', 'fmt': 'B', 'dev': 'disk', 'lines': [
        [10, [['v', 'A$', 0], ['o', '='], ['s', '\x8f', True], ['p', ':'], ['v', 'B', 0], ['o', '='],
              ['n', 's', 5, -1, 0]]],
        [20, [['k', 'PRINT', 0], ['sp', 1], ['s', 'hello', True]]]]},
    {'u': 'prog', 'fmt': 'P', 'dev': 'cas', 'lines': [
        [0, [['k', 'PRINT', 0], ['sp', 1], ['n', 'i', 256]]],
        [65529, [['v', 'A$', 0], ['o', '='], ['s', '\x1a\xff', True]]]]},
    {'u': 'prog', 'fmt': 'A', 'dev': 'mem', 'lines': [
        [10, [['k', 'PRINT', 0], ['sp', 1], ['n', 's', 15, -1, 0], ['p', ';'], ['n', 'h', 255, 0]]]]},
    # seeded change: Program.erase did not truncate, the old program stayed behind the end marker
    {'u': 'history', 'prior': 'typed', 'replace': 'NEW+type', 'fmt': 'B', 'keep': 0,
     'long': [[i * 10, [['k', 'PRINT', 0], ['sp', 1], ['s', 'LINE %d OF A LONGER PROGRAM' % i, True]]]
              for i in range(1, 12)],
     'short': [[10, [['k', 'BEEP', 0]]]]},
    {'u': 'history', 'prior': 'LOAD-B', 'replace': 'LOAD-P', 'fmt': 'P', 'keep': 0,
     'long': [[i * 10, [['k', 'PRINT', 0], ['sp', 1], ['s', 'LINE %d OF A LONGER PROGRAM' % i, True]]]
              for i in range(1, 12)],
     'short': [[10, [['k', 'BEEP', 0]]]]},
    # seeded change: the text loader stopped at the first empty line
    {'u': 'textfile', 'cmd': 'LOAD', 'lines': [
        [30, [['k', 'PRINT', 0], ['sp', 1], ['n', 'd', 3]], None],
        [10, [['k', 'PRINT', 0], ['sp', 1], ['n', 'd', 1]], 255],
        [30, [['k', 'PRINT', 0], ['sp', 1], ['n', 'd', 4]], 254],
        [20, [['k', 'END', 0]], None]],
     'fmt': {'per': [{'e': 1, 'b': 0, 'l': 0, 'cr': False}, {'e': 0, 'b': 3, 'l': 2, 'cr': True}],
             'tail': 0, 'brk': False, 'eof': False}},
    {'u': 'tokfile', 'fmt': 'P', 'noeof': False, 'links': [1, 2], 'lines': [
        [65530, [['k', 'PRINT', 0], ['sp', 1], ['n', 'd', 1]]],
        [65535, [['k', 'END', 0]]]]},
]
