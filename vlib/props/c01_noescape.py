"""
C01 - no BASIC input ever produces an internal interpreter error.

Oracle: the only things that may leave Session.execute / evaluate / interact are a normal return or
error.Exit (incl. Reset); Session.close() must not raise either. Every other exception is a
violation, bucketed as 'escaped.<ExceptionType>@<file.py:function>' (innermost frame inside the
pcbasic package), so that each root cause is reported (and can be listed or fixed) on its own and
the campaign continues behind it. Budget exhaustion (endless loop, waiting for keys) is inconclusive.

Case shapes (JSON-native, byte strings as latin-1 str):
  {'u': 'lines', 'cfg': {...Session kwargs...}, 'dev': [extra devices], 'files': {name: latin1},
   'steps': [{'m': 'x'|'e'|'i', 't': text, 'k': keys typed before}, ...]}
  {'u': 'file', 'cfg': {...}, 'name': 'P.BAS', 'data': latin1 | None, 'base': [lines], 'fmt': 'T|P|A|M',
   'muts': [[op, pos, val]...], 'how': [statements run afterwards]}
  {'u': 'defaults', 'lines': [...], 'api': [...]}     all-defaults Session() in a child process
"""
import io
import os
import random
import shutil
import sys
import json
import glob
import logging
import traceback
import subprocess
import collections

from hypothesis import strategies as st

from vlib.core import Result, Unit
from vlib import harness, c01gen
from vlib.harness import Sess, Sandbox

ID = 'C01'
LEVEL = 'exploration'
RULE = ("Four generators into one executor: (1) grammar - statement templates written from the manual "
        "for every statement keyword and every function, slots filled from a boundary pool "
        "(-32769..65536, 1E38/1D308/denormal, NUL/0xFF/quote/255-byte strings, device and path "
        "names) with typed, deliberately mistyped and nested expressions, as direct statements and "
        "as 1-8 stored lines followed by RUN/CONT/RENUM/DELETE/LIST/EDIT/SAVE/LOAD/CHAIN/MERGE and "
        "typed keyboard input; (2) corpus mutation - windows of lines from the recorded GW-BASIC "
        "scripts under tests/basic with token deletion/duplication/swap/truncation and literal "
        "replacement; (3) token soup - keyword/number/punctuation/control/high-byte strings up to "
        "255 bytes as direct and numbered lines; (4) files - random bytes and mutated/truncated "
        "valid tokenised, protected, ASCII and BSAVE files through LOAD/RUN/MERGE/CHAIN/BLOAD. "
        "histories built by construction in which a stored program arms state (ON ERROR/ON KEY/ON "
        "TIMER traps, open files, FOR/WHILE/GOSUB stacks, DEF FN, DATA pointer, CONT-able STOP) and "
        "direct-mode statements then raise errors or use it, the handler ending by STOP/END/RESUME "
        "forms/ERROR/editing, with real Ctrl-Break and F1 key events injected at statement boundaries "
        "(labels hist:*); plus a directed enumeration of every statement taking a name=value / device / path / macro "
        "string against all boundary shapes of such strings (empty name or value, separator only, "
        "first, last, doubled, NUL/0xFF/quote and 254-byte halves). "
        "Configurations: syntax advanced/pcjr/tandy, nine video adapters, double, small memory, "
        "text width 40, DBCS codepage, extra devices (second drive, LPT1 file, cassette image); "
        "plus the all-defaults Session() in a child process. Non-trivial: some statement got past "
        "the tokeniser into a statement callback (an outcome other than Syntax error) or a file was "
        "handed to the loader; distinct = distinct case text.")
ASSUMPTIONS = [
    "absence of escaping exceptions is never established, only searched for; the label histogram "
    "shows which statement keywords, error codes and configurations were reached",
    "a step that exhausts the statement budget (endless loop, waiting for keys) is inconclusive",
    "after the first escaped exception in a case the rest of that case is not executed (the "
    "interpreter state is no longer trustworthy); other cases continue behind it",
    "MemoryError, KeyboardInterrupt and the runner's own wall-limit alarm are not counted",
]
TECHNIQUE = ("grammar-based, corpus-mutation, token-soup and file-format fuzzing (Hypothesis) with "
             "crash bucketing by exception type and innermost interpreter frame; sandboxed child "
             "process for the documented-defaults Session")

BUDGET = 1500

VIDEOS = ['vga', 'ega', 'cga', 'mda', 'hercules', 'pcjr', 'tandy', 'olivetti', 'ega_mono']
SYNTAXES = ['advanced', 'pcjr', 'tandy']


# --------------------------------------------------------------------------------------------
# executor

_CODEPAGES = {}


def session_kwargs(cfg, sandbox, extra_devices):
    kw = {}
    for k in ('syntax', 'video', 'double', 'max_memory', 'text_width', 'monitor', 'max_files',
              'max_reclen', 'ctrl_c_is_break', 'allow_code_poke', 'hide_protected', 'soft_linefeed',
              'box_protect', 'reserved_memory', 'check_keybuffer_full', 'serial_buffer_size'):
        if k in cfg:
            kw[k] = cfg[k]
    if cfg.get('codepage'):
        if cfg['codepage'] not in _CODEPAGES:
            from pcbasic.data import read_codepage
            _CODEPAGES[cfg['codepage']] = read_codepage(cfg['codepage'])
        kw['codepage'] = _CODEPAGES[cfg['codepage']]
    if cfg.get('textfile_encoding'):
        kw['textfile_encoding'] = cfg['textfile_encoding']
    devices = {'Z': sandbox.z}
    for d in extra_devices or ():
        if d == 'A':
            p = sandbox.path('a')
            os.makedirs(p, exist_ok=True)
            devices['A'] = p
        elif d == 'LPT1':
            devices['LPT1'] = 'FILE:' + sandbox.path('lpt1.out')
        elif d == 'LPT2':
            devices['LPT2'] = 'FILE:' + sandbox.path('lpt2.out')
        elif d == 'CAS1':
            devices['CAS1'] = 'CAS:' + sandbox.path('tape.cas')
    kw['devices'] = devices
    return kw


class ScratchDir(object):
    """
    One scratch tree per worker process, emptied (not re-created) between cases: most cases never
    touch the disk, and creating/removing three directories per case dominated the run time.
    Same interface as harness.Sandbox (root, z, path(), close()).
    """

    _inst = {}

    def __init__(self):
        self._sb = Sandbox()
        self.root, self.z = self._sb.root, self._sb.z

    @classmethod
    def get(cls):
        sd = cls._inst.get(os.getpid())
        if sd is None:
            sd = cls._inst[os.getpid()] = cls()
        elif not os.path.isdir(sd.z):
            sd.close()
        return sd

    def path(self, *parts):
        return os.path.join(self.root, *parts)

    def close(self):
        """Empty the tree; the directories stay for the next case."""
        try:
            self._empty()
            if not os.path.isdir(self.z):
                raise OSError('mount root gone')
        except OSError:
            # BASIC removed or replaced the mount root itself (RMDIR "Z:" ...): start afresh
            shutil.rmtree(self.root, ignore_errors=True)
            if os.path.lexists(self.root):
                os.unlink(self.root)
            os.makedirs(self.z)

    def _empty(self):
        for name in os.listdir(self.root):
            p = os.path.join(self.root, name)
            if name == 'z' and os.path.isdir(p) and not os.path.islink(p):
                for sub in os.listdir(p):
                    q = os.path.join(p, sub)
                    if os.path.isdir(q) and not os.path.islink(q):
                        shutil.rmtree(q, ignore_errors=True)
                    else:
                        os.unlink(q)
            elif os.path.isdir(p) and not os.path.islink(p):
                shutil.rmtree(p, ignore_errors=True)
            else:
                os.unlink(p)


def is_alarm(o):
    return o is not None and o.kind == 'escaped' and o.exc == 'CaseTimeout'


def bucket_frame(exc):
    """
    Frame naming the root cause: the innermost frame inside pcbasic; for a RecursionError the
    most frequent pcbasic frame of the whole traceback (where the depth ran out is arbitrary).
    """
    if isinstance(exc, RecursionError):
        cnt = collections.Counter()
        for fs in traceback.extract_tb(exc.__traceback__):
            if '/pcbasic/' in fs.filename.replace('\\', '/'):
                cnt['%s:%s' % (os.path.basename(fs.filename), fs.name)] += 1
        if cnt:
            top = max(cnt.values())
            return sorted(k for k, v in cnt.items() if v >= top - 1)[0]
    return harness.innermost_frame(exc.__traceback__)


def call(s, mode, text):
    """One guarded API call on the session -> harness.Outcome (same classification as Sess._run)."""
    impl = s.impl
    out = io.BytesIO()
    s.calls = 0
    kind, exc, frame, tb = 'ok', None, None, None
    try:
        with impl.io_streams.activate():
            impl.io_streams.add_pipes(None, out)
            try:
                if mode == 'e':
                    impl.evaluate(text)
                elif mode == 'i':
                    impl.interact()
                else:
                    impl.execute(text)
            finally:
                impl.io_streams.remove_pipes(None, out)
    except harness.BudgetExhausted:
        s._recover()
        kind = 'budget'
    except harness.error.Exit:
        kind = 'exit'
    except BaseException as e:          # noqa: B902 -- classification is the point
        if isinstance(e, (KeyboardInterrupt, SystemExit, MemoryError)) or \
                type(e).__name__ == 'CaseTimeout':
            raise
        kind, exc, frame = 'escaped', type(e).__name__, bucket_frame(e)
        lines = traceback.format_exception(type(e), e, e.__traceback__)
        tb = ''.join(lines[-6:])
    o = out.getvalue()
    return harness.Outcome(kind, o, harness.parse_errors(o), exc, frame, tb=tb)


def make_injector(s, break_at, fkey_at):
    """Put a real Ctrl-Break / F1 key event on the input queue at the given check_events call."""
    def inject(k):
        if break_at and k == break_at:
            s.put_signal(harness.signals.KEYB_DOWN, (u'', 0x46, [0x1D]))
        if fkey_at and k == fkey_at:
            s.put_signal(harness.signals.KEYB_DOWN, (u'\0\x3b', 0x3B, []))
    return inject


def bucket(o, prefix='escaped'):
    return '%s.%s@%s' % (prefix, o.exc, o.frame)


def run_steps(case, res, minimise=True):
    """Execute a 'lines' case; returns the key of the escaped exception or None."""
    env = dict(os.environ)
    sb = ScratchDir.get()
    s = None
    key = None
    try:
        for name, data in sorted((case.get('files') or {}).items()):
            with open(os.path.join(sb.z, os.path.basename(name)), 'wb') as f:
                f.write(data.encode('latin-1'))
        try:
            s = Sess(sandbox=sb, budget=BUDGET, **session_kwargs(case.get('cfg') or {}, sb,
                                                                 case.get('dev')))
        except BaseException as e:      # noqa: B902
            if isinstance(e, (KeyboardInterrupt, SystemExit, MemoryError)) or \
                    type(e).__name__ == 'CaseTimeout':
                raise
            # a configuration the constructor rejects is not BASIC input
            res.label('config-rejected:%s' % type(e).__name__)
            return None
        real = 0
        for i, step in enumerate(case['steps']):
            if step.get('k'):
                try:
                    s.s.press_keys(step['k'])
                except Exception:       # noqa: B902 -- not the subject: keys outside the API domain
                    pass
            text = step['t'].encode('latin-1', 'replace')
            mode = step.get('m', 'x')
            if step.get('b') or step.get('f'):
                s.inject = make_injector(s, step.get('b'), step.get('f'))
            try:
                o = call(s, mode, text)
            finally:
                s.inject = None
            if is_alarm(o):
                res.inconclusive = True
                res.label('case-wall-limit')
                return None
            if o.kind == 'budget':
                res.label('step:budget')
                res.inconclusive = True
            elif o.kind == 'escaped':
                key = bucket(o)
                msg = 'step %d %r (%s): %s' % (i, step['t'][:300], mode, (o.tb or '')[-900:])
                if minimise:
                    alone = reproduces_alone(case, i, key)
                    if alone:
                        msg = 'reproduces alone in a fresh session: %r | %s' % (step['t'][:300], msg)
                res.fail(key, msg)
                return key
            else:
                codes = [c for c, _ in o.errors]
                if not codes or any(c != 2 for c in codes):
                    real += 1
                for c in codes[:2]:
                    res.label('err:%d' % c)
                if o.kind == 'exit':
                    res.label('step:exit')
                    break
            if i % 4 == 0:
                # a sample of the statement keywords (the evidence keeps the 60 commonest labels)
                res.label('kw:' + c01gen.keyword_of(step['t']))
        res.nt(real > 0)
        for tag in case.get('tags') or ():
            res.label('hist:' + tag)
        closed = s.close()
        s = None
        if closed is not None and not is_alarm(closed):
            key = bucket(closed, 'close.escaped')
            res.fail(key, 'Session.close() after %r' % [st_['t'][:80] for st_ in case['steps']][-6:])
        return key
    finally:
        if s is not None:
            try:
                s.close()
            except Exception:           # noqa: B902
                pass
        sb.close()
        os.environ.clear()
        os.environ.update(env)


def reproduces_alone(case, i, key):
    sub = dict(case, steps=[case['steps'][i]])
    r = Result()
    try:
        return run_steps(sub, r, minimise=False) == key
    except Exception:                   # noqa: B902
        return False


# ---- files ---------------------------------------------------------------------------------

def big_file(spec):
    """
    A large program file from a compact description (the case stays small):
    {'fmt': 'T'|'P'|'A', 'size': target bytes, 'body': latin1 line body (tokenised bytes for T/P,
     text for A), 'first': first line number, 'step': line number step, 'tail': latin1 raw bytes
     appended (soup / cut-off), 'wellformed': bool (terminating 00 00 1A present)}
    """
    fmt = spec.get('fmt', 'T')
    body = spec.get('body', '\x8f x').encode('latin-1')
    size = int(spec.get('size', 66000))
    num, step = int(spec.get('first', 10)), max(1, int(spec.get('step', 1)))
    tail = spec.get('tail', '').encode('latin-1')
    chunks = []
    total = 1
    if fmt == 'A':
        while total < size:
            ln = b'%d ' % (num % 65530) + body + b'\r\n'
            chunks.append(ln)
            total += len(ln)
            num += step
        data = b''.join(chunks) + tail + (b'\x1a' if spec.get('wellformed', True) else b'')
        return data
    addr = 4717
    while total < size:
        addr = (addr + len(body) + 5) & 0xffff
        ln = bytes([addr & 0xff or 1, (addr >> 8) or 1]) + bytes([num & 0xff, (num >> 8) & 0xff]) \
            + body + b'\0'
        chunks.append(ln)
        total += len(ln)
        num = (num + step) % 65530
    plain = b''.join(chunks) + tail + (b'\0\0\x1a' if spec.get('wellformed', True) else b'')
    if fmt == 'T':
        return b'\xff' + plain
    # protected: encrypt with the interpreter's own cipher (input construction only)
    from pcbasic.basic.converter import protect as _protect
    out = io.BytesIO()
    _protect(io.BytesIO(plain), out)
    return b'\xfe' + out.getvalue() + b'\x1a'


def make_file(case, sb):
    """bytes of the file to load: given data, or a valid saved file with mutations applied."""
    if case.get('big'):
        data = big_file(case['big'])
    elif case.get('data') is not None:
        data = case['data'].encode('latin-1')
    else:
        fmt = case.get('fmt', 'T')
        with Sess(budget=BUDGET) as s0:
            s0.execute('\n'.join(case.get('base') or ['10 PRINT 1']).encode('latin-1', 'replace'))
            if fmt == 'M':
                s0.execute(b'DEF SEG=&HB800:BSAVE "X.BIN",0,300')
                path = os.path.join(s0.sandbox.z, 'X.BIN')
            else:
                s0.execute(b'SAVE "X.BAS"' + {'T': b'', 'P': b',P', 'A': b',A'}[fmt])
                path = os.path.join(s0.sandbox.z, 'X.BAS')
            try:
                with open(path, 'rb') as f:
                    data = f.read()
            except EnvironmentError:
                data = b''
    data = bytearray(data)
    for op, pos, val in case.get('muts') or ():
        n = len(data)
        if op == 'trunc':
            del data[pos % (n + 1):]
        elif n == 0:
            data.append(val % 256)
        elif op == 'set':
            data[pos % n] = val % 256
        elif op == 'ins':
            data.insert(pos % (n + 1), val % 256)
        elif op == 'del':
            del data[pos % n]
        elif op == 'dup':
            p = pos % n
            data[p:p] = data[p:p + 1 + val % 32]
    return bytes(data)


def run_file(case, res):
    env = dict(os.environ)
    sb = ScratchDir.get()
    s = None
    try:
        data = make_file(case, sb)
        name = os.path.basename(case.get('name') or 'P.BAS')
        with open(os.path.join(sb.z, name), 'wb') as f:
            f.write(data)
        res.label('file:first-byte-%s' % {0xff: 'FF', 0xfe: 'FE', 0xfd: 'FD', 0xfc: 'FC'}.get(
            data[0] if data else -1, 'other'))
        s = Sess(sandbox=sb, budget=BUDGET, **session_kwargs(case.get('cfg') or {}, sb, None))
        loaded = False
        for i, text in enumerate(case['how']):
            o = call(s, 'x', text.encode('latin-1', 'replace'))
            if is_alarm(o):
                res.inconclusive = True
                return
            if o.kind == 'budget':
                res.inconclusive = True
                res.label('step:budget')
            elif o.kind == 'escaped':
                res.fail(bucket(o), 'file %r (%d bytes, starts %r) then %r: %s' % (
                    name, len(data), data[:24], case['how'][:i + 1], (o.tb or '')[-900:]))
                return
            else:
                if i == 0 and 53 not in [c for c, _ in o.errors]:
                    loaded = True
                for c, _ in o.errors[:2]:
                    res.label('err:%d' % c)
                if o.kind == 'exit':
                    break
        res.nt(loaded)
        for tag in case.get('tags') or ():
            res.label('hist:' + tag)
        closed = s.close()
        s = None
        if closed is not None and not is_alarm(closed):
            res.fail(bucket(closed, 'close.escaped'), 'Session.close() after loading %r' % data[:40])
    finally:
        if s is not None:
            try:
                s.close()
            except Exception:           # noqa: B902
                pass
        sb.close()
        os.environ.clear()
        os.environ.update(env)


# ---- all-defaults session in a child process --------------------------------------------------

CHILD = r'''
import sys, os, json, traceback
repo, report = sys.argv[1], sys.argv[2]
sys.path.insert(0, repo)
from pcbasic.basic import Session
from pcbasic.basic.base import error
job = json.load(open(report + '.in'))
out = []
def frame(tb):
    fr = None
    for fs in traceback.extract_tb(tb):
        if '/pcbasic/' in fs.filename.replace('\\', '/'):
            fr = fs
    return '%s:%s' % (os.path.basename(fr.filename), fr.name) if fr else '?'
def guarded(what, fn):
    try:
        fn()
        out.append([what, 'ok', None, None])
    except error.Exit:
        out.append([what, 'exit', None, None])
        return False
    except BaseException as e:
        if isinstance(e, (KeyboardInterrupt, SystemExit, MemoryError)):
            raise
        out.append([what, 'escaped', type(e).__name__, frame(e.__traceback__),
                    ''.join(traceback.format_exception(type(e), e, e.__traceback__)[-5:])])
        return False
    return True
CWD = os.getcwd()
def new_session():
    # the default session mounts the current directory; a BASIC line (RMDIR "Z:") may have removed
    # it, and constructing a session without a working directory is not BASIC input
    os.makedirs(CWD, exist_ok=True)
    os.chdir(CWD)
    return Session()                # every keyword argument at its documented default
s = new_session()
for line in job['lines']:
    if not guarded(line, lambda: s.execute(line)):
        try:
            s.close()
        except BaseException:
            pass
        s = new_session()
for expr in job.get('api', []):
    if not guarded('evaluate ' + expr, lambda: s.evaluate(expr)):
        s = new_session()
guarded('close', s.close)
if job.get('interact'):
    # documented-defaults session driven by (empty) standard input: must end by a normal exit
    s = new_session()
    guarded('interact', s.interact)
    guarded('close', s.close)
json.dump(out, open(report, 'w'))
'''


def run_defaults(case, res):
    sb = Sandbox()
    try:
        cwd = sb.path('cwd')
        os.makedirs(cwd)
        report = sb.path('report.json')
        with open(report + '.in', 'w') as f:
            json.dump({'lines': case['lines'], 'api': case.get('api', []),
                       'interact': bool(case.get('interact'))}, f)
        script = sb.path('child.py')
        with open(script, 'w') as f:
            f.write(CHILD)
        env = {k: v for k, v in os.environ.items() if k not in ('PYTHONPATH',)}
        env['PYTHONDONTWRITEBYTECODE'] = '1'
        env['HOME'] = cwd
        # standard input is a regular file (typed lines for the interact() leg, then end of file);
        # /dev/null is avoided: the console reader thread dies on its FIONREAD ioctl and interact()
        # then waits forever, which is an environment matter, not BASIC input
        stdin_path = sb.path('stdin.txt')
        with open(stdin_path, 'wb') as f:
            f.write(''.join(ln + '\r\n' for ln in case.get('stdin', [])).encode('latin-1', 'replace'))
        try:
            with open(stdin_path, 'rb') as stdin:
                p = subprocess.run([sys.executable, script, harness.REPO, report], cwd=cwd,
                                   stdin=stdin, stdout=subprocess.PIPE, stderr=subprocess.PIPE,
                                   env=env, timeout=90)
        except subprocess.TimeoutExpired:
            res.inconclusive = True
            res.label('defaults:child-timeout')
            return
        if not os.path.exists(report):
            res.inconclusive = True
            res.label('defaults:no-report')
            res.fail('defaults.child-died', 'exit %s stderr %s' % (
                p.returncode, p.stderr.decode('latin-1')[-1500:]))
            return
        with open(report) as f:
            out = json.load(f)
        real = 0
        for rec in out:
            what, kind = rec[0], rec[1]
            res.label('defaults:' + kind)
            if kind == 'escaped':
                res.fail('escaped.%s@%s' % (rec[2], rec[3]),
                         'default Session(): %r: %s' % (what, rec[4][-900:]))
            else:
                real += 1
        res.nt(real > 0)
    finally:
        sb.close()


def check_case(case):
    res = Result()
    u = case['u']
    logging.disable(logging.ERROR)          # "not implemented", font, unmapped errno chatter
    if u == 'lines':
        run_steps(case, res)
        cfg = case.get('cfg') or {}
        res.label('cfg:%s/%s' % (cfg.get('syntax', 'advanced'), cfg.get('video', 'cga')))
    elif u == 'file':
        run_file(case, res)
    elif u == 'defaults':
        run_defaults(case, res)
    else:
        raise ValueError(u)
    return res


# --------------------------------------------------------------------------------------------
# strategies

def build_cfg(sel):
    """sel: list of small ints -> Session kwargs (JSON)."""
    ent = c01gen.Entropy(sel)
    cfg = {}
    k = ent.next(4)
    if k:
        cfg['syntax'] = SYNTAXES[k - 1]
    k = ent.next(len(VIDEOS) + 3)
    if k >= 3:
        cfg['video'] = VIDEOS[k - 3]
    if ent.next(4) == 1:
        cfg['double'] = True
    k = ent.next(8)
    if k == 1:
        cfg['max_memory'] = 8192
    elif k == 2:
        cfg['max_memory'] = 6000
    if ent.next(8) == 1:
        cfg['text_width'] = 40
    if ent.next(10) == 1:
        cfg['codepage'] = ['936', '932', '949', '874'][ent.next(4)]
    if ent.next(10) == 1:
        cfg['monitor'] = ['mono', 'composite', 'rgb'][ent.next(3)]
    if ent.next(12) == 1:
        cfg['max_files'] = [0, 1, 15][ent.next(3)]
    if ent.next(12) == 1:
        cfg['max_reclen'] = [1, 512][ent.next(2)]
    if ent.next(12) == 1:
        cfg['allow_code_poke'] = True
    if ent.next(12) == 1:
        cfg['hide_protected'] = True
    if ent.next(12) == 1:
        cfg['textfile_encoding'] = 'utf-8'
    if ent.next(12) == 1:
        cfg['soft_linefeed'] = True
    dev = []
    k = ent.next(6)
    if k == 1:
        dev = ['A']
    elif k == 2:
        dev = ['LPT1', 'LPT2']
    elif k == 3:
        dev = ['CAS1']
    elif k == 4:
        dev = ['A', 'LPT1', 'CAS1']
    return cfg, dev


SETUP = ['DIM R(5),R%(20),Q$(3),G%(60),D#(2)', 'DEF FNA(X)=X+1:DEF FNB(X,Y)=X*Y:DEF FNS$(X$)=X$+"!"',
         'S$="string":T$=STRING$(255,66):A=1.5:I%=7', 'ON ERROR GOTO 0']
AFTER = ['RUN', 'CONT', 'LIST', 'RENUM', 'RENUM 1000,30,7', 'DELETE 20-40', 'SAVE "P.BAS"', 'LOAD "P.BAS"',
         'SAVE "Q.BAS",A', 'MERGE "Q.BAS"', 'CHAIN "Q.BAS"', 'EDIT 10', 'LLIST', 'RUN 30', 'NEW', 'LIST 20',
         'SAVE "R.BAS",P', 'LOAD "R.BAS",R', 'CHAIN MERGE "Q.BAS",20,ALL', 'GOTO 20', 'RESUME', 'FILES',
         'PRINT FRE("")', 'CLEAR', 'KEY ON', 'SCREEN 0:WIDTH 80', 'RUN "P.BAS"', 'RENUM 10,65000']
KEYINPUT = ['12\r', '\r', 'abc\r', '1,2,3\r', '"q",5\r', '1E39\r', '\x03', '\x1b', 'x' * 40 + '\r',
            '-32769\r', ',\r', '\x0c\r', '\x0e', '\x7f\r', '99999999999999999999\r', '&HFFFF\r']


def build_lines(cfgsel, shape, stmts, after, keys, trap):
    cfg, dev = build_cfg(cfgsel)
    steps = []
    if shape % 4 != 3:
        steps += [{'m': 'x', 't': t} for t in SETUP[:(shape // 4) % 5]]
    texts = [c01gen.statement(i, ints) for i, ints in stmts]
    if shape % 2 == 0:
        # direct statements, some joined by colons
        i = 0
        while i < len(texts):
            n = 1 + (shape + i) % 3
            steps.append({'m': 'x', 't': ':'.join(texts[i:i + n])[:250]})
            i += n
    else:
        # stored program
        ln = 10
        if trap % 3 == 1:
            steps.append({'m': 'x', 't': '5 ON ERROR GOTO 60000'})
        elif trap % 3 == 2:
            steps.append({'m': 'x', 't': '5 ON KEY(1) GOSUB 60010:KEY(1) ON:ON TIMER(1) GOSUB 60010:TIMER ON'})
        i = 0
        while i < len(texts):
            n = 1 + (shape + i) % 2
            steps.append({'m': 'x', 't': ('%d %s' % (ln, ':'.join(texts[i:i + n])))[:250]})
            ln += 10
            i += n
        if trap % 3:
            steps.append({'m': 'x', 't': '60000 PRINT ERR;ERL:RESUME NEXT'})
            steps.append({'m': 'x', 't': '60010 RETURN'})
        steps.append({'m': 'x', 't': 'RUN'})
    for a in after:
        steps.append({'m': 'x', 't': AFTER[a % len(AFTER)]})
    if keys:
        typed = ''.join(KEYINPUT[k % len(KEYINPUT)] for k in keys)
        # typed input: attach to the steps that may wait for the keyboard, then one interactive leg
        for stp in steps:
            if any(w in stp['t'] for w in ('INPUT', 'RANDOMIZE', 'INKEY', 'AUTO', 'EDIT', 'KYBD')):
                stp['k'] = typed
        if shape % 5 == 0:
            steps.append({'m': 'i', 't': '', 'k': typed + 'RUN\r' + typed + 'SYSTEM\r'})
    case = {'u': 'lines', 'cfg': cfg, 'steps': steps}
    if dev:
        case['dev'] = dev
    return case


def rints(rng, n, hi=1000):
    return [rng.randrange(hi) for _ in range(n)]


def seeded(builder):
    """
    Strategy: 8 uniformly random bytes seed a PRNG from which `builder(rng)` derives the whole case.
    (Hypothesis' own integer/list draws are biased towards small values and short lists, which made
    the first entries of every pool dominate; the recorded case is concrete text either way.)
    """
    return st.binary(min_size=8, max_size=8).map(lambda b: builder(random.Random(b)))


def gen_grammar(rng):
    stmts = [(rng.randrange(len(c01gen.STATEMENTS)), rints(rng, 24)) for _ in range(rng.randint(1, 10))]
    after = rints(rng, rng.choice([0, 0, 1, 2, 3]), 100)
    keys = rints(rng, rng.choice([0, 0, 1, 2, 4]), 100)
    return build_lines(rints(rng, 16, 100), rng.randrange(60), stmts, after, keys, rng.randrange(6))


def strat_grammar():
    return seeded(gen_grammar)


def gen_expr(rng):
    """Single expressions through Session.evaluate and PRINT."""
    cfg, dev = build_cfg(rints(rng, 4, 100))
    ent = c01gen.Entropy(rints(rng, 24))
    pool = c01gen.NUMFUNCS if rng.random() < 0.5 else c01gen.STRFUNCS
    text = c01gen.expand(pool[ent.next(len(pool))], ent, depth=0)
    steps = [{'m': 'x', 't': t} for t in SETUP[:3]]
    steps.append({'m': 'e', 't': text} if rng.random() < 0.5 else {'m': 'x', 't': 'PRINT ' + text})
    steps.append({'m': 'x', 't': 'A$=STRING$(200,65):B$=A$+"":PRINT FRE("")'})
    return {'u': 'lines', 'cfg': cfg, 'steps': steps}


def strat_expr():
    return seeded(gen_expr)


# ---- histories: state armed by a program, used from direct mode ---------------------------------

HANDLER_ACTIONS = [
    'STOP', 'STOP', 'END', 'RESUME', 'RESUME NEXT', 'RESUME 20', 'RESUME 0', 'RESUME 9999', 'ERROR 5',
    'ERROR ERR', 'ERROR 255', 'ON ERROR GOTO 0', 'RETURN', 'GOTO 20', 'NEXT', 'WEND', 'CONT', 'RUN', 'RUN 20',
    'CLEAR', 'NEW', 'A=1/0:X%=40000', 'A$=CHR$(-1)', 'ON ERROR GOTO 1000:ERROR 6', 'PRINT ERL;ERR:STOP',
    'IF ERL=65535 THEN STOP ELSE RESUME NEXT', 'IF ERL=65535 THEN RESUME NEXT ELSE END', 'INPUT Z', 'GOSUB 500',
    'CHAIN "Q.BAS"', 'DELETE 1000', 'LIST', 'SYSTEM', 'CLOSE:RESUME NEXT', 'READ Z:RESUME', 'KEY(1) STOP:STOP',
]
EVENT_SUB_ACTIONS = ['RETURN', 'V=V+1:RETURN', 'STOP', 'ERROR 7', 'RETURN 20', 'END', 'A=1/0:X%=40000:RETURN']
RAISERS = ['ERROR 5', 'ERROR 11', 'ERROR 255', 'A$=CHR$(-1)', 'PRINT 1/0:X%=40000', 'GOTO 9999', 'PRINT R(99)',
           'FIELD 9,1 AS Z$', 'PRINT FNZ(1)', 'A$=STRING$(255,65)+STRING$(255,66)', 'OPEN "NOSUCH" FOR INPUT AS 3',
           'READ A,A,A,A,A,A,A,A', 'A=VAL("1E99")*1E38*1E38', 'X%=1E10', 'ERROR ERR', 'COLOR 99,99,99', '?!']
USERS = ['NEXT', 'NEXT I', 'NEXT J,I', 'WEND', 'RETURN', 'RETURN 20', 'RESUME', 'RESUME NEXT', 'RESUME 20', 'RESUME 0',
         'CONT', 'STOP', 'END', 'GOTO 70', 'GOTO 510', 'GOSUB 500', 'RUN 60', 'RUN', 'PRINT FNA(1);FNS$("x")', 'READ A',
         'READ B$,A', 'RESTORE', 'RESTORE 900', 'RESTORE 9999', 'PRINT#1,"x"', 'WRITE#1,A,B$', 'CLOSE', 'CLOSE 2', 'GET 2',
         'PUT 2,1', 'LSET X$="a":RSET Y$="b"', 'PRINT X$;Y$', 'INPUT#3,B$', 'PRINT EOF(3);LOF(2);LOC(1)', 'KEY(1) STOP',
         'KEY(1) ON', 'TIMER STOP', 'TIMER ON', 'ON ERROR GOTO 0', 'ON ERROR GOTO 1000', 'ON ERROR GOTO 9999',
         'PRINT ERR;ERL', 'CLEAR', 'NEW', 'DELETE 1000', '1000 REM', '1000 STOP', '20 PRINT', 'RENUM', 'RENUM 100,,5', 'LIST',
         'EDIT 10', 'SAVE "Q.BAS",A', 'MERGE "Q.BAS"', 'CHAIN MERGE "Q.BAS",20,ALL', 'CHAIN "Q.BAS",,ALL', 'LOAD "Q.BAS"',
         'LOAD "Q.BAS",R', 'DEF FNA(X)=1', 'DEF SEG', 'ERASE R', 'DIM R(9)', 'OPTION BASE 1', 'FOR I=1 TO 2', 'WHILE 1',
         'FOR I=1 TO 2:NEXT', 'I=5:NEXT', 'TRON', 'AUTO', 'KEY ON', 'SCREEN 1', 'WIDTH 40', 'PRINT FRE("")', 'FILES',
         'ON KEY(1) GOSUB 2000', 'ON TIMER(1) GOSUB 2000', 'COMMON A', 'RANDOMIZE 1', 'SWAP A,B']


def gen_history(rng, deep=False):
    """
    By construction: a stored program arms interpreter state (error trap, event traps, open files,
    loop/GOSUB stacks, DEF FN, DATA pointer, a CONT-able STOP) and returns to direct mode; then
    direct statements raise errors or use that state; the handler/event routine ends in every way
    (STOP, END, RESUME forms, ERROR, Ctrl-Break while it runs, editing the program under it).
    """
    tags = []
    prog = []
    trap = rng.random() < 0.8
    if trap:
        prog.append('10 ON ERROR GOTO 1000')
        tags.append('trap-armed')
    if rng.random() < 0.35:
        prog.append('12 ON KEY(1) GOSUB 2000:KEY(1) ON')
        tags.append('key-trap')
    if rng.random() < 0.2:
        prog.append('14 ON TIMER(1) GOSUB 2000:TIMER ON')
        tags.append('timer-trap')
    if rng.random() < 0.6:
        prog.append('16 DEF FNA(X)=X*2+Q:DEF FNS$(X$)=X$+S$:Q=3:S$="s":DIM R(5),Q$(3)')
        tags.append('def-fn')
    prog.append('20 PRINT "P";')
    if rng.random() < 0.5:
        prog.append('30 OPEN "O",1,"F.TXT":OPEN "R",2,"R.DAT",16:FIELD 2,8 AS X$,8 AS Y$:OPEN "I",3,"IN.TXT"')
        tags.append('files-open')
    if rng.random() < 0.5:
        prog.append('40 READ A,B$')
        tags.append('data-pointer')
    stack = rng.choice(['none', 'none', 'for', 'gosub', 'while', 'for-gosub'])
    stop_in = rng.choice(['STOP', 'STOP', 'END', rng.choice(RAISERS)])
    if stack in ('for', 'for-gosub'):
        prog.append('60 FOR I=1 TO 3:FOR J=1 TO 2')
    if stack in ('gosub', 'for-gosub'):
        prog.append('70 GOSUB 500')
    if stack == 'while':
        prog.append('70 W=0:WHILE W<3:W=W+1')
    if stack != 'none':
        tags.append('stack-' + stack)
        if stack not in ('gosub', 'for-gosub'):
            prog.append('80 ' + stop_in)
        if stack == 'while':
            prog.append('85 WEND')
        if stack in ('for', 'for-gosub'):
            prog.append('90 NEXT J,I')
    end = rng.choice(['END', 'END', 'STOP', 'STOP', '', rng.choice(RAISERS), 'ON ERROR GOTO 0:END'])
    if end:
        prog.append('100 ' + end)
    tags.append('ends-' + (end.split(' ')[0].split(':')[0] if end in ('END', 'STOP', '') else
                           'error' if end in RAISERS else 'untrap') if end else 'ends-falloff')
    prog.append('500 PRINT "S";:%s' % stop_in)
    prog.append('510 RETURN')
    prog.append('900 DATA 1,two,3,4')
    act = rng.choice(HANDLER_ACTIONS)
    second = rng.choice(['RESUME NEXT', 'RESUME NEXT', 'STOP', 'END', 'RESUME'])
    prog.append('1000 E=ERR:L=ERL:C=C+1:%s' % act)        # no PRINT: a looping handler would scroll
    prog.append('1010 %s' % second)
    prog.append('2000 %s' % rng.choice(EVENT_SUB_ACTIONS))
    prog.append('2010 RETURN')
    first = act.split(' ')[0].split(':')[0]
    tags.append('handler-' + (first if first in ('STOP', 'END', 'RESUME', 'ERROR') else 'other'))
    steps = [{'m': 'x', 't': t} for t in prog]
    steps.append({'m': 'x', 't': 'SAVE "Q.BAS",A'})
    run = {'m': 'x', 't': 'RUN'}
    if rng.random() < 0.15:
        run['b'] = rng.randint(2, 12)
        tags.append('break-in-run')
    steps.append(run)
    n = rng.randint(3, 16 if deep else 8)
    nbreak = 0
    for _ in range(n):
        r = rng.random()
        if r < 0.4:
            t = rng.choice(RAISERS)
        elif r < 0.9 or not deep:
            t = rng.choice(USERS)
        else:
            t = c01gen.statement(rng.randrange(len(c01gen.STATEMENTS)), rints(rng, 16))
        if rng.random() < 0.15:
            t = t + ':' + rng.choice(RAISERS + USERS)
        stp = {'m': 'x', 't': t[:250]}
        if rng.random() < 0.2:
            stp['b'] = rng.randint(1, 5)
            nbreak += 1
        if 'key-trap' in tags and rng.random() < 0.25:
            stp['f'] = rng.randint(1, 3)
        if 'INPUT' in t or 'AUTO' in t or 'EDIT' in t:
            stp['k'] = rng.choice(KEYINPUT)
        steps.append(stp)
    if nbreak:
        tags.append('break-in-direct')
    if rng.random() < 0.25:
        steps.append({'m': 'i', 't': '', 'k': rng.choice(['CONT\r', 'RESUME\r', 'ERROR 5\r', 'NEXT\r']) + 'SYSTEM\r'})
        tags.append('interactive-leg')
    cfg = {}
    if deep or rng.random() < 0.15:
        cfg, _dev = build_cfg(rints(rng, 16, 100))
    return {'u': 'lines', 'cfg': cfg, 'files': {'IN.TXT': 'alpha,1\r\nbeta\r\n'}, 'steps': steps,
            'tags': sorted(set(tags))}


def strat_history():
    return seeded(gen_history)


def strat_history_deep():
    return seeded(lambda rng: gen_history(rng, deep=True))


# ---- machine ports and memory in every screen mode -----------------------------------------------

SPECIAL_PORTS = [0x60, 0x61, 0x62, 0x64, 0x201, 0x278, 0x279, 0x27a, 0x2f8, 0x2f9, 0x2fa, 0x2fb, 0x2fc, 0x2fd,
                 0x2fe, 0x2ff, 0x378, 0x379, 0x37a, 0x3b4, 0x3b5, 0x3b8, 0x3ba, 0x3bf, 0x3c0, 0x3c2, 0x3c4, 0x3c5,
                 0x3c7, 0x3c8, 0x3c9, 0x3ce, 0x3cf, 0x3d4, 0x3d5, 0x3d8, 0x3d9, 0x3da, 0x3de, 0x3df, 0x3f8, 0x3f9,
                 0x3fa, 0x3fb, 0x3fc, 0x3fd, 0x3fe, 0x3ff, 0x40, 0x42, 0x43, 0x20, 0x21, 0xc0, 0x3f2]
PORT_VALUES = [0, 1, 2, 3, 4, 7, 8, 15, 16, 0x1a, 0x1e, 0x20, 0x40, 0x80, 0xc0, 254, 255, 256, -1, 32767, 65535]
SEGMENTS = ['&HB800', '&HB000', '&HA000', '&HA800', '&HC000', '&HF000', '&HFFFF', '0', '&H40', '&H13AD', '&H9FFF',
            '&HB7FF', '&HBFFF', '&HEFFF', '']
OFFSETS = [0, 1, 2, 3, 79, 80, 159, 160, 3999, 4000, 4095, 4096, 8191, 8192, 16383, 16384, 32767, 32768, 65535,
           -1, -32768, 65536, 0x410, 0x417, 0x41a, 0x41c, 0x41e, 0x43e, 0x449, 0x44a, 0x44c, 0x44e, 0x450, 0x460,
           0x462, 0x463, 0x465, 0x466, 0x484, 0x485, 0x500, 0x50f, 0x510, 0xfa6e, 0xfa6f, 0xe00e, 0xe05e, 0xfffe,
           0x2c, 0x2e, 0x30, 0x358, 0x35c, 1124, 1125, 4717, 4073]
SCREENS = ['SCREEN 0', 'SCREEN 0:WIDTH 40', 'SCREEN 0:WIDTH 80', 'SCREEN 1', 'SCREEN 2', 'SCREEN 3', 'SCREEN 4',
           'SCREEN 5', 'SCREEN 6', 'SCREEN 7', 'SCREEN 8', 'SCREEN 9', 'SCREEN 10', 'SCREEN 0,1', 'SCREEN 1,1',
           'SCREEN 0,0,1,1', 'SCREEN 7,,1,0', 'SCREEN 9,,1,1', 'SCREEN 100', 'SCREEN 3,,2,2', 'WIDTH 40', 'WIDTH 80',
           'SCREEN 2:WIDTH 40', 'SCREEN 1:WIDTH 80', 'KEY OFF', 'KEY ON', 'CLS']


def gen_machine(rng, deep=False):
    """OUT/INP/WAIT, DEF SEG + PEEK/POKE, BLOAD/BSAVE on special and neighbouring addresses, in
    every adapter and every screen mode (text and graphics) the session can select."""
    cfg = {'video': rng.choice(VIDEOS), 'syntax': rng.choice(SYNTAXES)}
    if rng.random() < 0.2:
        cfg['monitor'] = rng.choice(['mono', 'composite', 'rgb'])
    if rng.random() < 0.15:
        cfg['allow_code_poke'] = True

    def port():
        r = rng.random()
        if r < 0.7:
            return rng.choice(SPECIAL_PORTS) + rng.choice([0, 0, 0, 1, -1])
        if r < 0.9:
            return rng.randrange(65536)
        return rng.choice([-1, 65536, -32768, -32769, 70000])

    def off():
        return rng.choice(OFFSETS) if rng.random() < 0.8 else rng.randrange(65536)
    steps = [{'m': 'x', 't': 'DIM G%(300)'}]
    for _ in range(rng.randint(6, 24 if deep else 12)):
        r = rng.randrange(14)
        if r == 0:
            t = rng.choice(SCREENS)
        elif r in (1, 2, 3):
            t = 'OUT %d,%d' % (port(), rng.choice(PORT_VALUES))
            if rng.random() < 0.4:
                t += ':OUT %d,%d' % (port(), rng.choice(PORT_VALUES))
        elif r == 4:
            t = 'A=INP(%d):PRINT A;' % port()
        elif r == 5:
            t = 'WAIT %d,%d,%d' % (port(), rng.choice(PORT_VALUES), rng.choice(PORT_VALUES))
        elif r == 6:
            t = 'DEF SEG' + ('=' + rng.choice(SEGMENTS[:-1]) if rng.random() < 0.85 else '')
        elif r in (7, 8):
            t = 'POKE %d,%d' % (off(), rng.choice(PORT_VALUES))
        elif r == 9:
            t = 'A=PEEK(%d):PRINT A;' % off()
        elif r == 10:
            t = 'BSAVE "M.BIN",%d,%d' % (off(), rng.choice([0, 1, 2, 80, 4000, 16384, 32768, 65535, 65536, -1]))
        elif r == 11:
            t = 'BLOAD "M.BIN"' + (',%d' % off() if rng.random() < 0.7 else '')
        elif r == 12:
            t = rng.choice(['PSET(3,3),1', 'PRINT "x";', 'LOCATE 1,1:PRINT CHR$(219);', 'COLOR 1,2', 'PCOPY 0,1',
                            'PALETTE 1,2', 'GET(0,0)-(7,7),G%', 'PUT(1,1),G%', 'LINE(0,0)-(20,20),1,BF', 'CLS',
                            'VIEW PRINT 2 TO 10', 'A=POINT(1,1)', 'A=SCREEN(1,1)', 'DEF SEG=&HB800:BSAVE "V.BIN",0,4000',
                            'DEF SEG=&HB800:BLOAD "V.BIN"', 'DEF SEG=&HA000:BLOAD "V.BIN",0', 'BLOAD "V.BIN",65000'])
        else:
            t = 'DEF SEG=%s:POKE %d,%d:A=PEEK(%d)' % (rng.choice(SEGMENTS[:-1]), off(), rng.choice(PORT_VALUES), off())
        steps.append({'m': 'x', 't': t})
    return {'u': 'lines', 'cfg': cfg, 'steps': steps, 'tags': ['machine']}


# ---- DRAW / PLAY macro strings with variable references -----------------------------------------

MACRO_SETUP = ['A=3:B!=2.5:C#=4:I%=2:S$="U3":N$="12":E$="":M$="C":H=1E30:NEG=-5:W$="L4"',
               'DIM R(5),R%(5),Q$(3),D#(2),T(2,2)', 'R(1)=2:R(2)=40000:R%(1)=3:R%(2)=-1:Q$(1)="L2":Q$(2)="X":D#(1)=1.5']
MACRO_REFS = ['A', 'B!', 'C#', 'I%', 'S$', 'N$', 'E$', 'W$', 'H', 'NEG', 'ZZ', 'ZZ$', 'R(1)', 'R(2)', 'R%(1)', 'R%(I%)', 'R(A)',
              'R(S$)', 'R(N$)', 'R(R(1))', 'R(R%(1))', 'Q$(1)', 'Q$(2)', 'Q$(I%)', 'Q$(S$)', 'D#(1)', 'T(1,1)', 'T(1)',
              'T(1,S$)', 'R(', 'R(1', 'R()', 'R(1))', 'R(99)', 'R(-1)', 'R(1.5)', 'R(1E30)', 'UNDEF(1)', 'UNDEF$(1)',
              'R(1,2)', 'R (1)', 'R(1 )', ' A', 'A ', 'R(Q$(1))', 'R(A(1))', 'R(R(R(R(1))))', '1', '', '=', ';', 'A%', 'A$',
              'R$(1)', 'R!(1)', 'FNA', 'FNA(1)', 'ERR', 'TIMER', 'A+1', '-A', 'R(I%+1)', 'R(&H1)']
VARPTR_ARGS = ['A', 'B!', 'C#', 'I%', 'S$', 'N$', 'E$', 'R(1)', 'R%(1)', 'Q$(1)', 'D#(1)', 'ZZ', 'ZZ$']
DRAW_CMDS = ['U', 'D', 'L', 'R', 'E', 'F', 'G', 'H', 'M', 'M+', 'BM', 'NU', 'A', 'TA', 'C', 'S', 'P', 'P1,', 'M1,', 'BM+1,']
PLAY_CMDS = ['C', 'A', 'G#', 'O', 'L', 'T', 'N', 'P', 'V', 'MB', 'MF', 'ML', '>', 'C2.']


def macro_string(rng, cmds):
    """-> BASIC string expression: quoted pieces and VARPTR$() calls joined by '+'."""
    parts = []
    lit = ''

    def flush():
        nonlocal lit
        if lit:
            parts.append('"%s"' % lit)
            lit = ''
    for _ in range(rng.randint(1, 4)):
        cmd = rng.choice(cmds)
        r = rng.randrange(10)
        if r < 4:
            lit += cmd + '=' + rng.choice(MACRO_REFS) + rng.choice([';', ';', ';', '', ',', ' ;'])
        elif r < 6:
            lit += 'X' + rng.choice(MACRO_REFS) + rng.choice([';', ';', ''])
        elif r < 8:
            lit += cmd + rng.choice(['=', 'X'] if r == 6 else ['='])
            flush()
            v = 'VARPTR$(%s)' % rng.choice(VARPTR_ARGS)
            parts.append(rng.choice([v, v, v, 'LEFT$(%s,2)' % v, 'LEFT$(%s,1)' % v, v + '+' + v,
                                     'CHR$(%d)+MID$(%s,2)' % (rng.choice([0, 1, 2, 3, 4, 5, 8, 9, 255]), v),
                                     'CHR$(2)+CHR$(255)+CHR$(255)', 'CHR$(3)+MKI$(0)', 'CHR$(3)+MKI$(-1)']))
            lit += rng.choice([';', ';', ''])
        else:
            lit += cmd + rng.choice(['1', '10', '', '-1', '99999', '1,1', '+1,-1', '=', '=;', '1E5', '&H10', '.', '255', '0'])
    flush()
    return '+'.join(parts) if parts else '""'


def gen_macro(rng, deep=False):
    cfg = {}
    if rng.random() < 0.3:
        cfg = {'video': rng.choice(VIDEOS), 'syntax': rng.choice(SYNTAXES)}
    steps = [{'m': 'x', 't': t} for t in MACRO_SETUP]
    steps.append({'m': 'x', 't': rng.choice(['SCREEN 1', 'SCREEN 1', 'SCREEN 2', 'SCREEN 0', 'SCREEN 9', 'SCREEN 7'])})
    if rng.random() < 0.3:
        steps.append({'m': 'x', 't': 'DEF FNA(X)=X:OPTION BASE 1'})
    for _ in range(rng.randint(3, 16 if deep else 8)):
        if rng.random() < 0.55:
            t = 'DRAW ' + macro_string(rng, DRAW_CMDS)
        else:
            t = 'PLAY "MB"+' + macro_string(rng, PLAY_CMDS)
            if rng.random() < 0.2:
                t += ',' + macro_string(rng, PLAY_CMDS)
        if rng.random() < 0.15:
            # W$ may be redefined, but never so that it executes itself: PLAY "XW$;" with W$="XW$;"
            # loops forever inside sound.play_ (a hang, not an escape)
            t = rng.choice(['W$=%s' % macro_string(rng, DRAW_CMDS).replace('W$', 'S$'), 'ERASE R', 'A=1E30',
                            'I%=-1', 'Q$(1)=VARPTR$(A)', 'CLEAR', 'N$=VARPTR$(N$)',
                            'FOR I=1 TO 30:X$=X$+"a":NEXT:PRINT FRE("")'])
        steps.append({'m': 'x', 't': t[:250]})
    return {'u': 'lines', 'cfg': cfg, 'steps': steps, 'tags': ['macro']}


# ---- program files around and above the memory limits -------------------------------------------

BIG_BODIES_T = ['\x8f x', '\x91 \x11', '\x91 "' + 'a' * 60 + '"', '\x8f' + 'r' * 240, 'A\xe7\x12', '\x89 \x0e\x0a\x00',
                '\x8d \x0e\xff\xff', '\x84 1,2,3', ':', '\xa7 \x8c \x89 \x0e\x10\x27', '\x1f\x00\x00\x00',
                '\xff\xff\xff', '\x82 I\xe7\x12 \xcc \x0f\x05:\x83']
BIG_BODIES_A = ['REM x', 'PRINT 1', 'PRINT "' + 'a' * 60 + '"', "'" + 'r' * 240, 'A=1', 'GOTO 10', 'GOSUB 65529', 'DATA 1,2,3',
                ':', 'ON ERROR GOTO 10000', 'FOR I=1 TO 5:NEXT', 'x' * 254, 'PRINT' + ' ' * 200 + '1']
BIG_SIZES = [1000, 7000, 8100, 30000, 55000, 59000, 60000, 60200, 60290, 60300, 60310, 60400, 61000, 64000, 65000, 65500,
             65530, 65535, 65536, 65537, 65600, 66000, 70000, 100000, 131072, 140000]
BIG_HOW = [['LOAD "P.BAS"'], ['RUN "P.BAS"'], ['MERGE "P.BAS"'], ['LOAD "P.BAS",R'], ['10 CHAIN "P.BAS"', 'RUN'],
           ['5 PRINT 5', 'CHAIN MERGE "P.BAS",5'], ['5 A=1:COMMON A', 'CHAIN "P.BAS",,ALL'], ['5 REM', 'MERGE "P.BAS"']]
BIG_AFTER = ['PRINT FRE(0)', 'LIST 10-12', 'LIST -11', 'RUN', 'SAVE "O.BAS"', 'SAVE "O.BAS",A', 'SAVE "O.BAS",P', 'NEW', 'DELETE 10-40',
             'DELETE 11-', '65000 REM last', '1 REM first', '10 ' + 'x' * 200, 'RENUM', 'EDIT 10', 'CLEAR ,9000', 'CONT', 'A$=STRING$(200,65)',
             'DIM Z(2000)', 'LOAD "O.BAS"', 'MERGE "P.BAS"', 'PRINT PEEK(&H30)+256*PEEK(&H31)', 'CLEAR ,,2000']


def gen_bigfile(rng, deep=False):
    fmt = rng.choice('TTPA')
    small = rng.random() < 0.35
    size = rng.choice([1000, 5000, 7000, 7900, 8000, 8100, 8200, 9000, 12000]) if small else rng.choice(BIG_SIZES)
    if fmt == 'A' and size > 70000:
        size = 70000
    bodies = BIG_BODIES_A if fmt == 'A' else BIG_BODIES_T
    if size > 20000:
        # thousands of short lines make LOAD/MERGE/RENUM quadratic: long lines for the big files
        bodies = [b for b in bodies if len(b) >= 40] if (fmt == 'A' or rng.random() < 0.7) else bodies
    spec = {'fmt': fmt, 'size': size + rng.choice([0, 0, 1, -1, 3, -7]),
            'body': rng.choice(bodies),
            'first': rng.choice([10, 10, 1, 0, 60000]), 'step': rng.choice([1, 1, 10, 9]),
            'wellformed': rng.random() < 0.8}
    if rng.random() < 0.2:
        spec['tail'] = ''.join(chr(rng.choice(SPECIAL_BYTES)) for _ in range(rng.randrange(8)))
    how = []
    cfg = {}
    if small:
        if rng.random() < 0.5:
            cfg['max_memory'] = 8192
        else:
            how.append('CLEAR ,%d' % rng.choice([8000, 8192, 9000, 6000, 5000]))
    if rng.random() < 0.2:
        cfg['syntax'] = rng.choice(SYNTAXES)
    how += rng.choice(BIG_HOW)
    for _ in range(rng.randint(1, 6 if deep else 3)):
        how.append(rng.choice(BIG_AFTER))
    return {'u': 'file', 'cfg': cfg, 'name': 'P.BAS', 'big': spec, 'how': how, 'tags': ['bigfile']}


def strat_machine():
    return seeded(gen_machine)


def strat_macro():
    return seeded(gen_macro)


def strat_bigfile():
    return seeded(gen_bigfile)


# ---- corpus --------------------------------------------------------------------------------

_CORPUS = {}


def corpus():
    """ASCII program lines of the recorded test scripts: [(relative name, [lines])]."""
    if 'files' not in _CORPUS:
        roots = [os.path.join(harness.REPO, 'tests', 'basic'), '/repo/tests/basic']
        files = []
        for root in roots:
            if os.path.isdir(root):
                for p in sorted(glob.glob(os.path.join(root, '**', '*.BAS'), recursive=True)):
                    try:
                        with open(p, 'rb') as f:
                            data = f.read(40000)
                    except EnvironmentError:
                        continue
                    if not data or data[0] in (0xff, 0xfe, 0xfd, 0xfc):
                        continue
                    lines = [ln for ln in data.replace(b'\x1a', b'').decode('latin-1').splitlines()
                             if ln.strip()]
                    if lines:
                        files.append((os.path.relpath(p, root), lines))
                break
        _CORPUS['files'] = files or [('builtin', ['10 PRINT "no corpus"', '20 GOTO 10'])]
    return _CORPUS['files']


def build_mutation(cfgsel, fsel, start, count, muts, sel, run):
    cfg, dev = build_cfg(cfgsel)
    files = corpus()
    name, lines = files[fsel % len(files)]
    s0 = start % len(lines)
    window = lines[s0:s0 + count]
    ent = c01gen.Entropy(sel)
    out = []
    for i, ln in enumerate(window):
        ops = [op for (li, op) in muts if li % len(window) == i]
        out.append(c01gen.mutate_line(ln, ops, ent) if ops else ln[:250])
    steps = [{'m': 'x', 't': t} for t in out]
    if run:
        steps.append({'m': 'x', 't': 'RUN', 'k': '1\r\r2,3\r'})
    return {'u': 'lines', 'cfg': cfg, 'steps': steps, 'src': name}


def gen_mutation(rng):
    muts = [(rng.randrange(8), rng.randrange(8)) for _ in range(rng.choice([0, 1, 1, 2, 3, 5]))]
    return build_mutation(rints(rng, 6, 100), rng.randrange(5000), rng.randrange(500), rng.randint(1, 8),
                          muts, rints(rng, 16), rng.random() < 0.5)


def strat_mutation():
    return seeded(gen_mutation)


# ---- soup ----------------------------------------------------------------------------------

def build_soup(cfgsel, chunks, numbered, run):
    cfg, dev = build_cfg(cfgsel)
    steps = []
    for j, chunk in enumerate(chunks):
        text = ''.join(c01gen.SOUP_WORDS[w % len(c01gen.SOUP_WORDS)] if w < 2000 else chr(w % 256)
                       for w in chunk)[:255]
        if numbered:
            text = ('%d ' % (10 * (j + 1)) + text)[:255]
        steps.append({'m': 'x', 't': text})
    if numbered and run:
        steps += [{'m': 'x', 't': 'LIST'}, {'m': 'x', 't': 'RUN'}, {'m': 'x', 't': 'RENUM'},
                  {'m': 'x', 't': 'SAVE "S",A'}, {'m': 'x', 't': 'LOAD "S"'}]
    return {'u': 'lines', 'cfg': cfg, 'steps': steps}


def gen_soup(rng):
    chunks = []
    for _ in range(rng.randint(1, 4)):
        chunks.append([rng.randrange(2000) if rng.random() < 0.75 else 2000 + rng.randrange(256)
                       for _ in range(rng.randint(1, 40))])
    return build_soup(rints(rng, 4, 100), chunks, rng.random() < 0.5, rng.random() < 0.5)


def strat_soup():
    return seeded(gen_soup)


# ---- files ---------------------------------------------------------------------------------

HOW = [
    ['LOAD "P.BAS"', 'LIST', 'RUN'], ['RUN "P.BAS"'], ['MERGE "P.BAS"', 'LIST'], ['LOAD "P.BAS",R'],
    ['10 CHAIN "P.BAS"', 'RUN'], ['CHAIN MERGE "P.BAS",10,ALL', 'LIST'], ['BLOAD "P.BAS"'],
    ['DEF SEG=&HB800:BLOAD "P.BAS",0'], ['LOAD "P.BAS"', 'SAVE "Q.BAS",A', 'SAVE "R.BAS",P', 'LOAD "R.BAS"'],
    ['LOAD "P.BAS"', 'RENUM', 'LIST', 'DELETE 10-', 'EDIT 10'], ['LOAD "P.BAS"', 'LLIST', 'CONT'],
    ['OPEN "P.BAS" FOR INPUT AS 1:LINE INPUT#1,A$:INPUT#1,B,C$:PRINT EOF(1);LOC(1);LOF(1):CLOSE'],
    ['OPEN "R",1,"P.BAS",128:FIELD 1,128 AS X$:GET 1:GET 1,2:PUT 1,1:CLOSE'],
]


def build_file(cfgsel, kind, first, raw, base, fmt, muts, how):
    cfg, dev = build_cfg(cfgsel)
    case = {'u': 'file', 'cfg': cfg, 'name': 'P.BAS', 'how': HOW[how % len(HOW)]}
    if kind == 0:
        data = bytes([[0xff, 0xfe, 0xfd, 0xfc][first % 4] if first < 8 else first]) + bytes(raw)
        case['data'] = data.decode('latin-1')
    else:
        case['data'] = None
        case['base'] = [('%d %s' % (10 * (i + 1), c01gen.statement(j, ent)))[:250]
                        for i, (j, ent) in enumerate(base)]
        case['fmt'] = 'TPAM'[fmt % 4]
        case['muts'] = [[['trunc', 'set', 'ins', 'del', 'dup'][op % 5], pos, val]
                        for op, pos, val in muts]
    return case


SPECIAL_BYTES = [0, 0, 0xff, 0x0d, 0x0a, 0x1a, 0x20, 0x22, 0x3a, 0x0b, 0x0c, 0x0e, 0x0f, 0x1c, 0x1d, 0x1f,
                 0xfd, 0xfe, 0x81, 0x8d, 0x89, 0x8f]


def gen_file(rng):
    raw = [rng.choice(SPECIAL_BYTES) if rng.random() < 0.4 else rng.randrange(256)
           for _ in range(rng.choice([0, 1, 2, 3, 5, 8, 13, 30, 80, 300]))]
    base = [(rng.randrange(len(c01gen.STATEMENTS)), rints(rng, 16)) for _ in range(rng.randint(1, 6))]
    muts = [(rng.randrange(5), rng.randrange(2000), rng.randrange(256))
            for _ in range(rng.choice([0, 1, 1, 2, 4]))]
    return build_file(rints(rng, 4, 100), rng.randrange(2), rng.randrange(256), raw, base,
                      rng.randrange(4), muts, rng.randrange(len(HOW)))


def strat_file():
    return seeded(gen_file)


# ---- defaults ------------------------------------------------------------------------------

def gen_defaults(shard, nshards, tier, seed):
    """Every statement template and every function once, with plain arguments, 40 per child."""
    import random
    rng = random.Random(20240 + seed if tier == 'thorough' else 20240)
    lines = []
    reps = 1 if tier == 'quick' else 3
    for rep in range(reps):
        for i in range(len(c01gen.STATEMENTS)):
            ent = [0] * 14 if rep == 0 else [rng.randrange(1000) for _ in range(14)]
            t = c01gen.statement(i, ent)
            if t.strip().upper().startswith(('SYSTEM', 'SHELL', 'AUTO', 'INPUT', 'LINE INPUT', 'RANDOMIZE',
                                             'EDIT', 'WAIT', 'TERM')) and 'INPUT#' not in t:
                continue
            lines.append(t)
        for f in c01gen.NUMFUNCS + c01gen.STRFUNCS:
            ent = c01gen.Entropy([0] * 8 if rep == 0 else [rng.randrange(1000) for _ in range(8)])
            lines.append('PRINT ' + c01gen.expand(f, ent, depth=2))
    chunks = [lines[i:i + 40] for i in range(0, len(lines), 40)]
    for j, chunk in enumerate(chunks):
        if j % nshards == shard:
            yield {'u': 'defaults', 'lines': ['10 PRINT 1', '20 GOTO 40', '40 END'] + chunk,
                   'api': ['PEEK(0)', '1+1', 'FRE(0)', 'INKEY$'], 'interact': True,
                   'stdin': ['10 PRINT "typed"'] + chunk[:12] + ['RUN', 'SYSTEM']}


def gen_specs(shard, nshards, tier, seed):
    """
    Directed enumeration: every statement that takes a name<sep>value / device / path / macro
    string x every boundary shape of such a string (c01gen.spec_pool), 8 statements per session.
    """
    sts = c01gen.spec_statements()
    batches = [sts[i:i + 8] for i in range(0, len(sts), 8)]
    for j, batch in enumerate(batches):
        if j % nshards == shard:
            yield {'u': 'lines', 'cfg': {}, 'files': {'F.TXT': 'x\r\n'},
                   'steps': [{'m': 'x', 't': t} for t in batch]}
            # high bytes mean something else under a double-byte codepage
            if tier == 'thorough' or j % 4 == 0:
                yield {'u': 'lines', 'cfg': {'codepage': ['932', '874', '936', '949'][j // 4 % 4]},
                       'files': {'F.TXT': 'x\r\n'}, 'steps': [{'m': 'x', 't': t} for t in batch]}


def units(tier):
    # few, larger shards in the quick tier: every shard is a fresh worker process and process
    # start-up/tear-down costs more CPU here than a few hundred cases
    q = tier == 'quick'
    return [
        Unit('grammar', 'hyp', shards=4 if q else 16, examples={'quick': 520, 'thorough': 6000},
             strategy=strat_grammar, per_case_timeout=12.0),
        Unit('machine', 'hyp', shards=2 if q else 16, examples={'quick': 200, 'thorough': 1500},
             strategy=strat_machine if q else (lambda: seeded(lambda r: gen_machine(r, True))),
             per_case_timeout=12.0),
        Unit('macro', 'hyp', shards=2 if q else 16, examples={'quick': 200, 'thorough': 1500},
             strategy=strat_macro if q else (lambda: seeded(lambda r: gen_macro(r, True))),
             per_case_timeout=12.0),
        Unit('bigfile', 'hyp', shards=2 if q else 16, examples={'quick': 30, 'thorough': 250},
             strategy=strat_bigfile if q else (lambda: seeded(lambda r: gen_bigfile(r, True))),
             per_case_timeout=30.0),
        Unit('history', 'hyp', shards=4 if q else 16, examples={'quick': 150, 'thorough': 1500},
             strategy=strat_history if q else strat_history_deep, per_case_timeout=12.0),
        Unit('expr', 'hyp', shards=2 if q else 16, examples={'quick': 320, 'thorough': 2000},
             strategy=strat_expr, per_case_timeout=12.0),
        Unit('mutation', 'hyp', shards=2 if q else 16, examples={'quick': 300, 'thorough': 2500},
             strategy=strat_mutation, per_case_timeout=12.0),
        Unit('soup', 'hyp', shards=2 if q else 16, examples={'quick': 200, 'thorough': 2000},
             strategy=strat_soup, per_case_timeout=12.0),
        Unit('files', 'hyp', shards=2 if q else 16, examples={'quick': 300, 'thorough': 1700},
             strategy=strat_file, per_case_timeout=12.0),
        Unit('specs', 'enum', shards=2 if q else 8, gen=gen_specs, exhaustive=True,
             per_case_timeout=20.0),
        Unit('defaults', 'enum', shards=2 if q else 8, gen=gen_defaults, per_case_timeout=120.0),
    ]


def _x(*texts, **kw):
    case = {'u': 'lines', 'cfg': kw.get('cfg', {}), 'steps': [{'m': 'x', 't': t} for t in texts]}
    return case


def _f(data, *how):
    return {'u': 'file', 'cfg': {}, 'name': 'P.BAS', 'data': data, 'how': list(how)}


REGRESSIONS = [
    # fixed 8babcf7d: ValueError in clock.time_
    _x('TIME$="-1:00:00"'),
    # fixed aff66908: TypeError in machine._get_memory on a default Session()
    {'u': 'defaults', 'lines': ['PRINT PEEK(0)'], 'api': ['PEEK(0)']},
    # fixed 44c4f3b6: ValueError embedded null byte
    _x('ENVIRON "a=b"+CHR$(0)'),
    # fixed 3076c9fb: KeyError in interpreter.renum_
    _x('10 ON ERROR GOTO 20', '20 ON KEY(1) GOSUB 20', '30 PRINT', 'RUN', 'RENUM 1000,30'),
    # fixed 23d8c7a7: KeyError 'Dereferencing detached string' at the next collection
    _x('PRINT RIGHT$("abc",0);LEFT$("abc",0);MID$("abc",9);INSTR("","a")',
       'FOR I=1 TO 400:A$=STRING$(200,65)+"":NEXT:PRINT FRE("")'),
    # fixed 916ec638: AttributeError in values.imp_
    _x('PRINT 1 IMP "a"'),
    # ---- findings of this check (findings_proposed/C01.json) ----
    # escaped.AttributeError@parports.py:do_print / :write  (LPT2:/LPT3: not attached)
    _x('RUN "LPT2:"'),
    _x('OPEN "LPT3:" FOR OUTPUT AS 1', 'CLOSE'),
    _x('OPEN "LPT2:" FOR OUTPUT AS 1', 'PRINT#1,"x"'),
    # escaped.AttributeError@program.py:merge  (CHAIN MERGE of a tokenised file)
    _x('10 PRINT 1', 'SAVE "P.BAS"', 'CHAIN MERGE "P.BAS"'),
    # escaped.IndexError@memory.py:_get_field_memory / escaped.ValueError@memory.py:_set_field_memory
    _x('PRINT PEEK(4073)'),
    _x('POKE 4073,1'),
    # escaped.KeyError@values.py:from_bytes  (LIST of a program whose last number token is cut short)
    _f('\xff\x0b\x12\x0a\x00\x1f\x01\x02\x03', 'LOAD "P.BAS"', 'LIST'),
    # escaped.UnboundLocalError@protect.py:unprotect  (protected file with an empty payload)
    _f('\xfe', 'LOAD "P.BAS"'),
    # escaped.ValueError@memory.py:_get_field_offset  (CHAIN ...,ALL with a string DEF FN defined)
    _x('10 DEF FNS$(X$)="ab"', '20 CHAIN "Q",,ALL', 'RUN'),
    # escaped.AttributeError@machine.py:bload_  (BLOAD from a character device)
    _x('BLOAD "KYBD:"'),
    # escaped.AttributeError@files.py:put_  (PUT/GET on a device file opened FOR RANDOM)
    _x('OPEN "SCRN:" FOR RANDOM AS 1', 'PUT 1'),
    # escaped.TypeError@lister.py:_detokenise_number  (single-precision token with 3 bytes left)
    _f('\xff\x0b\x12\x0a\x00"\x81\xff :\x1d\x00\xff\x00', 'LOAD "P.BAS"', 'LIST'),
    # escaped.AttributeError@files.py:width_  (WIDTH on an unattached printer port)
    _x('WIDTH "LPT2:",10'),
    # close.escaped.AttributeError@parports.py:do_print  (Session.close() with such a file open)
    _x('OPEN "LPT2:" FOR OUTPUT AS 1'),
    # ---- second batch ----
    # escaped.UnboundLocalError@files.py:_get_device_param  (DOS alias CON in RANDOM/APPEND mode)
    _x('OPEN "CON" AS 3'),
    # escaped.AttributeError@implementation.py:_input_file  (INPUT# on SCRN: opened FOR RANDOM)
    _x('OPEN "SCRN:" FOR RANDOM AS #2', 'INPUT#2,A'),
    # escaped.error@display.py:palette_using_  (negative start subscript)
    _x('DIM R%(20)', 'PALETTE USING R%(-1)'),
    # escaped.KeyError@program.py:edit  (pending EDIT prompt for a line that was deleted)
    {'u': 'lines', 'cfg': {}, 'steps': [{'m': 'x', 't': '10 PRINT 1'}, {'m': 'x', 't': 'EDIT 10'},
                                        {'m': 'x', 't': 'NEW'}, {'m': 'i', 't': '', 'k': 'SYSTEM\r'}]},
    # ---- third batch (thorough tier; replays/C01/thorough_*.json) ----
    # escaped.AttributeError@implementation.py:line_input_
    _x('OPEN "SCRN:" FOR RANDOM AS #2', 'LINE INPUT#2,T$'),
    # escaped.ValueError@numbers.py:from_token  (number token cut short, at run time)
    _f('\xff\x0b\x12\x0a\x00\x91\x1f\x01\x02\x03', 'RUN "P.BAS"'),
    # escaped.ValueError@program.py:edit  (pending EDIT prompt, line replaced by a shorter one)
    {'u': 'lines', 'cfg': {}, 'steps': [{'m': 'x', 't': '30 PRINT:PRINT:PRINT:PRINT !'},
                                        {'m': 'x', 't': 'RUN'}, {'m': 'x', 't': '30 A'},
                                        {'m': 'i', 't': '', 'k': 'SYSTEM\r'}]},
    # escaped.error@numbers.py:from_int  (unsigned conversion below -65536)
    _x('PRINT TAB(-65537)1'),
    # escaped.error@program.py:renum  (line-number token as last byte of the program)
    _f('\xffIS\x0e', 'LOAD "P.BAS"', 'RENUM'),
    # escaped.error@strings.py:collect_garbage / :from_pointer  (CLEAR with too small a memory size)
    _x('A$="x"+"y"', 'CLEAR ,1,16777216', 'PRINT FRE("")'),
    _x('10 DEF FNS$(X$)="a"', '20 CLEAR 0,256,', 'RUN', 'CHAIN MERGE "Q.BAS",20,ALL'),
    # harness artefact, kept as a case: the default session's working directory removed by BASIC
    {'u': 'defaults', 'lines': ['RMDIR "Z:"', 'SYSTEM', 'PRINT 1'], 'api': ['1']},
    # ---- fourth batch ----
    # escaped.ValueError@python3.py:setenvu  (value byte that the codepage maps to U+0000)
    _x('ENVIRON "A="+CHR$(255)', cfg={'codepage': '932'}),
    # seeded change caught by C44, now also here: empty variable name reaching os.environ['']
    _x('ENVIRON "=b"', 'ENVIRON "="', 'N$="":ENVIRON N$+"=x"'),
    # ---- found outside this check, fixed 0108e7d1 / b37e0de9 / ded692ca ----
    # AttributeError in machine.out_: EGA plane registers written in text mode
    _x('OUT &H3C5,1', 'OUT &H3CF,1', cfg={'video': 'ega'}),
    _x('OUT &H3C5,1', 'OUT &H3CF,1'),
    # AttributeError in mlparser._parse_indices: string variable as array index in a macro string
    _x('DIM A(3):B$="1"', 'SCREEN 1', 'DRAW "U=A(B$);"', 'PLAY "L=A(B$);"'),
    # struct.error in program.rebuild_line_dict: tokenised file larger than 64K
    {'u': 'file', 'cfg': {}, 'name': 'P.BAS', 'how': ['LOAD "P.BAS"', 'PRINT FRE(0)'],
     'big': {'fmt': 'T', 'size': 70000, 'body': '\x8f x', 'first': 10, 'step': 1, 'wellformed': True}},
    # ---- fifth batch (machine / macro generators) ----
    # escaped.AttributeError@machine.py:inp / :out_  (LPT status/control port on a plain stream)
    _x('A=INP(&H379)', 'WAIT 889,4,15'),
    _x('OUT &H37A,0'),
    # escaped.KeyError@values.py:from_bytes  (macro-string pointer just beyond the last array)
    _x('PLAY "MB"+"T="+LEFT$(VARPTR$(D#(1)),2)+";C2.=R(1));"'),
    # escaped.TypeError@machine.py:_get_memory  (PEEK(1126) in a graphics mode)
    _x('DEF SEG=0', 'SCREEN 2', 'A=PEEK(1126)'),
    # escaped.error@program.py:update_line_dict  (lines inserted in front of a nearly full program)
    {'u': 'file', 'cfg': {}, 'name': 'P.BAS', 'how': ['LOAD "P.BAS"', 'PRINT FRE(0)'],
     'big': {'fmt': 'A', 'size': 70001, 'body': 'PRINT "' + 'a' * 60 + '"', 'first': 60000, 'step': 9}},
    # escaped.RecursionError@graphics.py:_draw  (DRAW substring that executes itself)
    _x('SCREEN 1', 'ZS$="XZS$;":DRAW ZS$'),
]

KILLS = [
    "values.float_safe no longer catches ArithmeticError -> escaped.OverflowError@numbers.py:"
    "_check_limits, escaped.ZeroDivisionError@numbers.py:idiv / :imod / :idiv_int (PRINT 0/0)",
    "interpreter.restore_ without its KeyError guard -> escaped.KeyError@interpreter.py:restore_",
    "sound.play_ without the KeyError guard on the note table -> escaped.KeyError@sound.py:play_",
    "values.chr_ without error.range_check(0, 255) -> escaped.error@values.py:chr_ (expr unit)",
    "clock.date_ without the ValueError guard around datetime() -> escaped.ValueError@clock.py:date_",
    "seeded: Interpreter._handle_break guard '0 <= line <= 65535' weakened to 'line < 65536' -> "
    "escaped.KeyError@interpreter.py:_handle_break (history unit: trap armed by a finished "
    "program, direct-mode error, STOP or Ctrl-Break in the handler)",
    "seeded: ENVIRON accepts an empty variable name -> escaped.OSError@python3.py:setenvu (specs "
    "and grammar units)",
    "revert of 0108e7d1 (EGA plane registers in text mode) -> escaped.AttributeError@machine.py:out_ "
    "(machine unit: 'OUT 965,254' in a text mode)",
    "revert of b37e0de9 (string variable as array index in a macro string) -> "
    "escaped.AttributeError@mlparser.py:_parse_indices (macro unit: PLAY \"O=R(Q$(1));\")",
    "revert of ded692ca (tokenised file larger than memory) -> escaped.error@program.py:"
    "rebuild_line_dict (bigfile unit: RUN of a 70003-byte tokenised file)",
    "the tree before the integrator's fixes (commit 644b472a) -> escaped.ValueError@python3.py:"
    "setenvu, escaped.KeyError@strings.py:_retrieve, escaped.AttributeError@parports.py:do_print",
]
