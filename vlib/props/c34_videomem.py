"""
C34 - video memory reflects and controls the screen content.

Three oracle layers, per (adapter, SCREEN mode):
 1. encoding reference (class Layout below, written from the adapter documentation, shares nothing
    with pcbasic's memory mappers): PEEK(a) == encode(cells/pixels covered by a); POKE a,v sets
    exactly the covered cells/pixels to decode(v), leaves every other cell of every page alone, and
    PEEK(a) == v afterwards (EGA/VGA planar modes: per colour plane selected through the documented
    OUT &H3C4,2:OUT &H3C5,2^p / OUT &H3CE,4:OUT &H3CF,p sequences);
 2. model-free (used alone where no documented reference is asserted - Hercules graphics): PEEK
    after POKE returns the byte, the footprints (changed cells) of distinct addresses are disjoint;
 3. block vs. byte: the data of a BSAVE file == PEEK over the same range; BLOAD of a block leaves all
    pages and later PEEKs exactly as byte-wise POKE of the same bytes does in a twin session.
Page contents are prepared with ordinary BASIC statements (PRINT with COLOR; PSET pattern + GET/PUT)
and read back from the page buffers (Session internals: display.pages[n]), never through the memory
mappers under test.
"""
import os
import random
import struct
import logging

from vlib.core import Result, Unit
from vlib import harness

ID = 'C34'
LEVEL = 'exploration'
TECHNIQUE = ("seeded enumeration over every (adapter, mode): independent encoding reference for "
             "PEEK/POKE, model-free POKE footprints, BSAVE-vs-PEEK and BLOAD-vs-POKE differentials "
             "on boundary-biased address ranges")
RULE = ("For each of 36 (adapter, SCREEN mode, width) combinations of cga/ega/vga/mda/hercules/"
        "olivetti/pcjr/tandy: pages 0, 1 and the last page are filled with pseudo-random text+"
        "attributes or pixels; accesses are PEEK, POKE (all-planes for EGA), BSAVE blocks (<= 2 kB) "
        "and BLOAD blocks (<= 600 B) at addresses drawn uniformly over all pages or placed around "
        "row ends, interlace-bank ends, the gap behind a bank and page ends. Non-trivial: the access "
        "touches >= 2 banks or >= 2 pages or starts mid-row; distinct = distinct (mode, kind, address, "
        "length, value).")
ASSUMPTIONS = [
    "only pages inside the adapter's address window are addressed (B800-BFFF and B000-B7FF: 32 kB, "
    "A000-AFFF: 64 kB); PC-BASIC keeps further pages (e.g. 8 pages of 16 kB) that no PEEK/POKE "
    "address can reach because C000 and above is font/ROM space",
    "gap bytes (behind the last scan line of a bank / behind row 25 of a text page) are not "
    "asserted: PEEK, POKE and block transfers there are only labelled",
    "Hercules graphics (SCREEN 3): PC-BASIC puts page 0 at B800:0000 while the card documents "
    "B000:0000; no encoding reference is asserted there (layers 2 and 3 only)",
    "Tandy/PCjr SCREEN 6 reference: 4 banks, 160 bytes per row, byte pairs holding 8 pixels with "
    "attribute bit 0 in the even and bit 1 in the odd byte (Tandy 1000 technical reference)",
    "EGA/VGA planar modes: the read plane and the write mask are selected with the documented OUT "
    "sequences before every access; SCREEN 9 uses 4 planes (>= 128 kB EGA)",
    "in graphics modes only pixels are compared (text cells under poked pixels are cleared by design); "
    "in text modes characters and attributes are compared",
    "page buffers are read through Session internals (display.pages[n]) as listed under observe_at",
]

logging.disable(logging.WARNING)


# ---------------------------------------------------------------------------------------------
# independent encoding reference

class Layout(object):
    """Where a byte of video memory lands on the screen, from the adapter documentation."""

    def __init__(self, kind, seg, page_size, **kw):
        self.kind = kind            # text | packed | tandy6 | planar
        self.seg = seg
        self.page_size = page_size
        self.noref = kw.pop('noref', False)
        self.__dict__.update(kw)
        if kind == 'text':
            self.banks, self.bank_size = 1, page_size
        elif kind == 'planar':
            self.banks, self.bank_size = 1, page_size
            self.bpr = self.width // 8
        else:
            self.bank_size = 0x2000
        # size of the address window of the adapter: B800-BFFF and B000-B7FF are 32 kB, A000-AFFF 64 kB
        self.window = 0x10000 if seg == 0xa000 else 0x8000

    def locate(self, off):
        """Offset from the segment base -> None (no content) or a cell descriptor tuple."""
        if off < 0:
            return None
        page, rem = divmod(off, self.page_size)
        if self.kind == 'text':
            cell, part = divmod(rem, 2)
            row, col = divmod(cell, self.columns)
            if row >= 25:
                return None
            return (page, row, col, part)
        if self.kind == 'planar':
            y, c = divmod(rem, self.bpr)
            if y >= self.height:
                return None
            return (page, y, c * 8, 8)
        bank, inbank = divmod(rem, self.bank_size)
        r, c = divmod(inbank, self.bpr)
        y = r * self.banks + bank
        if y >= self.height:
            return None
        if self.kind == 'tandy6':
            return (page, y, (c // 2) * 8, 8, c % 2)
        ppb = 8 // self.bpp
        return (page, y, c * ppb, ppb)

    def data_end(self):
        """Bytes of a bank (or page) that back content."""
        if self.kind == 'text':
            return 25 * self.columns * 2
        if self.kind == 'planar':
            return self.height * self.bpr
        return -(-self.height // self.banks) * self.bpr


def _L(*a, **k):
    return Layout(*a, **k)


def layout_for(video, mode, width):
    mono = video in ('mda', 'hercules')
    if mode == 0:
        return _L('text', 0xb000 if mono else 0xb800, 0x1000 if width == 80 else 0x800,
                  columns=width)
    if video in ('tandy', 'pcjr'):
        table = {
            1: _L('packed', 0xb800, 0x4000, bpp=2, banks=2, bpr=80, width=320, height=200),
            2: _L('packed', 0xb800, 0x4000, bpp=1, banks=2, bpr=80, width=640, height=200),
            3: _L('packed', 0xb800, 0x4000, bpp=4, banks=2, bpr=80, width=160, height=200),
            4: _L('packed', 0xb800, 0x4000, bpp=2, banks=2, bpr=80, width=320, height=200),
            5: _L('packed', 0xb800, 0x8000, bpp=4, banks=4, bpr=160, width=320, height=200),
            6: _L('tandy6', 0xb800, 0x8000, bpp=2, banks=4, bpr=160, width=640, height=200),
        }
        return table[mode]
    if mode == 1:
        return _L('packed', 0xb800, 0x4000, bpp=2, banks=2, bpr=80, width=320, height=200)
    if mode == 2:
        return _L('packed', 0xb800, 0x4000, bpp=1, banks=2, bpr=80, width=640, height=200)
    if video == 'olivetti' and mode == 3:
        return _L('packed', 0xb800, 0x8000, bpp=1, banks=4, bpr=80, width=640, height=400)
    if video == 'hercules' and mode == 3:
        return _L('packed', 0xb800, 0x8000, bpp=1, banks=4, bpr=90, width=720, height=348,
                  noref=True)
    if mode == 7:
        return _L('planar', 0xa000, 0x2000, width=320, height=200, planes=4)
    if mode == 8:
        return _L('planar', 0xa000, 0x4000, width=640, height=200, planes=4)
    if mode == 9:
        return _L('planar', 0xa000, 0x8000, width=640, height=350, planes=4)
    raise ValueError((video, mode))


COMBOS = [
    ('cga', 0, 80), ('cga', 0, 40), ('cga', 1, 40), ('cga', 2, 80),
    ('ega', 0, 80), ('ega', 0, 40), ('ega', 1, 40), ('ega', 2, 80), ('ega', 7, 40), ('ega', 8, 80),
    ('ega', 9, 80),
    ('vga', 0, 80), ('vga', 1, 40), ('vga', 7, 40), ('vga', 8, 80), ('vga', 9, 80),
    ('mda', 0, 80), ('mda', 0, 40), ('hercules', 0, 80), ('hercules', 3, 80),
    ('olivetti', 0, 80), ('olivetti', 1, 40), ('olivetti', 2, 80), ('olivetti', 3, 80),
    ('tandy', 0, 80), ('tandy', 0, 40), ('tandy', 1, 40), ('tandy', 2, 80), ('tandy', 3, 20),
    ('tandy', 4, 40), ('tandy', 5, 40), ('tandy', 6, 80),
    ('pcjr', 0, 80), ('pcjr', 3, 20), ('pcjr', 5, 40), ('pcjr', 6, 80),
]
SYNTAX = {'tandy': 'tandy', 'pcjr': 'pcjr'}


# ---------------------------------------------------------------------------------------------
# session with prepared pages

class Screen(object):

    def __init__(self, case, res):
        self.case, self.res = case, res
        self.video, self.mode, self.width = case['video'], case['mode'], case['w']
        self.lay = layout_for(self.video, self.mode, self.width)
        self.sess = harness.Sess(video=self.video, syntax=SYNTAX.get(self.video, 'advanced'),
                                 budget=400000)
        self.dead = False
        self.plane = None
        self.tandy_file = SYNTAX.get(self.video) == 'tandy'
        self.setup()

    def close(self):
        self.sess.close()

    def run(self, text):
        o = self.sess.execute(text)
        if o.kind == 'budget':
            self.res.inconclusive = True
            self.dead = True
        elif o.kind != 'ok':
            self.res.fail('escaped.%s@%s' % (o.exc, o.frame), '%r: %r\n%s' % (text, o, o.tb))
            self.dead = True
        elif o.errors:
            self.res.fail('unexpected-error', '%s mode %d: %r -> %r' % (self.video, self.mode,
                                                                          text, o))
            self.dead = True
        return o

    def setup(self):
        rng = random.Random(self.case['seed'])
        s = self.sess
        if self.mode == 0:
            self.run(b'KEY OFF:SCREEN 0:WIDTH %d' % self.width)
        else:
            self.run(b'KEY OFF:SCREEN %d' % self.mode)
        if self.dead:
            return
        self.run(b'DIM S%(400),P%(2100)')
        disp = s.impl.display
        self.npages = disp.mode.num_pages
        if (len(s.s.get_chars()[0]) != self.width and self.mode == 0):
            self.res.fail('setup.width', 'WIDTH %d gave %d columns' % (
                self.width, len(s.s.get_chars()[0])))
            self.dead = True
            return
        # only pages that lie inside the adapter's address window can be reached with PEEK/POKE
        self.npages = max(1, min(self.npages, self.lay.window // self.lay.page_size))
        self.used_pages = sorted({0, min(1, self.npages - 1), self.npages - 1})
        lay = self.lay
        for p in self.used_pages:
            if self.mode == 0:
                self.run(b'SCREEN 0,,%d,0' % p)
                for _ in range(7):
                    n = rng.randint(10, 200)
                    row = rng.randint(1, 24)
                    col = rng.randint(1, self.width)
                    n = min(n, (24 - row) * self.width + (self.width - col))
                    text = bytes(bytearray(rng.choice(
                        [rng.randint(33, 126), rng.randint(128, 254), 32]) for _ in range(n)))
                    s.set('A$', text)
                    self.run(b'COLOR %d,%d:LOCATE %d,%d:PRINT A$;' % (
                        rng.randint(0, 31), rng.randint(0, 7), row, col))
                s.set('A$', bytes(bytearray(rng.randint(48, 90) for _ in range(self.width - 1))))
                self.run(b'COLOR %d,%d:LOCATE 25,1:PRINT A$;' % (
                    rng.randint(1, 15), rng.randint(0, 7)))
            else:
                self.run(b'SCREEN %d,,%d,0' % (self.mode, p))
                ncol = 1 << lay.bpp if lay.kind != 'planar' else 16
                a, b, c = rng.randint(1, 7), rng.randint(1, 50), rng.randint(0, 50)
                self.run(b'FOR Y%%=0 TO 7:FOR X%%=0 TO 47:PSET(X%%,Y%%),(X%%*X%%*%d+Y%%*%d+X%%*Y%%+%d'
                         b') MOD %d:NEXT:NEXT' % (a, b, c, ncol))
                self.run(b'GET (0,0)-(47,7),S%')
                w, h = lay.width, lay.height
                xm = w - 96
                spots = [(0, 0), (xm, 0), (0, h - 8), (xm, h - 8), (xm // 2, h // 2)]
                spots += [(rng.randint(0, xm), rng.randint(0, h - 8)) for _ in range(8)]
                for i, (x, y) in enumerate(spots):
                    self.run(b'PUT (%d,%d),S%%,%s' % (x, y, b'PSET' if i < 9 else b'XOR'))
                for _ in range(3):
                    self.run(b'LINE (%d,%d)-(%d,%d),%d' % (
                        rng.randint(0, w - 1), rng.randint(0, h - 1), rng.randint(0, w - 1),
                        rng.randint(0, h - 1), rng.randint(1, ncol - 1)))
            if self.dead:
                return
        if self.mode == 0:
            self.run(b'SCREEN 0,,0,0:COLOR 7,0')
        else:
            self.run(b'SCREEN %d,,0,0' % self.mode)

    # -- ground truth, read from the page buffers
    def snapshot(self):
        pages = self.sess.impl.display.pages
        out = []
        for pg in pages:
            if self.mode == 0:
                chars = b''.join(b''.join(row) for row in pg.get_chars())
                attrs = bytes(bytearray(
                    pg.get_attr(r, c) & 0xff for r in range(1, 26)
                    for c in range(1, self.width + 1)))
                out.append((chars, attrs))
            else:
                out.append((pg.pixels[:, :].to_bytes(),))
        return out

    def select_plane(self, plane):
        if self.lay.kind != 'planar' or plane == self.plane:
            return
        self.run(b'OUT &H3C4,2:OUT &H3C5,%d:OUT &H3CE,4:OUT &H3CF,%d' % (1 << plane, plane))
        self.plane = plane

    def segoff(self, off):
        """Linear offset from the mode's base -> (segment, offset) with offset < 60000."""
        lay = self.lay
        para = (off // lay.page_size) * (lay.page_size // 16)
        return lay.seg + para, off - para * 16

    def peek(self, off):
        seg, o = self.segoff(off)
        if seg != getattr(self, '_seg', None):
            self.run(b'DEF SEG=&H%X' % seg)
            self._seg = seg
        r = self.sess.evaluate(b'PEEK(%d)' % o)
        if r.kind != 'ok' or r.errors:
            self.res.fail('peek.error', 'PEEK at %X:%X -> %r' % (seg, o, r))
            self.dead = True
            return 0
        return int(r.value)

    def peek_range(self, off, n):
        seg, o = self.segoff(off)
        self.run(b'DEF SEG=&H%X:FOR I%%=0 TO %d:P%%(I%%)=PEEK(%d!+I%%):NEXT' % (seg, n - 1, o))
        self._seg = seg
        return list(self.sess.get('P%()'))[:n]

    def poke(self, off, v):
        seg, o = self.segoff(off)
        self.run(b'DEF SEG=&H%X:POKE %d,%d' % (seg, o, v))
        self._seg = seg

    def poke_range(self, off, data):
        seg, o = self.segoff(off)
        n = len(data)
        self.sess.set('P%()', list(data))
        self.run(b'DEF SEG=&H%X:FOR I%%=0 TO %d:POKE %d!+I%%,P%%(I%%):NEXT' % (seg, n - 1, o))
        self._seg = seg

    def bsave(self, off, n):
        seg, o = self.segoff(off)
        self.run(b'DEF SEG=&H%X:BSAVE "B.BIN",%d,%d' % (seg, o, n))
        self._seg = seg
        if self.dead:
            return None
        path = os.path.join(self.sess.sandbox.z, 'B.BIN')
        try:
            with open(path, 'rb') as f:
                raw = f.read()
        except OSError:
            self.res.fail('bsave.no-file', 'BSAVE at %X:%X len %d wrote no file' % (seg, o, n))
            return None
        if len(raw) < 7 + n or raw[0] != 0xfd:
            self.res.fail('bsave.format', 'BSAVE file of %d bytes for a block of %d (header %r)' % (
                len(raw), n, raw[:7]))
            return None
        hseg, hoff, hlen = struct.unpack('<HHH', raw[1:7])
        if (hseg, hoff, hlen) != (seg, o, n):
            self.res.fail('bsave.header', 'BSAVE header %r for %X:%X len %d' % (
                (hseg, hoff, hlen), seg, o, n))
        return raw[7:7 + n]

    def bload(self, off, data):
        seg, o = self.segoff(off)
        raw = b'\xfd' + struct.pack('<HHH', seg, o, len(data)) + bytes(bytearray(data)) + b'\x1a'
        if self.tandy_file:
            # Tandy GW-BASIC repeats the header behind the data
            raw = raw[:-1] + b'\xfd' + struct.pack('<HHH', seg, o, len(data)) + b'\x1a'
        with open(os.path.join(self.sess.sandbox.z, 'L.BIN'), 'wb') as f:
            f.write(raw)
        self.run(b'DEF SEG=&H%X:BLOAD "L.BIN",%d' % (seg, o))
        self._seg = seg


# ---------------------------------------------------------------------------------------------
# reference encode / decode against a snapshot

def ref_peek(scr, snap, off, plane):
    lay = scr.lay
    loc = lay.locate(off)
    if loc is None or loc[0] >= scr.npages:
        return None
    page = loc[0]
    if lay.kind == 'text':
        _, row, col, part = loc
        return snap[page][part][row * scr.width + col]
    pix = snap[page][0]
    _, y, x, n = loc[:4]
    cells = pix[y * lay.width + x:y * lay.width + x + n]
    if lay.kind == 'packed':
        v = 0
        for p in cells:
            v = (v << lay.bpp) | (p & ((1 << lay.bpp) - 1))
        return v
    bit = loc[4] if lay.kind == 'tandy6' else plane
    v = 0
    for p in cells:
        v = (v << 1) | ((p >> bit) & 1)
    return v


def ref_poke(scr, snap, off, v, plane):
    """Expected snapshot after POKE off, v (None if the byte backs no content)."""
    lay = scr.lay
    loc = lay.locate(off)
    if loc is None or loc[0] >= scr.npages:
        return None
    page = loc[0]
    new = [tuple(bytearray(x) for x in pg) for pg in snap]
    if lay.kind == 'text':
        _, row, col, part = loc
        new[page][part][row * scr.width + col] = v
    else:
        pix = new[page][0]
        _, y, x, n = loc[:4]
        base = y * lay.width + x
        for i in range(n):
            if lay.kind == 'packed':
                pix[base + i] = (v >> (8 - lay.bpp * (i + 1))) & ((1 << lay.bpp) - 1)
            else:
                bit = loc[4] if lay.kind == 'tandy6' else plane
                b = (v >> (7 - i)) & 1
                pix[base + i] = (pix[base + i] & ~(1 << bit) & 0xff) | (b << bit)
    return [tuple(bytes(x) for x in pg) for pg in new]


def snap_diff(a, b, lay, width):
    """First difference between two snapshots -> text or None."""
    for p, (pa, pb) in enumerate(zip(a, b)):
        for part, (xa, xb) in enumerate(zip(pa, pb)):
            if xa != xb:
                for i in range(min(len(xa), len(xb))):
                    if xa[i] != xb[i]:
                        w = width if lay.kind == 'text' else lay.width
                        what = ('char', 'attr')[part] if lay.kind == 'text' else 'pixel'
                        n = sum(1 for j in range(len(xa)) if xa[j] != xb[j])
                        return 'page %d %s at row/y %d col/x %d: %d vs %d (%d cells differ)' % (
                            p, what, i // w, i % w, xa[i], xb[i], n)
    return None


def changed_cells(a, b):
    out = set()
    for p, (pa, pb) in enumerate(zip(a, b)):
        for part, (xa, xb) in enumerate(zip(pa, pb)):
            if xa != xb:
                out.update((p, part, i) for i in range(len(xa)) if xa[i] != xb[i])
    return out


# ---------------------------------------------------------------------------------------------

def resolve_addr(spec, scr):
    """Address spec -> linear offset from the mode's base segment, inside the address window."""
    return min(_resolve_addr(spec, scr), scr.lay.window - 1)


def _resolve_addr(spec, scr):
    lay = scr.lay
    npages = scr.npages
    page = scr.used_pages[spec['pg'] % len(scr.used_pages)] if spec.get('used', True) else (
        spec['pg'] % npages)
    kind = spec['kind']
    v, d = spec['v'], spec.get('d', 0)
    base = page * lay.page_size
    if kind == 'rand':
        return base + v % lay.page_size
    if kind == 'content':
        bank = (v // 7) % lay.banks
        return base + bank * lay.bank_size + v % lay.data_end()
    if kind == 'bank-end':          # around the end of an interlace bank (start of the next one)
        bank = 1 + v % lay.banks
        return max(0, base + bank * lay.bank_size - d)
    if kind == 'data-end':          # around the last content byte of a bank
        bank = v % lay.banks
        return max(0, base + bank * lay.bank_size + lay.data_end() - d)
    if kind == 'page-end':
        return max(0, base + lay.page_size - d)
    if kind == 'row':               # around a row end
        rowlen = lay.columns * 2 if lay.kind == 'text' else lay.bpr
        bank = (v // 3) % lay.banks
        r = v % (lay.data_end() // rowlen)
        return max(0, base + bank * lay.bank_size + (r + 1) * rowlen - d)
    raise ValueError(kind)


def touches(lay, off, n):
    """Classification of a range for labels / non-triviality."""
    banks = {(o // lay.bank_size) for o in (off, off + n - 1)}
    pages = {(o // lay.page_size) for o in (off, off + n - 1)}
    rowlen = lay.columns * 2 if lay.kind == 'text' else lay.bpr
    midrow = ((off % lay.bank_size) % rowlen) != 0
    return len(banks) > 1, len(pages) > 1, midrow


def crosses_bank_not_at_start(lay, off, n):
    """The block crosses the start of a bank/page but does not start on one."""
    return (off % lay.bank_size != 0) and (off // lay.bank_size != (off + n - 1) // lay.bank_size)


def check_case(case):
    res = Result()
    res.label('%s-screen%d-w%d' % (case['video'], case['mode'], case['w']))
    if case.get('twin'):
        return check_bload(case, res)
    scr = Screen(case, res)
    try:
        if scr.dead:
            return res
        lay = scr.lay
        snap = scr.snapshot()
        footprints = []
        for acc in case['acc']:
            if scr.dead:
                break
            k = acc['k']
            off = resolve_addr(acc['a'], scr)
            plane = acc.get('plane', 0) % 4
            if lay.kind == 'planar':
                scr.select_plane(plane)
            seg, so = scr.segoff(off)
            where = '%s SCREEN %d width %d, %X:%04X (page %d, in-page offset %d, plane %d)' % (
                scr.video, scr.mode, scr.width, seg, so, off // lay.page_size,
                off % lay.page_size, plane)
            if k == 'peek':
                exp = ref_peek(scr, snap, off, plane)
                got = scr.peek(off)
                bk, pg, mid = touches(lay, off, 1)
                if exp is None:
                    res.label('peek-gap')
                elif lay.noref:
                    res.label('peek-noref')
                else:
                    res.label('peek')
                    res.nt(mid)
                    if got != exp:
                        res.fail('peek.encoding.%s' % lay.kind, '%s: PEEK = %d, the screen '
                                 'content encodes to %d' % (where, got, exp))
            elif k == 'poke':
                v = acc['v'] % 256
                scr.poke(off, v)
                if scr.dead:
                    break
                after = scr.snapshot()
                got = scr.peek(off)
                exp = ref_poke(scr, snap, off, v, plane)
                changed = changed_cells(snap, after)
                res.nt(touches(lay, off, 1)[2])
                if exp is None:
                    res.label('poke-gap')
                    if changed:
                        res.label('poke-gap-changes-screen')
                elif lay.noref:
                    res.label('poke-noref')
                    if got != v:
                        res.fail('poke.readback.noref', '%s: POKE %d then PEEK = %d' % (
                            where, v, got))
                    foot = frozenset(changed)
                    for ooff, ocells in footprints:
                        if ooff != off and ocells & foot:
                            res.fail('poke.footprints-overlap', '%s and offset %d change the '
                                     'same cell' % (where, ooff))
                    footprints.append((off, foot))
                else:
                    res.label('poke')
                    d = snap_diff(exp, after, lay, scr.width)
                    if d:
                        res.fail('poke.effect.%s' % lay.kind, '%s: POKE %d: expected vs actual '
                                 '%s' % (where, v, d))
                    if got != v:
                        res.fail('poke.readback.%s' % lay.kind, '%s: POKE %d then PEEK = %d' % (
                            where, v, got))
                snap = after
            elif k == 'bsave':
                n = max(1, min(acc['n'], lay.window - off))
                data = scr.bsave(off, n)
                if data is None or scr.dead:
                    continue
                peeks = scr.peek_range(off, n)
                bk, pg, mid = touches(lay, off, n)
                res.nt(bk or pg or mid)
                res.label('bsave' + ('-bank' if bk else '') + ('-page' if pg else '')
                          + ('-midrow' if mid else ''))
                bad_back, bad_gap = [], []
                for i in range(n):
                    if data[i] != peeks[i]:
                        loc = lay.locate(off + i)
                        if loc is not None and loc[0] < scr.npages:
                            bad_back.append(i)
                        else:
                            bad_gap.append(i)
                if bad_gap:
                    res.label('bsave-gap-byte-differs')
                if bad_back:
                    i = bad_back[0]
                    key = 'block-read.mismatch'
                    if lay.kind == 'tandy6' and off % 2:
                        # own bucket: SCREEN 6 block starting on an odd address
                        key = 'block-read.tandy6-odd-address'
                    elif crosses_bank_not_at_start(lay, off, n):
                        # own bucket: block crossing into the next bank/page from mid-bank
                        key = 'block-read.bank-crossing'
                    exp = None if lay.noref else ref_peek(scr, snap, off + i, plane)
                    res.fail(key, '%s: BSAVE of %d bytes differs from PEEK at %d backing '
                             'offsets, first at +%d: file %d, PEEK %d, reference %r' % (
                                 where, n, len(bad_back), i, data[i], peeks[i], exp))
            else:
                raise ValueError(k)
    finally:
        scr.close()
    return res


def check_bload(case, res):
    """BLOAD of a block == byte-wise POKE of the same bytes in a twin session."""
    a = Screen(case, res)
    b = None
    try:
        if a.dead:
            return res
        b = Screen(case, res)
        if b.dead:
            return res
        lay = a.lay
        if a.snapshot() != b.snapshot():
            res.fail('harness.twin-setup-differs', 'two sessions with the same setup differ')
            return res
        for acc in case['acc']:
            off = resolve_addr(acc['a'], a)
            plane = acc.get('plane', 0) % 4
            seg, so = a.segoff(off)
            n = max(1, min(acc['n'], lay.window - off))
            rng = random.Random(acc['dseed'])
            data = [rng.choice((rng.randint(0, 255), 0xff, 0x00, 0x55)) for _ in range(n)]
            if lay.kind == 'planar':
                a.select_plane(plane)
                b.select_plane(plane)
            a.bload(off, data)
            b.poke_range(off, data)
            if a.dead or b.dead:
                return res
            bk, pg, mid = touches(lay, off, n)
            res.nt(bk or pg or mid)
            res.label('bload' + ('-bank' if bk else '') + ('-page' if pg else '')
                      + ('-midrow' if mid else ''))
            where = '%s SCREEN %d width %d, %X:%04X len %d (page %d, in-page offset %d, plane %d)' % (
                a.video, a.mode, a.width, seg, so, n, off // lay.page_size, off % lay.page_size,
                plane)
            sa, sb = a.snapshot(), b.snapshot()
            d = snap_diff(sa, sb, lay, a.width)
            if d:
                key = 'block-write.mismatch'
                if lay.kind == 'tandy6' and off % 2:
                    key = 'block-write.tandy6-odd-address'
                elif crosses_bank_not_at_start(lay, off, n):
                    key = 'block-write.bank-crossing'
                res.fail(key, '%s: after BLOAD vs after byte-wise POKE: %s' % (where, d))
                return res
            pa, pb = a.peek_range(off, n), b.peek_range(off, n)
            if pa != pb:
                i = [j for j in range(n) if pa[j] != pb[j]][0]
                res.fail('block-write.peek-differs', '%s: PEEK at +%d is %d after BLOAD, %d after '
                         'POKE' % (where, i, pa[i], pb[i]))
                return res
    finally:
        a.close()
        if b is not None:
            b.close()
    return res


# ---------------------------------------------------------------------------------------------
# generators (seeded enumeration: every mode of every adapter in every run)

def gen_addr(rng, lay, boundary_bias=0.6):
    if rng.random() < boundary_bias:
        kind = rng.choice(['bank-end', 'bank-end', 'data-end', 'page-end', 'row', 'row'])
        d = rng.choice([0, 1, 2, 3, rng.randint(0, 40), rng.randint(0, 300), rng.randint(0, 2000)])
    else:
        kind = rng.choice(['rand', 'content', 'content'])
        d = 0
    return {'pg': rng.randint(0, 7), 'kind': kind, 'v': rng.randint(0, 99999), 'd': d,
            'used': rng.random() < 0.8}


def make_case(rng, combo, naccess, twin=False):
    video, mode, width = combo
    lay = layout_for(video, mode, width)
    acc = []
    for _ in range(naccess):
        a = gen_addr(rng, lay, 0.75 if twin else 0.6)
        plane = rng.randint(0, 3)
        if twin:
            acc.append({'k': 'bload', 'a': a, 'n': rng.choice(
                [rng.randint(1, 40), rng.randint(1, 300), rng.randint(100, 600)]),
                'dseed': rng.randint(0, 10 ** 6), 'plane': plane})
            continue
        r = rng.random()
        if r < 0.4:
            acc.append({'k': 'peek', 'a': a, 'plane': plane})
        elif r < 0.75:
            acc.append({'k': 'poke', 'a': a, 'v': rng.choice(
                [rng.randint(0, 255), 0xff, 0, 0xaa, 0x1b]), 'plane': plane})
        else:
            acc.append({'k': 'bsave', 'a': a, 'n': rng.choice(
                [rng.randint(1, 100), rng.randint(1, 600), rng.randint(200, 2048)]),
                'plane': plane})
    case = {'video': video, 'mode': mode, 'w': width, 'seed': rng.randint(0, 10 ** 6), 'acc': acc}
    if twin:
        case['twin'] = True
    return case


def gen_access(shard, nshards, tier, seed):
    reps = 1 if tier == 'quick' else 40
    n = 40 if tier == 'quick' else 60
    for rep in range(reps):
        for i, combo in enumerate(COMBOS):
            if i % nshards != shard:
                continue
            rng = random.Random('%d/%d/%d/acc' % (seed, rep, i))
            yield make_case(rng, combo, n)


def gen_bload(shard, nshards, tier, seed):
    reps = 1 if tier == 'quick' else 30
    n = 5 if tier == 'quick' else 8
    for rep in range(reps):
        for i, combo in enumerate(COMBOS):
            if i % nshards != shard:
                continue
            rng = random.Random('%d/%d/%d/bload' % (seed, rep, i))
            yield make_case(rng, combo, n, twin=True)


def units(tier):
    return [
        Unit('peek-poke-bsave', 'enum', shards=16, gen=gen_access, per_case_timeout=120.0),
        Unit('bload-vs-poke', 'enum', shards=16, gen=gen_bload, per_case_timeout=120.0),
    ]


def _a(pg, kind, v, d=0):
    return {'pg': pg, 'kind': kind, 'v': v, 'd': d}


REGRESSIONS = [
    # fixed 573ea747: block read crossing from mid-bank into the next interlace bank/page read
    # zeros behind the boundary (DESIGN finding 11)
    {'video': 'cga', 'mode': 1, 'w': 40, 'seed': 1,
     'acc': [{'k': 'bsave', 'a': _a(0, 'bank-end', 0, 116), 'n': 264}]},
    {'video': 'tandy', 'mode': 6, 'w': 80, 'seed': 2,
     'acc': [{'k': 'bsave', 'a': _a(0, 'bank-end', 1, 200), 'n': 500}]},
    {'video': 'hercules', 'mode': 3, 'w': 80, 'seed': 3,
     'acc': [{'k': 'bsave', 'a': _a(0, 'bank-end', 0, 300), 'n': 700}]},
    {'video': 'ega', 'mode': 7, 'w': 40, 'seed': 4,
     'acc': [{'k': 'bsave', 'a': _a(0, 'page-end', 0, 1200), 'n': 1600, 'plane': 1}]},
    # the same through BLOAD
    {'video': 'pcjr', 'mode': 5, 'w': 40, 'seed': 5, 'twin': True,
     'acc': [{'k': 'bload', 'a': _a(0, 'bank-end', 0, 150), 'n': 400, 'dseed': 7}]},
    # fixed fd5cad22: Tandy SCREEN 6 block starting on an odd address took every second byte from
    # the previous byte pair
    {'video': 'tandy', 'mode': 6, 'w': 80, 'seed': 8,
     'acc': [{'k': 'poke', 'a': _a(0, 'rand', 1580), 'v': 0}, {'k': 'poke', 'a': _a(0, 'rand', 1582), 'v': 255},
             {'k': 'bsave', 'a': _a(0, 'rand', 1581), 'n': 10}]},
    {'video': 'pcjr', 'mode': 6, 'w': 80, 'seed': 9, 'twin': True,
     'acc': [{'k': 'bload', 'a': _a(0, 'content', 7977), 'n': 67, 'dseed': 3}]},
    # byte level: text attribute, CGA pixel byte, EGA plane
    {'video': 'cga', 'mode': 0, 'w': 80, 'seed': 6,
     'acc': [{'k': 'poke', 'a': _a(1, 'content', 161), 'v': 0x4e}, {'k': 'peek', 'a': _a(1, 'content', 161)}]},
    {'video': 'vga', 'mode': 9, 'w': 80, 'seed': 7,
     'acc': [{'k': 'poke', 'a': _a(1, 'content', 2001), 'v': 0xa5, 'plane': 2},
             {'k': 'peek', 'a': _a(1, 'content', 2001), 'plane': 2},
             {'k': 'bsave', 'a': _a(0, 'content', 100), 'n': 300, 'plane': 3}]},
]

KILLS = [
    "framebuffer.CGAMemoryMapper._get_coords: bank stride constant 2 instead of interleave_times "
    "-> poke.effect.packed / peek.encoding.packed / block-read.mismatch (4-bank modes)",
    "framebuffer.EGAMemoryMapper: bytes_per_row + 1 -> poke.effect.planar / peek.encoding.planar",
    "framebuffer.TextMemoryMapper: 40-column page size 0x1000 -> peek.encoding.text / poke.effect.text",
    "framebuffer._walk_memory: first row one byte too long -> block-read.mismatch",
    "framebuffer._walk_memory: row_size - 1 -> block-read.mismatch / poke.effect.*",
    "framebuffer.CGAMemoryMapper._get_coords: page size + 2 -> poke.effect.packed / peek.encoding.packed",
    "framebuffer.EGAMemoryMapper.set_memory: plane mask ignored -> poke.effect.planar",
    "framebuffer.EGAMemoryMapper.get_memory: read plane ignored -> poke.readback.planar / "
    "peek.encoding.planar",
    "framebuffer.TextMemoryMapper.get_memory: character/attribute parity swapped -> "
    "peek.encoding.text / poke.readback.text",
    "framebuffer.Tandy6MemoryMapper.get_memory: plane = parity (address parity ignored) -> "
    "poke.readback.tandy6",
    "framebuffer._coord_ok: y <= height -> escaped.IndexError@bytematrix.py:__getitem__ / peek.error",
    "machine.bload_: last byte of the block dropped -> block-write.mismatch",
]
