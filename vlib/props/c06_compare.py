"""
C06 - numeric comparisons agree with the exact order of values.

Oracle: both operands decoded to exact Fractions (vlib/mbf.py); each of = <> < > <= >= must return
the Integer -1 when the relation holds between the exact values and the Integer 0 otherwise.  The
derived consistency (exactly one of <, =, > ; <= is not > ; >= is not < ; <> is not =) is checked
from the observed results alone, under its own keys, so a compensating pair of bugs still shows.
"""
import random

from hypothesis import strategies as st

from vlib.core import Result, Unit
from vlib import mbf
from vlib import mbfnum as M

ID = 'C06'
LEVEL = 'exploration'
RULE = ("Pairs (x, y) over all 9 pairings of Integer/Single/Double: independent values from the "
        "C03 pools; the same value carried to the other type; values 1-3 representable places "
        "apart (with exponent carry); same magnitude with opposite sign; zero encodings (canonical, "
        "dirty mantissa/sign) against each other and against the smallest magnitudes; C04 pair "
        "classes (equal/adjacent exponents, near-cancellation, extremes). Each case evaluates the six "
        "relations in both operand orders through the values API; a Hypothesis sample goes through "
        "Session.evaluate and a stored program line. Non-trivial: |x-y| <= 4 ulp of the coarser "
        "operand, or the types differ, or a zero encoding is involved; distinct = distinct (x, y, route).")
ASSUMPTIONS = [
    "the result must be an Integer (2 bytes) holding -1 or 0",
    "operands reach the comparison through values.eq/neq/lt/gt/lte/gte (which promote to the wider "
    "type first); Float.gt/eq are not called directly with mismatched operand types",
]
TECHNIQUE = "exact rational order as reference over generated operand pairs; consistency relations checked separately"

RELS = ['=', '<>', '<', '>', '<=', '>=']
HOLDS = {
    '=': lambda a, b: a == b, '<>': lambda a, b: a != b, '<': lambda a, b: a < b,
    '>': lambda a, b: a > b, '<=': lambda a, b: a <= b, '>=': lambda a, b: a >= b,
}
RNAME = {'=': 'eq', '<>': 'neq', '<': 'lt', '>': 'gt', '<=': 'lte', '>=': 'gte'}


def rel_observe(rel, a, b, route):
    """-> ('ok', python int) | ('badtype', bytes) | ('err', code) | ('escaped', key) | ('budget',)"""
    if route == 'api':
        o = M.call2(M.api().rel[rel], a, b)
        if o[0] != 'ok':
            return o
        if len(o[1]) != 2:
            return ('badtype', o[1])
        return ('ok', M.dy(o[1])[0])
    expr = M.CV[len(a)] + b'(A$)' + rel.encode() + M.CV[len(b)] + b'(B$)'
    o = M.run_expr(expr, {'A$': a, 'B$': b}, route, 'int')
    if o[0] == 'soft':
        return ('err', o[1])
    if o[0] == 'ok' and not isinstance(o[1], int):
        return ('badtype', repr(o[1]).encode())
    return o


def check_case(case):
    res = Result()
    if case['u'] != 'cmp':
        raise ValueError(case['u'])
    x, y, route = M.unlat(case['x']), M.unlat(case['y']), case['route']
    nx, ny = len(x), len(y)
    vx, vy = mbf.decode(x), mbf.decode(y)
    zx = nx > 2 and x[-1] == 0
    zy = ny > 2 and y[-1] == 0
    if nx > 2 or ny > 2:
        coarse = max(mbf.ulp(x) if nx > 2 else 0, mbf.ulp(y) if ny > 2 else 0)
    else:
        coarse = 1
    close = abs(vx - vy) <= 4 * coarse
    res.nt(close or nx != ny or zx or zy)
    res.label('%s-%s.%s' % (M.TNAME[nx], M.TNAME[ny], route))
    if vx == vy:
        res.label('equal-values')
    elif close:
        res.label('within-4-ulp')
    if zx or zy:
        res.label('zero-encoding')
        if (zx and x != bytes(nx)) or (zy and y != bytes(ny)):
            res.label('dirty-zero')
    if vx != 0 and vx == -vy:
        res.label('opposite-sign')
    for (a, b, va, vb, order) in ((x, y, vx, vy, 'xy'), (y, x, vy, vx, 'yx')):
        got = {}
        tag = '%s:%s ? %s:%s [%s]' % (M.TNAME[len(a)], M.hx(a), M.TNAME[len(b)], M.hx(b), route)
        for rel in RELS:
            o = rel_observe(rel, a, b, route)
            if o[0] == 'budget':
                res.inconclusive = True
                return res
            if o[0] == 'escaped':
                res.fail(o[1], '%s %s' % (tag, rel))
                return res
            if o[0] != 'ok':
                res.fail('rel.%s.%s' % (RNAME[rel], o[0]), '%s: %s -> %r' % (tag, rel, o))
                continue
            want = -1 if HOLDS[rel](va, vb) else 0
            got[rel] = o[1]
            if o[1] != want:
                res.fail('rel.' + RNAME[rel], '%s: %s -> %r, exact values %r %s %r want %d' % (
                    tag, rel, o[1], float(va), rel, float(vb), want))
        if len(got) == 6 and all(v in (0, -1) for v in got.values()):
            if (got['<'], got['='], got['>']).count(-1) != 1:
                res.fail('consistency.trichotomy', '%s: < = > -> %d %d %d' % (
                    tag, got['<'], got['='], got['>']))
            if got['<='] != (-1 - got['>']):
                res.fail('consistency.lte-vs-gt', '%s: <= %d, > %d' % (tag, got['<='], got['>']))
            if got['>='] != (-1 - got['<']):
                res.fail('consistency.gte-vs-lt', '%s: >= %d, < %d' % (tag, got['>='], got['<']))
            if got['<>'] != (-1 - got['=']):
                res.fail('consistency.neq-vs-eq', '%s: <> %d, = %d' % (tag, got['<>'], got['=']))
    return res


# ---------------------------------------------------------------------------------------------
# generators

def gen_case(rng, route='api'):
    x, y, _ = M.gen_related(rng)
    return {'u': 'cmp', 'x': M.lat(x), 'y': M.lat(y), 'route': route}


def gen_pairs(shard, nshards, tier, seed):
    rng = random.Random(seed)
    for _ in range(20000 if tier == 'quick' else 400000):
        yield gen_case(rng)


def gen_int_lattice(shard, nshards, tier, seed):
    """integer/integer pairs on a boundary lattice (byte-wise compare in Integer.gt)."""
    vals = sorted(set([-32768, -32767, -257, -256, -255, -129, -128, -127, -2, -1, 0, 1, 2, 127, 128,
                       129, 255, 256, 257, 511, 512, 32766, 32767, 0x7f00, 0x7fff - 256, -0x7f00,
                       0x00ff, 0x0100, -0x0100, 0x1234, 0x3412, -0x1234]))
    pairs = [(a, b) for a in vals for b in vals]
    for a, b in pairs[shard::nshards]:
        yield {'u': 'cmp', 'x': M.lat(mbf.int16_bytes(a)), 'y': M.lat(mbf.int16_bytes(b)), 'route': 'api'}


def strat_cmp():
    def build(sd, route, raw, mode, nx, ny):
        if mode == 0:
            return {'u': 'cmp', 'x': M.lat(raw[:nx]), 'y': M.lat(raw[8:8 + ny]), 'route': route}
        return gen_case(random.Random(sd), route)
    return st.builds(build, st.integers(0, 2 ** 40), st.sampled_from(['eval', 'eval', 'prog']),
                     st.binary(min_size=16, max_size=16), st.integers(0, 5),
                     st.sampled_from([2, 4, 8]), st.sampled_from([2, 4, 8]))


def units(tier):
    return [
        Unit('pairs-api', 'enum', shards=16, gen=gen_pairs),
        Unit('int-lattice', 'enum', shards=1, gen=gen_int_lattice),
        Unit('cmp-eval', 'hyp', shards=16, examples={'quick': 400, 'thorough': 10000},
             strategy=strat_cmp),
    ]


def _c(hx_, hy, route='api'):
    return {'u': 'cmp', 'x': M.lat(bytes.fromhex(hx_)), 'y': M.lat(bytes.fromhex(hy)), 'route': route}


REGRESSIONS = [
    _c('00000000', '01028300'),                     # canonical zero vs negative dirty zero
    _c('01028300', '0000000000800000', 'eval'),     # dirty zeros of different types
    _c('00008081', '00000081'),                     # -1 vs 1
    _c('00008001', '01020300', 'eval'),             # smallest negative vs dirty zero
    _c('ffff7f98', '0000000000008098', 'prog'),     # 16777215 vs -16777216#
    _c('0080', '00008090'),                         # -32768% vs -32768!
    _c('ff7f', '0000000000fe7f8f', 'eval'),         # 32767% vs 32767#
    _c('cdcc4c7d', '000000a0cdcc4c7d'),             # single vs a double just above its widening
]

KILLS = [
    'seeded/C06 (Float.gt zero case ignores rhs.is_zero()) => rel.gt/gte/lt/lte',
    'numbers.Float.gt: zero special case dropped => rel.gt/gte/lt/lte (dirty zeros vs zeros)',
    'numbers.Float._abs_gt: mantissa bytes compared before the exponent byte => rel.gt/gte/lt/lte',
    "numbers.Float.eq: 'all zeroes are equal' dropped => rel.eq, rel.neq (dirty zeros)",
    'numbers.Integer.gt: `>=` on the low byte => rel.gt/gte/lt/lte on equal integers (int-lattice, pairs-api)',
    'values.lte: implemented as lt => rel.lte and consistency.lte-vs-gt (cmp-eval, pairs-api)',
    'SURVIVES (equivalent): the sign mask `rhscopy[-2] &= ...` in Float._abs_gt removed - Float.gt only calls _abs_gt with operands of equal sign, so the mask never changes a byte',
]
