"""
C18 - expressions evaluate with GW-BASIC precedence, associativity and typing.

A case is an explicit operator tree (JSON lists).  The tree is printed three ways -- fully
parenthesised, with a (locally) minimal set of parentheses, and with redundant parentheses and
blanks -- by a printer that is checked against an independent Pratt parser written from the
precedence list of the property statement (a pair of parentheses is dropped only if the reference
parser still returns the same tree).  Oracles:

 (a) metamorphic: the three printings give the same value class, the same value bytes and the same
     error list; the public Session.evaluate value agrees with the value object;
 (b) model: a tree evaluator on exact Fractions with the documented typing rules gives the expected
     class and value, or the expected first error (Type mismatch, Overflow, Division by zero, String
     too long), wherever every intermediate result is exactly representable; elsewhere silent;
 (c) dangling operators: one operand removed from an error-free tree => Missing operand at the end
     of the expression, Syntax error or Missing operand elsewhere.

The interpreter's shunting-yard loop is never consulted for the expected result.
"""
import random
from fractions import Fraction

from hypothesis import strategies as st

from vlib.core import Result, Unit
from vlib import harness, mbf

ID = 'C18'
LEVEL = 'exploration'
TECHNIQUE = ("Hypothesis-generated operator trees; metamorphic relation between minimal, full and "
             "redundant parenthesisation; independent Pratt parser + exact-Fraction tree evaluator "
             "with the documented typing rules; operand deletion for missing-operand errors")
RULE = ("Operator trees of depth <= 6 decoded from a Hypothesis-drawn integer genome: leaves are "
        "integer (decimal, %, &H, &O), single (dyadic decimals, !), double (#) and string literals "
        "and preset variables of all four types (negative and boundary values); all 7 arithmetic, 9 "
        "relational spellings, 5 binary logical operators, unary - + NOT in every operand position "
        "(after binary operators too), string + and string relations, chained relations.  Unit "
        "'mismatch' swaps one or more operand kinds (string <-> number); unit 'dangling' removes one "
        "operand of an error-free tree.  Non-trivial: the tree has >= 3 operators and its minimal "
        "printing has fewer parentheses than the full one yet still needs at least one pair or "
        "relies on left-to-right grouping (precedence/associativity decides the result); distinct = "
        "distinct case.")
ASSUMPTIONS = [
    "value model asserted only where every intermediate result is exactly representable in the "
    "narrowest admissible type (no rounding anywhere); other trees are checked metamorphically only",
    "+ - * and unary + - on all-integer operands may return Integer or an integral Single "
    "(pcbasic promotes up front, GW-BASIC on overflow; the manual promises only 'a type able to "
    "hold the result'); Double-ness, integer type of relational/\\/MOD/logical results and the "
    "non-integer type of / and ^ are strict",
    "^ with a Double operand may return Single or Double (statement: widest operand type; manual: "
    "at most single precision unless the double option is set); the value of ^ is asserted only "
    "for Integer-class exponents |e| <= 24 (repeated multiplication is exact there; a float "
    "exponent uses the transcendental routine whose accuracy belongs to C04)",
    "unary - and + applied to a string, halves rounded to integer, -32768 MOD -1, logical operands "
    "in 32768..65535 and values after a soft (direct-mode) Overflow/Division by zero are not asserted",
    "an operator application with a type mismatch and another error condition at once may report "
    "either",
    "the manual lists unary minus on the row of binary + -, the statement just below ^: trees whose "
    "minimal printing evaluates differently under the two readings are not asserted",
    "missing left operand / missing operand inside brackets: Syntax error or Missing operand "
    "accepted; missing right operand at the end of the expression: exactly Missing operand",
]

# ---------------------------------------------------------------------------------------------
# the precedence list of the property statement

RELOPS = ['=', '<', '>', '<=', '=<', '>=', '=>', '<>', '><']
BIN_PREC = {'^': 13, '*': 11, '/': 11, '\\': 10, 'MOD': 9, '+': 8, '-': 8,
            'AND': 5, 'OR': 4, 'XOR': 3, 'EQV': 2, 'IMP': 1}
for _r in RELOPS:
    BIN_PREC[_r] = 7
UN_PREC = {'-': 12, '+': 12, 'NOT': 6}
# the manual's table puts unary + - on the row of binary + - (operand extends over ^ * / \ MOD)
UN_PREC_MANUAL = {'-': 9, '+': 9, 'NOT': 6}
KEYWORDS = {'MOD', 'AND', 'OR', 'XOR', 'EQV', 'IMP', 'NOT'}
ARITH = ['+', '-', '*', '/', '\\', 'MOD', '^']
LOGIC = ['AND', 'OR', 'XOR', 'EQV', 'IMP']

# preset variables (name -> (kind, exact value or bytes as latin-1 str))
VARS = {
    'JA%': ('I', Fraction(-7)), 'JB%': ('I', Fraction(32767)), 'JC%': ('I', Fraction(-32768)),
    'JD%': ('I', Fraction(3)),
    'KA!': ('S', Fraction(-5, 2)), 'KB!': ('S', Fraction(3, 8)), 'KC!': ('S', Fraction(-32768)),
    'KD!': ('S', Fraction(4)),
    'QA#': ('D', Fraction(-5, 4)), 'QB#': ('D', Fraction(2 ** 41 + 1, 2)), 'QC#': ('D', Fraction(2)),
    'ZA$': ('$', 'abc'), 'ZB$': ('$', ''), 'ZC$': ('$', 'ab'),
}


# ---------------------------------------------------------------------------------------------
# trees:  ['L', kind, text]   kind in I S D $ V      (text of a $ leaf is the content, no quotes)
#         ['U', op, child]    ['B', op, left, right]

def count_ops(t):
    if t[0] == 'L':
        return 0
    if t[0] == 'U':
        return 1 + count_ops(t[2])
    return 1 + count_ops(t[2]) + count_ops(t[3])


def depth_of(t):
    if t[0] == 'L':
        return 0
    if t[0] == 'U':
        return 1 + depth_of(t[2])
    return 1 + max(depth_of(t[2]), depth_of(t[3]))


def ops_in(t, acc=None):
    acc = [] if acc is None else acc
    if t[0] == 'U':
        acc.append('u' + t[1])
        ops_in(t[2], acc)
    elif t[0] == 'B':
        acc.append(t[1])
        ops_in(t[2], acc)
        ops_in(t[3], acc)
    return acc


# ---------------------------------------------------------------------------------------------
# tokens and the reference (Pratt) parser

def full_tokens(t, ids=None):
    """Fully parenthesised token list; every operator node gets its own numbered pair."""
    ids = ids if ids is not None else [0]
    if t[0] == 'L':
        return [('leaf', t)]
    n = ids[0]
    ids[0] += 1
    if t[0] == 'U':
        return [('(', n), ('un', t[1])] + full_tokens(t[2], ids) + [(')', n)]
    return ([('(', n)] + full_tokens(t[2], ids) + [('bin', t[1])] + full_tokens(t[3], ids)
            + [(')', n)])


class ParseFail(Exception):
    pass


def ref_parse(tokens, un_prec=UN_PREC):
    """Independent Pratt parser over a token list -> tree. Raises ParseFail."""
    pos = [0]
    n = len(tokens)

    def peek():
        return tokens[pos[0]] if pos[0] < n else ('end', None)

    def expr(min_prec):
        tok = peek()
        pos[0] += 1
        if tok[0] == '(':
            node = expr(0)
            if peek()[0] != ')':
                raise ParseFail('expected )')
            pos[0] += 1
        elif tok[0] == 'un':
            node = ['U', tok[1], expr(un_prec[tok[1]])]
        elif tok[0] == 'leaf':
            node = tok[1]
        else:
            raise ParseFail('operand expected at %d' % (pos[0] - 1))
        while True:
            tok = peek()
            if tok[0] != 'bin':
                break
            p = BIN_PREC[tok[1]]
            if p < min_prec:
                break
            pos[0] += 1
            node = ['B', tok[1], node, expr(p + 1)]       # left to right at equal precedence
        return node

    tree = expr(0)
    if pos[0] != n:
        raise ParseFail('trailing tokens')
    return tree


def minimal_tokens(t):
    """Drop every pair of parentheses whose removal leaves the reference parse unchanged."""
    toks = full_tokens(t)
    npairs = sum(1 for k in toks if k[0] == '(')
    for n in range(npairs):
        cand = [k for k in toks if not (k[0] in '()' and k[1] == n)]
        try:
            if ref_parse(cand) == t:
                toks = cand
        except ParseFail:
            pass
    return toks


def redundant_tokens(toks, rng):
    """Add parentheses around random complete sub-expressions of a token list (never removes)."""
    toks = list(toks)
    for _ in range(rng.randint(1, 4)):
        # candidate sub-expressions: a single leaf, or a balanced (...) group
        starts = [i for i, k in enumerate(toks) if k[0] in ('leaf', '(')]
        i = starts[rng.randrange(len(starts))]
        j = i
        if toks[i][0] == '(':
            d = 0
            while True:
                if toks[j][0] == '(':
                    d += 1
                elif toks[j][0] == ')':
                    d -= 1
                    if d == 0:
                        break
                j += 1
        toks[j + 1:j + 1] = [(')', -1)]
        toks[i:i] = [('(', -1)]
    if rng.random() < 0.3:
        toks = [('(', -1)] + toks + [(')', -1)]
    return toks


def leaf_text(leaf):
    kind, text = leaf[1], leaf[2]
    return '"%s"' % text if kind == '$' else text


def render(toks, rng=None):
    """Token list -> BASIC text. Without rng: no blanks except the ones keywords need."""
    out = []
    for k in toks:
        if k[0] == 'leaf':
            s = leaf_text(k[1])
        elif k[0] in '()':
            s = k[0]
        else:
            s = k[1]
            if s in KEYWORDS:
                s = ' ' + s + ' '
        if rng is not None:
            s = ' ' * rng.choice((0, 0, 1, 2)) + s + ' ' * rng.choice((0, 0, 0, 1))
        out.append(s)
    return ''.join(out).strip()


# ---------------------------------------------------------------------------------------------
# value model

class Err(Exception):
    def __init__(self, codes, soft=False):
        Exception.__init__(self, codes)
        self.codes = frozenset(codes)
        self.soft = soft


class Unspec(Exception):
    def __init__(self, why):
        Exception.__init__(self, why)
        self.why = why


class Val(object):
    """types: frozenset of admissible classes among I S D, or {'$'}; v: Fraction or str."""
    __slots__ = ('types', 'v')

    def __init__(self, types, v):
        self.types = frozenset(types)
        self.v = v

    @property
    def is_str(self):
        return '$' in self.types

    def __repr__(self):
        return 'Val(%s, %r)' % (''.join(sorted(self.types)), self.v)


RANK = {'I': 0, 'S': 1, 'D': 2}
BIG = Fraction(2) ** 100


def fits(v, t):
    if t == 'I':
        return v.denominator == 1 and -32768 <= v <= 32767
    return mbf.representable(v, 4 if t == 'S' else 8)


def leaf_value(leaf):
    kind, text = leaf[1], leaf[2]
    if kind == 'V':
        k, v = VARS[text]
        return Val({k}, v)
    if kind == '$':
        return Val({'$'}, text)
    body = text.rstrip('%!#')
    if body.startswith('&H'):
        v = int(body[2:], 16)
        v = v - 0x10000 if v >= 0x8000 else v
    elif body.startswith('&O'):
        v = int(body[2:], 8)
        v = v - 0x10000 if v >= 0x8000 else v
    else:
        v = Fraction(body)
    v = Fraction(v)
    assert fits(v, kind), leaf
    return Val({kind}, v)


def _lowbit(v):
    """Largest power of two (as a Fraction) that divides the dyadic rational v != 0."""
    n, d = v.numerator, v.denominator
    if d & (d - 1):
        return Fraction(1, 2 ** 200)          # not dyadic: never fits a window
    return Fraction(n & -n, d) if n > 0 else Fraction((-n) & n, d)


def numeric_result(types, v):
    """Arithmetic result: check exact representability in the narrowest admissible type."""
    if v != 0 and (abs(v) >= BIG or abs(v) < 1 / BIG):
        raise Unspec('range')
    types = set(types)
    if 'I' in types and not fits(v, 'I'):
        # integer arithmetic that leaves the int16 range continues in single precision
        types.discard('I')
        types.add('S')
    narrow = min(types, key=RANK.get)
    if not fits(v, narrow):
        raise Unspec('inexact')
    return Val(types, v)


def widest(a, b, floor=None):
    out = set()
    for x in a.types:
        for y in b.types:
            w = x if RANK[x] >= RANK[y] else y
            if floor and RANK[w] < RANK[floor]:
                w = floor
            out.add(w)
    return out


def to_int16(x, why):
    """Operand of \\ MOD and the logical operators: rounded to integer; Err 6 outside int16."""
    v = x.v
    if v.denominator != 1:
        if (v * 2).denominator == 1:
            raise Unspec('tie-rounding')
        fl = v.numerator // v.denominator
        v = Fraction(fl if v - fl < Fraction(1, 2) else fl + 1)
    return int(v)


def apply_unary(op, a):
    if op in ('-', '+'):
        if a.is_str:
            raise Unspec('unary-sign-on-string')
        types = set(a.types)
        if 'I' in types:
            types.add('S')
        return numeric_result(types, -a.v if op == '-' else a.v)
    # NOT
    if a.is_str:
        raise Err({13})
    v = to_int16(a, 'NOT')
    if 32768 <= v <= 65535:
        raise Unspec('unsigned-range')
    if not -32768 <= v <= 32767:
        raise Err({6})
    return Val({'I'}, Fraction(-v - 1))


def s16(v):
    v &= 0xffff
    return v - 0x10000 if v & 0x8000 else v


def apply_binary(op, a, b):
    nstr = int(a.is_str) + int(b.is_str)
    if op in RELOPS:
        if nstr == 1:
            raise Err({13})
        if nstr == 2:
            x, y = a.v.encode('latin-1'), b.v.encode('latin-1')
        else:
            x, y = a.v, b.v
        r = {'=': x == y, '<': x < y, '>': x > y, '<=': x <= y, '=<': x <= y, '>=': x >= y,
             '=>': x >= y, '<>': x != y, '><': x != y}[op]
        return Val({'I'}, Fraction(-1 if r else 0))
    if op == '+' and nstr == 2:
        if len(a.v) + len(b.v) > 255:
            raise Err({15})
        return Val({'$'}, a.v + b.v)
    if nstr:
        codes = {13}
        # another error condition of the same application may be reported instead
        other = b if a.is_str else a
        if not other.is_str:
            if op in ('/', '\\', 'MOD') and b is other and other.v == 0:
                codes.add(11)
            if op in ('\\', 'MOD') or op in LOGIC:
                if abs(other.v) > 32767:
                    codes.add(6)
        raise Err(codes)
    if op in ('+', '-', '*'):
        types = set(widest(a, b))
        if 'I' in types:
            types.add('S')
        v = a.v + b.v if op == '+' else a.v - b.v if op == '-' else a.v * b.v
        if op != '*' and a.v != 0 and b.v != 0:
            # an adder that aligns the smaller operand must not lose any of its bits: both
            # operands have to fit one mantissa window (1048576!-.0625 is rounded by pcbasic
            # although the difference is representable: accuracy is C04's subject, not ours)
            q = min(_lowbit(a.v), _lowbit(b.v))
            window = 56 if types == {'D'} else 24
            if max(abs(a.v), abs(b.v)) / q >= 2 ** window:
                raise Unspec('alignment')
        return numeric_result(types, v)
    if op == '/':
        if b.v == 0:
            raise Err({11}, soft=True)
        return numeric_result(widest(a, b, floor='S'), a.v / b.v)
    if op == '^':
        for x in (a, b):
            if not fits(x.v, 'S'):
                raise Unspec('pow-operand-not-single')
        if b.types != {'I'}:
            # a Single/Double exponent goes through the transcendental routine, whose accuracy is
            # not this property's business (x^1! may differ from x in the last place)
            raise Unspec('pow-float-exponent')
        if b.v.denominator != 1 or abs(b.v) > 24:
            raise Unspec('pow-exponent')
        e = int(b.v)
        if a.v == 0 and e < 0:
            raise Err({11}, soft=True)
        p = a.v ** abs(e)
        if p != 0 and (abs(p) >= BIG or abs(p) < 1 / BIG):
            raise Unspec('range')
        if not fits(p, 'S'):
            raise Unspec('inexact')
        v = p if e >= 0 else 1 / p
        types = {'S', 'D'} if ('D' in a.types or 'D' in b.types) else {'S'}
        return numeric_result(types, v)
    if op in ('\\', 'MOD'):
        x, y = to_int16(a, op), to_int16(b, op)
        codes = set()
        if not (-32768 <= x <= 32767 and -32768 <= y <= 32767):
            codes.add(6)
        if y == 0:
            codes.add(11)
        if codes:
            raise Err(codes, soft=(codes == {11}))
        q = abs(x) // abs(y)
        q = q if (x >= 0) == (y >= 0) else -q
        if op == '\\':
            if not -32768 <= q <= 32767:
                raise Err({6})
            return Val({'I'}, Fraction(q))
        if not -32768 <= q <= 32767:
            raise Unspec('minint-mod-minus-one')
        return Val({'I'}, Fraction(x - y * q))
    # logical
    x, y = to_int16(a, op), to_int16(b, op)
    if not (-32768 <= x <= 65535 and -32768 <= y <= 65535):
        raise Err({6})
    if x > 32767 or y > 32767:
        raise Unspec('unsigned-range')
    ux, uy = x & 0xffff, y & 0xffff
    r = {'AND': ux & uy, 'OR': ux | uy, 'XOR': ux ^ uy, 'EQV': ~(ux ^ uy), 'IMP': (~ux) | uy}[op]
    return Val({'I'}, Fraction(s16(r)))


def model_eval(t):
    """Post-order evaluation (the order in which any evaluator must apply the operators)."""
    if t[0] == 'L':
        return leaf_value(t)
    if t[0] == 'U':
        return apply_unary(t[1], model_eval(t[2]))
    a = model_eval(t[2])
    b = model_eval(t[3])
    return apply_binary(t[1], a, b)


def model_outcome(t):
    """-> ('val', Val) | ('err', codes, soft) | ('unspec', why)"""
    try:
        return ('val', model_eval(t))
    except Err as e:
        return ('err', e.codes, e.soft)
    except Unspec as e:
        return ('unspec', e.why)


def same_outcome(x, y):
    if x[0] != y[0]:
        return False
    if x[0] == 'val':
        return x[1].types == y[1].types and x[1].v == y[1].v
    return x[1:] == y[1:]


# ---------------------------------------------------------------------------------------------
# the interpreter side

_S = {}
CLASSES = {'Integer': 'I', 'Single': 'S', 'Double': 'D', 'String': '$'}


def _new_session():
    s = harness.Sess()
    for name, (kind, v) in sorted(VARS.items()):
        if kind == '$':
            s.set(name, v.encode('latin-1'))
        elif kind == 'I':
            s.set(name, int(v))
        else:
            s.set(name, float(v))
    box = {}
    parser = s.impl.parser
    orig = parser.parse_expression

    def spy(ins, *args, **kwargs):
        box.clear()
        val = orig(ins, *args, **kwargs)
        if val is None:
            return val
        cls = type(val).__name__
        box['cls'] = CLASSES.get(cls, cls)
        box['bytes'] = bytes(val.to_str()) if box['cls'] == '$' else bytes(val.to_bytes())
        ins.skip_blank()
        box['rest'] = bytes(ins.peek())
        return val
    parser.parse_expression = spy
    s.box = box
    return s


def _sess():
    s = _S.get('s')
    if s is None or _S['n'] >= 500:
        _drop()
        s = _new_session()
        _S['s'] = s
        _S['n'] = 0
        _S['lines'] = 0
    _S['n'] += 1
    return s


def _drop():
    s = _S.pop('s', None)
    if s is not None:
        s.close()


def observe(text):
    """-> ('val', cls, bytes, pyvalue) | ('err', [codes]) | ('escaped', key) | ('trailing', rest)"""
    s = _sess()
    s.box.clear()
    o = s.evaluate(text.encode('latin-1'))
    if o.kind != 'ok':
        _drop()
        if o.kind == 'budget':
            return ('budget',)
        return ('escaped', '%s@%s' % (o.exc, o.frame), o.tb)
    if o.output:
        # error messages scroll the text screen (slow): clear it now and then
        _S['lines'] = _S.get('lines', 0) + o.output.count(b'\n')
        if _S['lines'] > 16:
            s.execute(b'CLS')
            _S['lines'] = 0
    if o.errors:
        return ('err', [c for c, _ in o.errors])
    if 'cls' not in s.box:
        return ('err', [])
    if s.box['rest'] not in (b'', b'\0'):
        return ('trailing', s.box['rest'])
    return ('val', s.box['cls'], s.box['bytes'], o.value)


def decode_obs(obs):
    if obs[1] == '$':
        return obs[2].decode('latin-1')
    return mbf.decode(obs[2])


# ---------------------------------------------------------------------------------------------
# the oracle

def check_case(case):
    res = Result()
    tree = case['tree']
    rng = random.Random(case.get('r', 0))
    nops = count_ops(tree)
    full = full_tokens(tree)
    mini = minimal_tokens(tree)
    # self-checks of the printer against the reference parser (a failure here is a harness error)
    if ref_parse(full) != tree or ref_parse(mini) != tree:
        raise AssertionError('printer/reference parser disagree on %r' % (tree,))
    red = redundant_tokens(mini, rng)
    if ref_parse(red) != tree:
        raise AssertionError('redundant printing changes the reference parse of %r' % (tree,))
    if case.get('del') is not None:
        return check_dangling(case, res, tree, mini, nops)

    t_full, t_min, t_red = render(full), render(mini), render(red, rng)
    npar_full = sum(1 for k in full if k[0] == '(')
    npar_min = sum(1 for k in mini if k[0] == '(')
    matters = npar_min < npar_full and (npar_min > 0 or _needs_assoc(tree))
    res.nt(nops >= 3 and matters)
    res.label('ops.%s' % ('0-2' if nops < 3 else '3-6' if nops < 7 else '7-14' if nops < 15
                          else '15+'))
    res.label('depth.%d' % depth_of(tree))
    if max(len(t_full), len(t_min), len(t_red)) > 250:
        res.label('skipped.line-too-long')
        return res

    want = model_outcome(tree)
    # statement vs manual: unary minus just below ^, or on the row of binary + - ?
    try:
        alt = ref_parse(mini, UN_PREC_MANUAL)
    except ParseFail:
        alt = None
    if alt != tree:
        walt = model_outcome(alt) if alt is not None else ('unspec', 'noparse')
        ok = want[0] != 'unspec' and same_outcome(want, walt)
        if not ok and (want[0] != 'unspec' or walt[0] != 'unspec' or
                       any(o in ('\\', 'MOD') for o in ops_in(tree))):
            res.label('skipped.manual-vs-statement-unary-minus')
            return res
        res.label('unary-minus-reading-irrelevant')

    obs = {'full': observe(t_full), 'min': observe(t_min), 'red': observe(t_red)}
    texts = {'full': t_full, 'min': t_min, 'red': t_red}
    for k in ('full', 'min', 'red'):
        o = obs[k]
        if o[0] == 'budget':
            res.inconclusive = True
            return res
        if o[0] == 'escaped':
            res.fail('escaped.%s' % o[1], '%s -> %s\n%s' % (texts[k], o[1], o[2]))
            return res
        if o[0] == 'trailing':
            res.fail('parse.stops-early', '%s: expression ended before %r' % (texts[k], o[1]))
            return res
    # (a) metamorphic
    ref = obs['full']
    for k in ('min', 'red'):
        if obs[k][:3] != ref[:3]:
            res.fail('meta.%s-vs-full' % k, '%s -> %r  but  %s -> %r' % (
                texts[k], obs[k][:3], t_full, ref[:3]))
    if ref[0] == 'val':
        # the public value agrees with the value object
        py = ref[3]
        if ref[1] == '$':
            okpub = isinstance(py, bytes) and py == ref[2]
        elif ref[1] == 'I':
            okpub = isinstance(py, int) and not isinstance(py, bool) and py == mbf.decode(ref[2])
        else:
            okpub = isinstance(py, float) and Fraction(py) == (
                mbf.decode(ref[2]) if ref[1] == 'S' else Fraction(float(mbf.decode(ref[2]))))
        if not okpub:
            res.fail('public-value', '%s: evaluate() returned %r for %s %s' % (
                t_full, py, ref[1], ref[2].hex()))
    # (b) model
    o = obs['min']
    if want[0] == 'unspec':
        res.label('model.silent.%s' % want[1])
    elif want[0] == 'val':
        v = want[1]
        res.label('model.value.%s' % ''.join(sorted(v.types)))
        if o[0] != 'val':
            res.fail('model.unexpected-error', '%s: expected %r, got errors %r' % (t_min, v, o[1]))
        else:
            if o[1] not in v.types:
                res.fail('model.type.%s' % type_rule(tree), '%s: class %s, expected one of %s' % (
                    t_min, o[1], sorted(v.types)))
            got = decode_obs(o)
            if v.is_str != (o[1] == '$') or got != v.v:
                res.fail('model.value', '%s: value %r, expected %r' % (t_min, got, v.v))
    else:
        codes = want[1]
        res.label('model.error.%s' % '/'.join(str(c) for c in sorted(codes)))
        if o[0] != 'err' or not o[1]:
            res.fail('mismatch.no-error' if 13 in codes else 'model.error-missing',
                     '%s: expected error %s, got %r' % (t_min, sorted(codes), o[:3]))
        elif o[1][0] not in codes:
            res.fail('mismatch.wrong-error' if 13 in codes else 'model.error-code',
                     '%s: expected error %s, got %r' % (t_min, sorted(codes), o[1]))
    return res


def _needs_assoc(t):
    """Some binary node has a binary left child of equal precedence (grouping decides)."""
    if t[0] == 'L':
        return False
    if t[0] == 'U':
        return _needs_assoc(t[2])
    if t[2][0] == 'B' and BIN_PREC[t[2][1]] == BIN_PREC[t[1]]:
        return True
    return _needs_assoc(t[2]) or _needs_assoc(t[3])


def type_rule(t):
    """Name of the typing rule that decides the class of the root (bucket suffix)."""
    if t[0] == 'L':
        return 'leaf'
    if t[0] == 'U':
        return 'not' if t[1] == 'NOT' else 'unary-sign'
    op = t[1]
    if op in RELOPS:
        return 'relational'
    if op in LOGIC:
        return 'logical'
    if op in ('\\', 'MOD'):
        return 'intdiv-mod'
    if op == '/':
        return 'division'
    if op == '^':
        return 'power'
    return 'widest-operand'


# ---------------------------------------------------------------------------------------------
# (c) dangling operators

def pending_operators(toks, upto):
    """
    Operators still waiting for their right operand when position `upto` is reached, within the
    innermost parenthesis group containing it (reference precedences; unary operators wait too).
    """
    groups = [[]]
    for k in toks[:upto]:
        if k[0] == '(':
            groups.append([])
        elif k[0] == ')':
            groups.pop()
        elif k[0] == 'un':
            groups[-1].append(UN_PREC[k[1]])
        elif k[0] == 'bin':
            p = BIN_PREC[k[1]]
            st_ = groups[-1]
            while st_ and st_[-1] >= p:
                st_.pop()
            st_.append(p)
    return len(groups[-1])


def check_dangling(case, res, tree, mini, nops):
    want = model_outcome(tree)
    if want[0] != 'val':
        res.label('dangling.skipped.tree-not-error-free')
        return res
    leaves = [i for i, k in enumerate(mini) if k[0] == 'leaf']
    i = leaves[case['del'] % len(leaves)]
    prev = mini[i - 1] if i > 0 else ('start', None)
    nxt = mini[i + 1] if i + 1 < len(mini) else ('end', None)
    toks = mini[:i] + mini[i + 1:]
    text = render(toks)
    if nxt[0] == 'bin' and nxt[1] in ('+', '-'):
        res.label('dangling.skipped.becomes-unary')
        return res
    if prev[0] == 'bin' and nxt[0] == 'bin' and prev[1] in RELOPS and nxt[1] in RELOPS:
        res.label('dangling.skipped.relations-combine')
        return res
    if prev[0] in ('start', '(') and nxt[0] in ('end', ')'):
        res.label('dangling.skipped.empty')
        return res
    if nxt[0] == 'bin':
        allowed, cls = {2, 22}, 'no-left-operand'
    elif nxt[0] == 'end':
        allowed, cls = {22}, 'no-right-operand-at-end'
    else:
        allowed, cls = {2, 22}, 'no-right-operand-in-brackets'
    res.label('dangling.' + cls)
    res.nt(nops >= 3)
    # region of a confirmed defect: with two or more operators pending, the dangling operator is
    # applied to the left operand of the pending one before the missing operand is noticed
    misapplied = nxt[0] != 'bin' and pending_operators(mini, i) >= 2
    o = observe(text)
    if o[0] == 'budget':
        res.inconclusive = True
        return res
    if o[0] == 'escaped':
        res.fail('escaped.%s' % o[1], '%s -> %s\n%s' % (text, o[1], o[2]))
        return res
    good = o[0] == 'err' and o[1] and o[1][0] in allowed and len(o[1]) == 1
    if misapplied:
        res.label('dangling.two-operators-pending')
        if not good:
            if case.get('strict', True):         # fixed 5b77a5ff: asserted everywhere
                res.fail('dangling.operator-applied-to-outer-operand',
                         '%s: expected only error %s, got %r' % (text, sorted(allowed), o[:3]))
            else:
                res.excluded += 1
        return res
    if not good:
        res.fail('dangling.%s' % cls, '%s: expected only error %s, got %r' % (
            text, sorted(allowed), o[:3]))
    return res


# ---------------------------------------------------------------------------------------------
# generators: an integer genome is decoded into a tree (zeros decode to the simplest choices, so
# Hypothesis' shrinking of the integers shrinks the tree)

INT_SMALL = ['0', '1', '2', '3', '4', '5', '7', '8', '10', '12', '16', '3%', '9%', '&H7', '&O12',
             '6', '100', '15', '&HFF', '255']
INT_EDGE = ['32767', '32766', '&HFFFF', '&H8000', '256', '16384', '&O77777', '1000', '&H7FFF',
            '4096', '181', '182']
SNG = ['0.5', '1.25', '2.75', '2.25', '0.125', '3.75', '10.5', '2!', '3!', '1!', '0!', '4!', '8!',
       '.25', '6.25!', '7.625', '100.75', '.0625']
SNG_EDGE = ['32768', '32767.5', '32768.25', '40000', '65535', '65536', '65535.5', '100000',
            '32767.25!', '1048576!', '32768.75']
DBL = ['0.5#', '1.5#', '2#', '3#', '1#', '0#', '2.25#', '4#', '0.125#', '10.75#', '16777217#',
       '1099511627776.5#', '3.0000152587890625#', '1234567.0078125#']
STRS = ['a', 'b', 'ab', '', 'A', ' ', 'abc', 'aa', 'B', 'a b']
POW2 = ['2', '4', '8', '0.5', '2!', '16', '0.25', '4#', '2#', '1']
SMALL_EXP = ['2', '0', '1', '3', '4', '2%', '3', '5', '2#', '1!', '&H2', '6']
NUMVARS = [v for v in sorted(VARS) if VARS[v][0] != '$']
STRVARS = [v for v in sorted(VARS) if VARS[v][0] == '$']
LEAF_AT = {6: 0, 5: 1, 4: 3, 3: 6, 2: 8, 1: 11, 0: 16}      # leaf if take(16) < LEAF_AT[remaining]


def _lit(text):
    if text.startswith('&') or text.endswith('%'):
        return ['L', 'I', text]
    if text.endswith('#'):
        return ['L', 'D', text]
    if text.endswith('!') or '.' in text:
        return ['L', 'S', text]
    return ['L', 'I' if int(text) <= 32767 else 'S', text]


class Genome(object):
    def __init__(self, data, inject=0, maxdepth=6):
        self.d = data
        self.i = 0
        self.inject = inject
        self.maxdepth = maxdepth
        self.injected = 0

    def take(self, n):
        v = self.d[self.i] if self.i < len(self.d) else 0
        self.i += 1
        return v % n

    def pick(self, seq):
        return seq[self.take(len(seq))]

    def numleaf(self):
        k = self.take(10)
        if k < 3:
            return _lit(self.pick(INT_SMALL))
        if k < 5:
            return _lit(self.pick(SNG))
        if k == 5:
            return _lit(self.pick(DBL))
        if k == 6:
            return ['L', 'V', self.pick(NUMVARS)]
        if k == 7:
            return _lit(self.pick(INT_EDGE))
        if k == 8:
            return _lit(self.pick(SNG_EDGE))
        return _lit(self.pick(INT_SMALL))

    def strleaf(self):
        if self.take(4) == 3:
            return ['L', 'V', self.pick(STRVARS)]
        return ['L', '$', self.pick(STRS)]

    def swap(self):
        """In mismatch mode: replace the operand kind asked for by the other one, sometimes."""
        if self.inject and self.take(16) < self.inject:
            self.injected += 1
            return True
        return False

    def num(self, rem, root=False):
        if not root:
            if self.swap():
                return self.str_(min(rem, 1), inj=False)
            if self.take(16) < LEAF_AT[rem]:
                return self.numleaf()
        k = self.take(16)
        if k < 7:
            op = self.pick(ARITH)
            left = self.num(rem - 1)
            shape = self.take(4)
            if op == '/' and shape < 2:
                right = _lit(self.pick(POW2))
            elif op == '^' and shape < 3:
                right = _lit(self.pick(SMALL_EXP))
            elif op in ('\\', 'MOD') and shape < 2:
                right = _lit(self.pick(INT_SMALL[1:]))
            else:
                right = self.num(rem - 1)
            return ['B', op, left, right]
        if k < 9:
            return ['B', self.pick(RELOPS), self.num(rem - 1), self.num(rem - 1)]
        if k == 9:
            return ['B', self.pick(RELOPS), self.str_(min(rem - 1, 2)), self.str_(min(rem - 1, 2))]
        if k < 13:
            return ['B', self.pick(LOGIC), self.num(rem - 1), self.num(rem - 1)]
        return ['U', self.pick(['-', 'NOT', '-', '+', 'NOT']), self.num(rem - 1)]

    def str_(self, rem, inj=True):
        if inj and self.swap():
            return self.numleaf()
        if rem <= 0 or self.take(4) < 2:
            return self.strleaf()
        return ['B', '+', self.str_(rem - 1), self.str_(rem - 1)]


GENOME_LEN = 160


def _genome():
    return st.binary(min_size=GENOME_LEN, max_size=GENOME_LEN)


def strat_trees():
    def build(data, r, rem):
        g = Genome(data)
        return {'tree': g.num(rem, root=True), 'r': r}
    return st.builds(build, _genome(), st.integers(0, 2 ** 31), st.sampled_from([6, 6, 5, 4, 3]))


def strat_mismatch():
    def build(data, r, inj, rem):
        g = Genome(data, inject=inj)
        tree = g.num(rem, root=True)
        if not g.injected:
            # force one swap at the right end so that the unit never produces a type-correct tree
            tree = ['B', g.pick(ARITH + LOGIC + RELOPS), tree, g.strleaf()]
        return {'tree': tree, 'r': r}
    return st.builds(build, _genome(), st.integers(0, 2 ** 31), st.integers(1, 3),
                     st.integers(2, 5))


def strat_dangling():
    def build(data, r, k, rem):
        g = Genome(data)
        return {'tree': g.num(rem, root=True), 'r': r, 'del': k}
    return st.builds(build, _genome(), st.integers(0, 2 ** 31), st.integers(0, 63),
                     st.integers(2, 4))


def units(tier):
    return [
        Unit('trees', 'hyp', shards=16, examples={'quick': 2000, 'thorough': 60000},
             strategy=strat_trees),
        Unit('mismatch', 'hyp', shards=16, examples={'quick': 400, 'thorough': 8000},
             strategy=strat_mismatch),
        Unit('dangling', 'hyp', shards=16, examples={'quick': 600, 'thorough': 12000},
             strategy=strat_dangling),
    ]


def _t(op, a, b):
    return ['B', op, a, b]


REGRESSIONS = [
    # fixed 916ec638: 1 IMP "a" escaped with AttributeError from values.imp_
    {'tree': _t('IMP', _lit('1'), ['L', '$', 'a']), 'r': 0},
    # -2^2 = -(2^2); 2^-2^2 = 2^(-(2^2)); chained relations group left to right
    {'tree': ['U', '-', _t('^', _lit('2'), _lit('2'))], 'r': 1},
    {'tree': _t('^', _lit('2'), ['U', '-', _t('^', _lit('2'), _lit('2'))]), 'r': 2},
    {'tree': _t('<', _t('<', _lit('3'), _lit('2')), _lit('1')), 'r': 3},
    {'tree': _t('+', _lit('1'), ['U', 'NOT', _t('+', _lit('2'), _lit('3'))]), 'r': 4},
    {'tree': _t('IMP', _t('EQV', _t('XOR', _t('OR', _lit('1'), _lit('2')), _lit('3')), _lit('4')),
                _lit('5')), 'r': 5},
    {'tree': _t('MOD', _lit('7'), _t('\\', _lit('9'), _lit('2'))), 'r': 6},
    # fixed 5b77a5ff: PRINT 1 OR 0/ printed Division by zero before Missing operand
    {'tree': _t('OR', _lit('1'), _t('/', _lit('0'), _lit('2'))), 'r': 0, 'del': 2, 'strict': True},
    # fixed 5b77a5ff: 2>1 AND "a"< reported Type mismatch instead of Missing operand
    {'tree': _t('AND', _t('>', _lit('2'), _lit('1')), _t('<', ['L', '$', 'a'], ['L', '$', 'b'])),
     'r': 0, 'del': 3, 'strict': True},
    # fixed 5b77a5ff: (1 AND 40000\) reported Overflow instead of Syntax error
    {'tree': _t('*', _lit('2'), _t('AND', _lit('1'), _t('\\', _lit('40000'), _lit('2')))),
     'r': 0, 'del': 3, 'strict': True},
]

KILLS = [
    "operators.py PRECEDENCE \\ 10 -> 9 (same level as MOD) -> meta.min-vs-full, meta.red-vs-full",
    "operators.py PRECEDENCE MOD 9 -> 10.5 (above \\) -> meta.min-vs-full, model.value, model.error-code",
    "operators.py PRECEDENCE XOR 3 -> 4.5 (above OR) -> meta.min-vs-full, model.value",
    "operators.py PRECEDENCE EQV 2 -> 0.5 (below IMP) -> meta.min-vs-full, model.value (regression 1 OR 2 XOR 3 EQV 4 IMP 5)",
    "operators.py PRECEDENCE AND 5 -> 6.5 (above NOT) -> meta.min-vs-full, model.value, model.type.logical",
    "operators.py PRECEDENCE unary minus 12 -> 14 (above ^) -> meta.min-vs-full, model.value (regression -2^2)",
    "operators.py PRECEDENCE NOT 6 -> 12 (like unary minus) -> meta.*, model.value, model.type.* (regression 1+NOT 2+3)",
    "expressions.py _drain 'precedence > top' -> '>=' (right-to-left grouping) -> meta.*, model.value (regression 3<2<1)",
    "operators.py BINARY '=>' -> values.lte -> model.value, model.error-*",
    "values.py from_bool returns Single -1 -> model.type.relational",
    "values.py match_types ignores a Double right operand -> model.type.widest-operand, model.value",
    "values.py div returns Integer for divisible integers -> model.type.division",
    "values.py neg promotes to Double -> model.type.unary-sign, model.type.division, model.type.widest-operand",
    "values.py imp_ fix 916ec638 reverted -> escaped.AttributeError@values.py:imp_ (regression 1 IMP \"a\")",
    "values.py sub raises Illegal function call for a string operand -> mismatch.wrong-error",
    "SURVIVED (equivalent): XOR and EQV on one level or swapped (a XOR b EQV c is associative across the "
    "two operators: both groupings equal NOT(a XOR b XOR c)); unary plus at precedence 8 (identity); "
    "dropping 'or d == tk.NOT' in parse (implied by the preceding branch)",
    "fix 5b77a5ff reverted (expressions.py as in the snapshot) -> dangling.operator-applied-to-outer-"
    "operand (regressions and random 'dangling' unit)",
]
