"""
C25 - random-access files behave as arrays of fixed-length records.

Stateful model-based check. A case is a header (record length, FIELD layout and pre-existing
records for each of three host files) plus a list of operations on file numbers 1..3; `check_case`
interprets the list against a fresh session and against a byte-image model of every host file and
compares after every step.

Model (independent of the code under test): per host file a `bytearray` image whose length is always
a multiple of the record length L (`hi = len(image) // L`); per open file number the record buffer
(as far as its content is defined by the history), the FIELD layout and `loc` = number of the last
record accessed (0 after OPEN). PUT r writes the buffer at (r-1)*L, zero-extending; GET r reads the
L bytes at (r-1)*L, zeros where the image ends; an omitted record number means loc+1.
"""
import os

from hypothesis import strategies as st

from vlib.core import Result, Unit
from vlib import harness

ID = 'C25'
LEVEL = 'exploration'
TECHNIQUE = ("Hypothesis operation sequences (OPEN/FIELD/LSET/RSET/PUT/GET/LOF/LOC/CLOSE over 3 file "
             "numbers and 3 host files) vs. an independent byte-image model; host file bytes compared")
RULE = ("Histories of up to 40 (quick) / 120 (thorough) operations over file numbers 1-3 and three "
        "host files with record lengths 1..128 (boundary-weighted), FIELD layouts partitioning the "
        "record, pre-existing records, LSET/RSET of arbitrary byte strings, PUT/GET with explicit "
        "(absolute, relative to the highest record: inside, last, last+1, gaps), implicit and "
        "out-of-range record numbers, re-FIELD, LOF/LOC queries, CLOSE and re-OPEN under other "
        "numbers/capitalisations/syntaxes. Non-trivial: the history contains a PUT beyond hi+1 (a "
        "gap) followed by a GET inside the gap or of that record, or a GET of a record written "
        "before a CLOSE/re-OPEN. Distinct = distinct case hash.")
ASSUMPTIONS = [
    "each host file keeps one record length for the whole case (the statement's 'highest record "
    "written' is undefined for mixed lengths)",
    "the content of a record buffer right after OPEN is unspecified: the check fills every FIELD "
    "variable before the first PUT of a freshly opened number unless a GET defined the buffer",
    "record numbers 2^25+1 and 2^25+2 round to 2^25 in single precision (manual note): either Bad "
    "record number or access to record 2^25 is accepted; all other integers are asserted exactly",
    "only integral record numbers; large record numbers (> 2000) are used with GET only (PUT there "
    "would create files of up to 4 GiB)",
    "GET beyond the highest record: null bytes (manual), reported under its own key",
    "FIELD widths always fit the record (FIELD overflow is not part of the statement)",
    "two numbers open on the same host file at the same time (allowed by the manual: 'a file may be "
    "opened multiple times for INPUT or RANDOM') are modelled as one shared write-through image; "
    "generated only while the finding 'alias.*' is not present on the tree",
]

MAXREC = 2 ** 25
FILES = ['RA.DAT', 'RB.DAT', 'RC']
BIG_OK = [32767, 32768, 65536, 100000, 16777215, 16777216, 16777218, 33554430, 33554432]
BAD = ['0', '-1', '-32768', '-33554432', '33554435', '33554436', '4294967296', '1E10', '-1E10',
       '1E38', '67108864']
EITHER = ['33554433', '33554434']

# ------------------------------------------------------------------------------------------------
# known-defect regions (AUTHORING 6): each has its own key, a directed regression, and a predicate.
# Generated cases skip an operation that falls into a region *while the defect is present on the
# tree* (probed once per process through the regression case); once it is fixed the region is
# searched like everything else and any mismatch there reports under the region's key.

K_PUTGAP = 'put.gap.small-file'
K_IMPPUT = 'put.implicit-after-get-at-eof'
K_ALIAS = 'alias'

REG_PUTGAP = {
    'known': True, 'alias': False, 'lens': [2, 2, 2], 'layouts': [[2], [2], [2]], 'pre': [0, 0, 0],
    'ops': [{'o': 'open', 'n': 0, 'f': 0, 'syn': 0, 'lc': False},
            {'o': 'set', 'n': 0, 'fld': 0, 'v': '11', 'r': False},
            {'o': 'put', 'n': 0, 'm': 'abs', 'd': 1},
            {'o': 'set', 'n': 0, 'fld': 0, 'v': '55', 'r': False},
            {'o': 'put', 'n': 0, 'm': 'abs', 'd': 5},
            {'o': 'get', 'n': 0, 'm': 'abs', 'd': 5},
            {'o': 'get', 'n': 0, 'm': 'abs', 'd': 4},
            {'o': 'q', 'n': 0}]}
REG_IMPPUT = {
    'known': True, 'alias': False, 'lens': [4, 4, 4], 'layouts': [[4], [4], [4]], 'pre': [2, 0, 0],
    'ops': [{'o': 'open', 'n': 0, 'f': 0, 'syn': 1, 'lc': False},
            {'o': 'get', 'n': 0, 'm': 'abs', 'd': 3},
            {'o': 'set', 'n': 0, 'fld': 0, 'v': 'XXXX', 'r': False},
            {'o': 'put', 'n': 0, 'm': 'imp', 'd': 0},
            {'o': 'q', 'n': 0}]}
REG_ALIAS = {
    'known': True, 'alias': True, 'lens': [4, 4, 4], 'layouts': [[4], [4], [4]], 'pre': [0, 0, 0],
    'ops': [{'o': 'open', 'n': 0, 'f': 0, 'syn': 0, 'lc': False},
            {'o': 'open', 'n': 0, 'f': 0, 'syn': 1, 'lc': True},
            {'o': 'set', 'n': 0, 'fld': 0, 'v': 'abcd', 'r': False},
            {'o': 'put', 'n': 0, 'm': 'abs', 'd': 1},
            {'o': 'get', 'n': 1, 'm': 'abs', 'd': 1}]}
REG_ALIAS2 = {
    'known': True, 'alias': True, 'lens': [4, 4, 4], 'layouts': [[4], [4], [4]], 'pre': [2, 0, 0],
    'ops': [{'o': 'open', 'n': 0, 'f': 0, 'syn': 0, 'lc': False},
            {'o': 'open', 'n': 0, 'f': 0, 'syn': 0, 'lc': False},
            {'o': 'get', 'n': 1, 'm': 'abs', 'd': 3},
            {'o': 'set', 'n': 0, 'fld': 0, 'v': '1111', 'r': False},
            {'o': 'put', 'n': 0, 'm': 'abs', 'd': 5},
            {'o': 'q', 'n': 0},
            {'o': 'set', 'n': 1, 'fld': 0, 'v': '2222', 'r': False},
            {'o': 'put', 'n': 1, 'm': 'imp', 'd': 0},
            {'o': 'q', 'n': 1}]}
_REG = {K_PUTGAP: REG_PUTGAP, K_IMPPUT: REG_IMPPUT, K_ALIAS: REG_ALIAS}
_PRESENT = {}


def defect_present(key):
    """Is the known defect `key` present on the tree under test? (cached per process)"""
    if key not in _PRESENT:
        _PRESENT[key] = None      # recursion guard (regression cases never ask)
        r = check_case(_REG[key])
        _PRESENT[key] = any(k == key or k.startswith(key + '.') for k in r.keys())
    return bool(_PRESENT[key])


# ------------------------------------------------------------------------------------------------

def pre_record(f, r, reclen):
    """Content of pre-existing record r (1-based) of file index f."""
    return bytes(((f * 53 + r * 17 + j * 5 + 33) & 0x7f) | 0x20 for j in range(reclen))


def fill_value(step, n, i, w):
    return bytes((step * 7 + n * 29 + i * 13 + j * 3 + 1) & 0xff for j in range(w))


def varname(n, i):
    return '%s%d$' % ('ABCDEFGH'[i], n)


def offsets(widths):
    out, off = [], 0
    for w in widths:
        out.append((off, w))
        off += w
    return out


def norm_layout(widths, reclen):
    """Make a list of widths a partition of the whole record (clip, then add the remainder)."""
    out, left = [], reclen
    for w in widths[:6]:
        w = max(0, min(int(w), left))
        out.append(w)
        left -= w
    if left or not out:
        out.append(left)
    return out


class Num(object):
    """Model of one open file number."""

    def __init__(self, f, layout):
        self.f = f
        self.layout = layout          # [(offset, width)]
        self.buf = None               # bytearray(reclen) once defined
        self.loc = 0
        self.stale = False            # last access was a GET at or beyond the end of the file
        self.reopen_epoch = 0


class Run(object):
    """One execution of a case."""

    def __init__(self, case, res):
        self.case = case
        self.res = res
        self.known = bool(case.get('known'))
        self.alias = bool(case.get('alias'))
        self.lens = [max(1, min(128, int(x))) for x in case['lens']]
        self.layouts = [norm_layout(case['layouts'][i], self.lens[i]) for i in range(3)]
        self.images = [bytearray() for _ in range(3)]
        self.nums = {}                # number -> Num
        self.stop = False
        self.step = 0
        # non-triviality bookkeeping
        self.gap_recs = [set() for _ in range(3)]      # records in a gap or written beyond hi+1
        self.old_recs = [set() for _ in range(3)]      # records written before the last close
        self.cur_recs = [set() for _ in range(3)]      # records written since
        self.prefix = 'alias.' if self.alias else ''

    # -- plumbing ---------------------------------------------------------------------------

    def fail(self, key, msg):
        self.res.fail(self.prefix + key, 'step %d: %s' % (self.step, msg))

    def ex(self, text, what):
        """Execute; returns Outcome or None when the case cannot continue."""
        o = self.s.execute(text)
        if o.kind == 'budget':
            self.res.inconclusive = True
            self.stop = True
            return None
        if o.kind != 'ok':
            self.fail('escaped.%s@%s' % (o.exc, o.frame), '%s: %r\n%s' % (what, text, o.tb))
            self.stop = True
            return None
        return o

    def ev(self, expr):
        o = self.s.evaluate(expr)
        if o.kind == 'budget':
            self.res.inconclusive = True
            self.stop = True
            return None
        if o.kind != 'ok':
            self.fail('escaped.%s@%s' % (o.exc, o.frame), '%r\n%s' % (expr, o.tb))
            self.stop = True
            return None
        if o.errors:
            self.fail('unexpected-error.query', '%s -> error %r' % (expr, o.errors))
            self.stop = True
            return None
        return o.value

    def host(self, f):
        try:
            with open(os.path.join(self.s.sandbox.z, FILES[f]), 'rb') as fh:
                return fh.read()
        except FileNotFoundError:
            return None

    def pick_open(self, k):
        nums = sorted(self.nums)
        if not nums:
            return None
        return nums[k % len(nums)]

    def is_aliased(self, f):
        return sum(1 for m in self.nums.values() if m.f == f) > 1

    # -- checks -----------------------------------------------------------------------------

    def check_fields(self, n, key, what):
        m = self.nums[n]
        if m.buf is None:
            return
        for i, (off, w) in enumerate(m.layout):
            got = self.s.get(varname(n, i))
            exp = bytes(m.buf[off:off + w])
            if got != exp:
                self.fail(key, '%s: #%d field %s = %r, expected %r' % (
                    what, n, varname(n, i), got, exp))
                return

    def check_loc(self, n, what):
        m = self.nums[n]
        v = self.ev('LOC(%d)' % n)
        if v is None:
            return
        if v != m.loc:
            self.fail('loc', '%s: LOC(%d) = %r, expected %d' % (what, n, v, m.loc))

    def check_lof_host(self, n, what, key_lof='lof', key_host='host.image'):
        """LOF == record length x highest record == host size; host bytes == image."""
        m = self.nums[n]
        img = self.images[m.f]
        v = self.ev('LOF(%d)' % n)
        if v is None:
            return False
        ok = True
        if v != len(img):
            self.fail(key_lof, '%s: LOF(%d) = %r, expected %d x %d = %d' % (
                what, n, v, self.lens[m.f], len(img) // self.lens[m.f], len(img)))
            ok = False
        # LOF goes through a seek to the end on the (buffered) host stream, which writes out
        # everything pending on *this* number; with a second number open on the file, its pending
        # data may legitimately still be in flight only if the implementation is not write-through
        hb = self.host(m.f)
        if hb is None or hb != bytes(img):
            self.fail(key_host, '%s: host file %s holds %r, model image %r' % (
                what, FILES[m.f], _short(hb), _short(bytes(img))))
            ok = False
        return ok

    # -- operations -------------------------------------------------------------------------

    def do_open(self, op):
        closed = [n for n in (1, 2, 3) if n not in self.nums]
        if not closed:
            self.res.label('skip:open-all-numbers-used')
            return
        n = closed[op['n'] % len(closed)]
        f = op['f'] % 3
        if not self.alias:
            busy = {m.f for m in self.nums.values()}
            free = [g for g in range(3) if g not in busy]
            if not free:
                self.res.label('skip:open-no-free-file')
                return
            if f in busy:
                f = free[op['f'] % len(free)]
        name = FILES[f]
        if op.get('lc'):
            name = name.lower()
        L = self.lens[f]
        syn = op.get('syn', 0) % 4
        if syn == 0:
            text = 'OPEN "R",#%d,"%s",%d' % (n, name, L)
        elif syn == 1:
            text = 'OPEN "%s" FOR RANDOM AS #%d LEN=%d' % (name, n, L)
        elif syn == 2:
            text = 'OPEN "Z:%s" AS %d LEN=%d' % (name, n, L)
        else:
            text = 'OPEN "r",%d,"%s",%d' % (n, name, L)
        if L == 128 and op.get('nolen'):
            text = 'OPEN "%s" AS #%d' % (name, n)
        o = self.ex(text, 'open')
        if o is None:
            return
        if o.errors:
            self.fail('unexpected-error.open', '%s -> %r' % (text, o.errors))
            self.stop = True
            return
        m = Num(f, offsets(self.layouts[f]))
        self.nums[n] = m
        self.res.label('op:open')
        if self.is_aliased(f):
            self.res.label('aliased-open')
        if not self.field(n, m.layout):
            return
        self.check_loc(n, 'after OPEN')

    def field(self, n, layout):
        parts = ','.join('%d AS %s' % (w, varname(n, i)) for i, (off, w) in enumerate(layout))
        text = 'FIELD #%d,%s' % (n, parts)
        o = self.ex(text, 'field')
        if o is None:
            return False
        if o.errors:
            self.fail('unexpected-error.field', '%s -> %r' % (text, o.errors))
            self.stop = True
            return False
        return True

    def do_field(self, op):
        n = self.pick_open(op['n'])
        if n is None:
            return
        m = self.nums[n]
        L = self.lens[m.f]
        lay = offsets(norm_layout(op['w'], L))
        if not self.field(n, lay):
            return
        m.layout = lay
        self.res.label('op:refield')
        self.check_fields(n, 'field.value', 'after re-FIELD')

    def set_field(self, n, i, val, right):
        m = self.nums[n]
        off, w = m.layout[i]
        self.s.set('V$', val)
        text = '%s %s=V$' % ('RSET' if right else 'LSET', varname(n, i))
        o = self.ex(text, 'set')
        if o is None:
            return False
        if o.errors:
            self.fail('unexpected-error.lset', '%s (V$=%r) -> %r' % (text, val, o.errors))
            self.stop = True
            return False
        v = val[:w]
        v = v.rjust(w, b' ') if right else v.ljust(w, b' ')
        m.buf[off:off + w] = v
        return True

    def define_buffer(self, n):
        """Make the record buffer of a freshly opened number defined by setting every field."""
        m = self.nums[n]
        if m.buf is not None:
            return True
        L = self.lens[m.f]
        m.buf = bytearray(L)
        for i, (off, w) in enumerate(m.layout):
            if not self.set_field(n, i, fill_value(self.step, n, i, w), False):
                return False
        self.res.label('buffer-filled')
        return True

    def do_set(self, op):
        n = self.pick_open(op['n'])
        if n is None:
            return
        m = self.nums[n]
        if not self.define_buffer(n):
            return
        i = op['fld'] % len(m.layout)
        val = op['v'].encode('latin-1')[:255]
        if not self.set_field(n, i, val, bool(op.get('r'))):
            return
        self.res.label('op:rset' if op.get('r') else 'op:lset')
        self.check_fields(n, 'field.value', 'after %s' % ('RSET' if op.get('r') else 'LSET'))

    def recno(self, n, op):
        """-> (record number or None if the op must be skipped, implicit?)"""
        m = self.nums[n]
        L = self.lens[m.f]
        hi = len(self.images[m.f]) // L
        mode = op.get('m', 'abs')
        d = int(op.get('d', 0))
        if mode == 'imp':
            r = m.loc + 1
            # LOC is a single-precision value: beyond 2^24 the successor is not representable
            return (r if r <= 2 ** 24 else None), True
        if mode in ('wr', 'gap'):
            written = self.cur_recs[m.f] | self.old_recs[m.f]
            cand = sorted(written if mode == 'wr' else self.gap_recs[m.f] - written)
            if cand:
                return cand[d % len(cand)], False
            mode = 'in'
        if mode == 'in':
            return (1 + d % hi if hi else 1), False
        if mode == 'hi':
            return max(1, hi + d), False
        if mode == 'big':
            return BIG_OK[d % len(BIG_OK)], False
        return max(1, d), False

    def do_put(self, op):
        n = self.pick_open(op['n'])
        if n is None:
            return
        m = self.nums[n]
        f = m.f
        L = self.lens[f]
        img = self.images[f]
        r, implicit = self.recno(n, op)
        if r is None or r > 2000:
            self.res.label('skip:put-too-far')
            return
        hi = len(img) // L
        region = None
        if implicit and m.stale:
            region = K_IMPPUT
        elif L > 1 and 0 < len(img) < r - 1:
            region = K_PUTGAP
        if region and not self.known and defect_present(region):
            self.res.excluded += 1
            self.res.label('excluded:' + region)
            return
        if not self.define_buffer(n):
            return
        text = 'PUT #%d' % n if implicit else 'PUT #%d,%d' % (n, r)
        o = self.ex(text, 'put')
        if o is None:
            return
        if o.errors:
            self.fail('unexpected-error.put', '%s -> %r' % (text, o.errors))
            self.stop = True
            return
        # model
        end = (r - 1) * L
        if len(img) < end:
            img.extend(bytes(end - len(img)))
        img[end:end + L] = m.buf
        m.loc = r
        m.stale = False
        if r > hi + 1:
            self.gap_recs[f].update(range(hi + 1, r + 1))
            self.res.label('put:gap')
        elif r == hi + 1:
            self.res.label('put:append')
        else:
            self.res.label('put:overwrite')
        self.cur_recs[f].add(r)
        self.res.label('op:put-implicit' if implicit else 'op:put')
        what = '%s (L=%d, hi was %d)' % (text, L, hi)
        if region:
            self.res.label('region:' + region)
            # verify at once so that a failure here is attributed to the region's own key
            before = len(self.res.fails)
            self.check_loc(n, what)
            if not self.stop:
                self.check_lof_host(n, what, key_lof=region, key_host=region)
            if len(self.res.fails) > before:
                self.stop = True
            return
        self.check_loc(n, what)

    def do_get(self, op):
        n = self.pick_open(op['n'])
        if n is None:
            return
        m = self.nums[n]
        f = m.f
        L = self.lens[f]
        img = self.images[f]
        r, implicit = self.recno(n, op)
        if r is None:
            self.res.label('skip:get-implicit-past-max')
            return
        text = 'GET #%d' % n if implicit else 'GET #%d,%d' % (n, r)
        o = self.ex(text, 'get')
        if o is None:
            return
        if o.errors:
            self.fail('unexpected-error.get', '%s -> %r' % (text, o.errors))
            self.stop = True
            return
        hi = len(img) // L
        rec = bytes(img[(r - 1) * L:r * L]).ljust(L, b'\0')
        m.buf = bytearray(rec)
        m.loc = r
        m.stale = (r - 1) * L >= len(img)
        if r > hi:
            key = 'get.beyond-end'
            self.res.label('get:beyond-hi')
        elif r in self.cur_recs[f] or r in self.old_recs[f] or not (r in self.gap_recs[f]):
            key = 'get.data'
            self.res.label('get:written' if (r in self.cur_recs[f] or r in self.old_recs[f])
                           else 'get:pre-existing')
        else:
            key = 'get.gap-nonzero'
            self.res.label('get:in-gap')
        if r in self.gap_recs[f]:
            self.res.nt(True)
        if r in self.old_recs[f] and r not in self.cur_recs[f]:
            self.res.nt(True)
            self.res.label('get:after-reopen')
        self.res.label('op:get-implicit' if implicit else ('op:get-big' if r > 2000 else 'op:get'))
        what = '%s (L=%d, hi=%d)' % (text, L, hi)
        self.check_fields(n, key, what)
        self.check_loc(n, what)

    def do_bad(self, op):
        n = self.pick_open(op['n'])
        if n is None:
            return
        m = self.nums[n]
        stmt = 'PUT' if op.get('w') == 'put' else 'GET'
        either = bool(op.get('either')) and stmt == 'GET'
        lst = EITHER if either else BAD
        txt = lst[op['r'] % len(lst)]
        text = '%s #%d,%s' % (stmt, n, txt)
        o = self.ex(text, 'bad')
        if o is None:
            return
        self.res.label('op:bad-recno-either' if either else 'op:bad-recno')
        if either and not o.errors:
            # accepted as record 2^25 (single-precision rounding, documented)
            L = self.lens[m.f]
            m.buf = bytearray(L)
            m.loc = MAXREC
            m.stale = True
            self.check_fields(n, 'get.beyond-end', text)
            self.check_loc(n, text)
            return
        if o.err != 63:
            self.fail('recno.range', '%s -> %r, expected Bad record number' % (text, o.errors or 'no error'))
            self.stop = not o.errors
            return
        # nothing changed
        self.check_loc(n, 'after rejected ' + text)
        self.check_fields(n, 'recno.side-effect', 'after rejected ' + text)

    def do_query(self, op):
        n = self.pick_open(op['n'])
        if n is None:
            return
        self.res.label('op:query')
        self.check_loc(n, 'query')
        if not self.stop:
            self.check_lof_host(n, 'query')

    def do_close(self, op):
        n = self.pick_open(op['n'])
        if n is None:
            return
        self.close_number(n, '' if op.get('bare') else '#')

    def close_number(self, n, hash_):
        m = self.nums[n]
        f = m.f
        o = self.ex('CLOSE %s%d' % (hash_, n), 'close')
        if o is None:
            return
        if o.errors:
            self.fail('unexpected-error.close', 'CLOSE %d -> %r' % (n, o.errors))
            self.stop = True
            return
        del self.nums[n]
        self.res.label('op:close')
        self.old_recs[f] |= self.cur_recs[f]
        self.cur_recs[f] = set()
        if not any(x.f == f for x in self.nums.values()):
            hb = self.host(f)
            if hb != bytes(self.images[f]):
                self.fail('host.image', 'after CLOSE #%d: host file %s holds %r, model image %r' % (
                    n, FILES[f], _short(hb), _short(bytes(self.images[f]))))

    # -- driver -----------------------------------------------------------------------------

    def run(self):
        if self.alias and not self.known and defect_present(K_ALIAS):
            self.res.excluded += 1
            self.res.label('excluded:alias-case')
            return
        with harness.Sess(budget=20000) as s:
            self.s = s
            for f in range(3):
                npre = max(0, min(6, int(self.case['pre'][f])))
                if npre:
                    data = b''.join(pre_record(f, r, self.lens[f]) for r in range(1, npre + 1))
                    with open(os.path.join(s.sandbox.z, FILES[f]), 'wb') as fh:
                        fh.write(data)
                    self.images[f] = bytearray(data)
            table = {'open': self.do_open, 'close': self.do_close, 'set': self.do_set,
                     'put': self.do_put, 'get': self.do_get, 'bad': self.do_bad,
                     'q': self.do_query, 'field': self.do_field}
            for i, op in enumerate(self.case['ops']):
                self.step = i
                table[op['o']](op)
                if self.stop:
                    break
            if not self.stop:
                self.step = len(self.case['ops'])
                for n in sorted(self.nums):
                    if self.stop:
                        break
                    self.close_number(n, '#')
            if not self.stop:
                for f in range(3):
                    hb = self.host(f)
                    img = bytes(self.images[f])
                    if (hb or b'') != img:
                        self.fail('host.image', 'at end: host file %s holds %r, model image %r' % (
                            FILES[f], _short(hb), _short(img)))
            # files on the host: nothing but the three data files
            extra = sorted(set(os.listdir(s.sandbox.z)) - set(FILES))
            if extra:
                self.fail('host.extra-files', 'unexpected host files %r' % extra)


def _short(b):
    if b is None:
        return None
    if len(b) <= 160:
        return b
    return b[:80] + b'...(%d bytes)...' % len(b) + b[-60:]


def check_case(case):
    res = Result()
    Run(case, res).run()
    return res


# ------------------------------------------------------------------------------------------------
# generators

def strat_case(maxops, alias=False):
    reclen = st.one_of(st.integers(1, 8), st.sampled_from([1, 2, 3, 16, 31, 32, 33, 64, 127, 128]),
                       st.integers(1, 128))
    widths = st.lists(st.one_of(st.integers(0, 6), st.integers(0, 128)), min_size=1, max_size=5)
    k = st.integers(0, 5)
    val = st.one_of(
        st.text(alphabet=st.characters(min_codepoint=0, max_codepoint=255), max_size=12),
        st.text(alphabet=st.sampled_from('ab" ,\x00\x1a\r\n\xff'), max_size=6),
        st.text(alphabet=st.characters(min_codepoint=32, max_codepoint=126), min_size=100,
                max_size=140),
    )
    def sel(mode, dstrat):
        return st.builds(lambda d: {'m': mode, 'd': d}, dstrat)

    imp = st.just({'m': 'imp', 'd': 0})
    rel = sel('hi', st.sampled_from([-3, -2, -1, 0, 0, 1, 1, 2, 2, 3, 4, 5, 7, 9, 17, 40]))
    small = sel('abs', st.integers(1, 12))
    edge = sel('abs', st.sampled_from([1, 2, 127, 128, 129, 255, 256, 257, 600, 1999, 2000]))
    inside = sel('in', st.integers(0, 60))
    wr = sel('wr', st.integers(0, 60))
    gap = sel('gap', st.integers(0, 60))
    big = sel('big', st.integers(0, len(BIG_OK) - 1))
    def weighted(*pairs):
        # (one_of() drops repeated branches, so weights go through sampled_from + flatmap)
        table = [strat for strat, wgt in pairs for _ in range(wgt)]
        return st.integers(0, len(table) - 1).flatmap(lambda i: table[i])

    putsel = weighted((rel, 3), (small, 1), (edge, 1), (imp, 2), (wr, 1), (gap, 1))
    getsel = weighted((rel, 1), (small, 1), (inside, 2), (wr, 3), (gap, 3), (imp, 2), (big, 1))

    def mk(o, **kw):
        def build(**vals):
            d = {'o': o}
            for key, v in vals.items():
                if key == 'sel':
                    d.update(v)
                else:
                    d[key] = v
            return d
        return st.builds(build, **kw)

    op_open = mk('open', n=k, f=k, syn=st.integers(0, 3), lc=st.booleans(), nolen=st.booleans())
    op_close = mk('close', n=k, bare=st.booleans())
    op_set = mk('set', n=k, fld=k, v=val, r=st.booleans())
    op_put = mk('put', n=k, sel=putsel)
    op_get = mk('get', n=k, sel=getsel)
    op_bad = mk('bad', n=k, w=st.sampled_from(['get', 'put']), r=st.integers(0, 20),
                either=st.sampled_from([False, False, False, True]))
    op_q = mk('q', n=k)
    op_field = mk('field', n=k, w=widths)
    one = weighted((op_open, 2), (op_close, 1), (op_set, 4), (op_put, 6), (op_get, 7), (op_bad, 1),
                   (op_q, 1), (op_field, 1))
    # Hypothesis' own list sizes average ~6 elements; draw the length explicitly (shrinks first)
    ops = st.integers(1, maxops).flatmap(lambda n: st.lists(one, min_size=n, max_size=n))

    def build(lens, layouts, pre, ops0, first):
        return {'alias': alias, 'lens': lens, 'layouts': layouts, 'pre': pre,
                'ops': [first] + ops0}

    return st.builds(
        build,
        st.lists(reclen, min_size=3, max_size=3),
        st.lists(widths, min_size=3, max_size=3),
        st.lists(st.sampled_from([0, 0, 0, 1, 2, 3, 5]), min_size=3, max_size=3),
        ops, op_open)


def units(tier):
    maxops = 40 if tier == 'quick' else 120
    # VERIF_DIV=n runs 1/n of the examples (same seeds, i.e. a prefix): used for mutation runs only
    div = max(1, int(os.environ.get('VERIF_DIV', '1')))
    return [
        Unit('histories', 'hyp', shards=16, examples={'quick': 150 // div, 'thorough': 3000 // div},
             strategy=lambda: strat_case(maxops, alias=False)),
        Unit('aliased', 'hyp', shards=16, examples={'quick': 40 // div, 'thorough': 600 // div},
             strategy=lambda: strat_case(maxops, alias=True)),
    ]


REGRESSIONS = [
    # fixed 24257d3f: RandomFile.put compared the record index with the file length in bytes
    REG_PUTGAP,
    # fixed 24257d3f (same commit; single number): implicit PUT after a GET at/after the end of
    # the file overwrote that record
    REG_IMPPUT,
    # open finding: data PUT through one number is not visible through a second number
    REG_ALIAS,
    # same finding, second mechanism: the second number's stream position is stale after a GET at
    # the end of the file, so its implicit PUT lands in the record just read once the file has grown
    REG_ALIAS2,
    # gap filled with zeros on an empty file, then read inside the gap and after re-OPEN
    {'alias': False, 'lens': [3, 1, 128], 'layouts': [[1, 2], [1], [100, 28]], 'pre': [0, 2, 0],
     'ops': [{'o': 'open', 'n': 0, 'f': 0, 'syn': 0, 'lc': False},
             {'o': 'set', 'n': 0, 'fld': 1, 'v': 'xy', 'r': True},
             {'o': 'put', 'n': 0, 'm': 'abs', 'd': 4},
             {'o': 'get', 'n': 0, 'm': 'abs', 'd': 2},
             {'o': 'get', 'n': 0, 'm': 'imp', 'd': 0},
             {'o': 'get', 'n': 0, 'm': 'imp', 'd': 0},
             {'o': 'q', 'n': 0},
             {'o': 'close', 'n': 0},
             {'o': 'open', 'n': 1, 'f': 0, 'syn': 2, 'lc': True},
             {'o': 'get', 'n': 0, 'm': 'abs', 'd': 4},
             {'o': 'bad', 'n': 0, 'w': 'put', 'r': 0},
             {'o': 'bad', 'n': 0, 'w': 'get', 'r': 4},
             {'o': 'get', 'n': 0, 'm': 'big', 'd': 8},
             {'o': 'open', 'n': 0, 'f': 1, 'syn': 1, 'lc': False},
             {'o': 'put', 'n': 1, 'm': 'hi', 'd': 9},
             {'o': 'get', 'n': 1, 'm': 'hi', 'd': -3},
             {'o': 'q', 'n': 1}]},
]

KILLS = [
    'diskfiles.RandomFile._set_record_pos: seek((pos-1)*reclen) -> seek(pos*reclen)  => ./check red: get.data, get.gap-nonzero, host.image, lof, field.value, put.gap.small-file (10 buckets)',
    "RandomFile.get: '_recpos += 1' dropped  => ./check red: loc, put.implicit-after-get-at-eof",
    "RandomFile.put: '_recpos += 1' dropped  => ./check red: loc, put.implicit-after-get-at-eof",
    'RandomFile.put: zero fill omitted  => host.image, lof, get.data, get.gap-nonzero',
    'RandomFile.put: original defect restored (record index compared with byte length)  => regressions put.gap.small-file, put.implicit-after-get-at-eof',
    'RandomFile.eof: > -> >= (last record reads as zeros)  => get.data, host.image',
    'Files._check_pos upper bound 2**25 -> 2**25+8  => recno.range ; lower bound 1 -> 0 => recno.range',
    'FieldFile.set_buffer pads with blanks instead of NUL  => get.beyond-end, get.data, host.image',
    'RandomFile.loc returns _recpos+1  => loc ; _set_record_pos: _recpos = pos  => loc, host.image, lof',
    '(light runner = REGRESSIONS + 120 generated histories per unit, no shrinking; first three also through ./check)',
]
