"""
C33 - DRAW moves the pen exactly as its commands specify.

One case = one session in an (adapter, SCREEN mode): a PSET sets the start position, then 1-6
DRAW statements built from a command grammar (U D L R E F G H with optional counts, relative and
absolute M, prefixes B, N, BN, S scales, C colours, X substrings by name and by VARPTR$, numeric
arguments as literals, `=var;`, `=array(i);` and `=`+VARPTR$(var)), optionally separated by PSETs
that move the pen and by `LINE -(x,y)` statements that start at the pen position DRAW left. A reference pen model in exact integers predicts the position after every DRAW
(checked through POINT(0)/POINT(1)) and the list of drawn segments; the page after the DRAWs
must equal the page obtained by replaying those segments as LINE statements on a cleared page.
"""
import random

from hypothesis import strategies as st

from vlib.core import Result, Unit
from vlib import gfxutil
from vlib.gfxutil import MODE_BY_NAME, GfxSess

ID = 'C33'
LEVEL = 'exploration'
RULE = ("Seed-driven DRAW programs: 1-6 DRAW statements of 1-10 commands each, counts from "
        "{omitted, 0, 1, small, up to 300, negative}, scales 1..255 (mostly not multiples of 4), "
        "prefixes B/N/BN on a third of the moves (40% of them separated from their move by a "
        "separator and/or 0-2 non-move commands C, S, X-without-moves; sometimes left dangling at the "
        "end of a DRAW string), absolute and relative M, C inside the mode's "
        "attribute range, X substrings nested up to 2 deep (by name; and by VARPTR$), numeric "
        "arguments (counts, both coordinates of M, S, C) as literals, =var; or =VARPTR$(var), each "
        "optionally signed, through integer/single/double variables and array elements holding "
        "positive, negative and zero values, separators "
        "';'/blank/none; one mode per case sampled from all graphics modes (low resolution "
        "weighted 3:1). Non-trivial: the program has a B or N prefix, a scale other than 4 and at "
        "least 3 moves, or uses X or a variable argument. distinct = distinct case.")
ASSUMPTIONS = [
    "no A/TA (the statement excludes turning), no P, no WINDOW/VIEW",
    "POINT(0)/POINT(1) are asserted only while the model position is inside the screen (the "
    "manual does not say what is reported for an off-screen pen); off-screen ends are generated "
    "and labelled",
    "pixel comparison with the LINE replay is skipped when a segment endpoint leaves "
    "-32768..32767 (LINE would raise Overflow there)",
    "a B/N prefix stays pending until the next movement command: colour (C), scale (S), a "
    "substring without moves (X), ';' and blanks standing between the prefix and its move do not "
    "use it up (GW-BASIC clears its draw flags in the move routine only; the manual calls B and N "
    "prefixes of 'the movement commands'); 0-2 such commands are generated between a prefix and "
    "its move (label prefix-separated). Not generated, because GW-BASIC and per-call flags may "
    "differ: a prefix followed by a substring that itself moves, and a prefix left pending at the "
    "end of a substring",
    "a prefix at the very end of a DRAW string with no move after it has no effect on later DRAW "
    "statements (the flags are locals of one DRAW call by construction; label prefix-trailing)",
    "the first DRAW and every DRAW after an intervening PSET start with an explicit C command, so "
    "nothing is assumed about the colour a DRAW inherits from other statements",
    "variables used as arguments hold integral values (conversion of fractions is not specified)",
    "every numeric argument (move counts, both coordinates of M, S, C) may be a literal, =var; or "
    "=VARPTR$(var), each optionally signed; the value is sign x value (GW-BASIC manual: "
    "M+=X1;,-=Y1;), a sign in front of the x of M makes the move relative; S and C references are "
    "chosen so that sign x value is in range; absolute M only takes references whose value is on "
    "screen",
    "DRAW must not raise an error on these strings; the LINE replay must not either",
    "all simple variables (incl. E of the error handler) exist before the first VARPTR$ is taken, "
    "because creating a simple variable moves the arrays and would invalidate element pointers",
]
TECHNIQUE = "grammar-generated DRAW programs vs. integer pen model; differential DRAW vs. LINE"

DIRS = {'U': (0, -1), 'D': (0, 1), 'L': (-1, 0), 'R': (1, 0),
        'E': (1, -1), 'F': (1, 1), 'G': (-1, 1), 'H': (-1, -1)}


def trunc4(scale, n):
    """scale*n/4 truncated toward zero (exact)."""
    v = scale * n
    return v // 4 if v >= 0 else -((-v) // 4)


# --------------------------------------------------------------------------------------------
# reference pen model

class Pen(object):
    def __init__(self, x, y, colour):
        self.x, self.y = x, y
        self.scale = 4
        self.colour = colour
        self.segments = []          # (x0, y0, x1, y1, colour)

    def value(self, arg, variables):
        if arg is None:
            return None
        if isinstance(arg, int):
            return arg
        # {'lit': n | 'var': name, 'sign': '' | '+' | '-'}: the value is sign x value
        v = arg['lit'] if 'lit' in arg else int(variables[arg['var']])
        return -v if arg.get('sign') == '-' else v

    def run(self, cmds, subs, variables, depth=0):
        for c in cmds:
            k = c['c']
            if k == 'S':
                self.scale = self.value(c['n'], variables)
            elif k == 'C':
                self.colour = self.value(c['n'], variables)
            elif k == 'X':
                self.run(subs[c['sub']], subs, variables, depth + 1)
            elif k == 'PRE':
                pass            # trailing prefix without a move: flags are per DRAW call, no effect
            elif k == 'M':
                self.run(c.get('mid', []), subs, variables, depth)
                x, y = self.value(c['x'], variables), self.value(c['y'], variables)
                if c['rel']:
                    nx, ny = self.x + trunc4(self.scale, x), self.y + trunc4(self.scale, y)
                else:
                    nx, ny = x, y
                self._move(nx, ny, c.get('pre', ''))
            else:
                self.run(c.get('mid', []), subs, variables, depth)
                n = self.value(c.get('n'), variables)
                if n is None:
                    n = 1
                dx, dy = DIRS[k]
                self._move(self.x + trunc4(self.scale, dx * n), self.y + trunc4(self.scale, dy * n),
                           c.get('pre', ''))

    def _move(self, nx, ny, pre):
        if 'B' not in pre:
            self.segments.append((self.x, self.y, nx, ny, self.colour))
        if 'N' not in pre:
            self.x, self.y = nx, ny


# --------------------------------------------------------------------------------------------
# rendering to BASIC

def _arg_text(arg):
    """-> list of parts: str or ('vp', name)."""
    if isinstance(arg, int):
        return [str(arg)]
    sign = arg.get('sign', '')
    if 'lit' in arg:
        return ['%s%d' % (sign, arg['lit'])]
    if arg.get('form', 'name') == 'vp':
        return [sign + '=', ('vp', arg['var'])]
    return ['%s=%s;' % (sign, arg['var'])]


def _prefix_parts(c):
    """Prefix of a move, then optional separator and 0..2 non-move commands before the move."""
    pre = c.get('pre', '')
    if not pre:
        return []
    return [pre + c.get('presep', '')] + render_cmds(c.get('mid', []))


def render_cmds(cmds):
    """Command list -> list of parts (str | ('vp', name))."""
    parts = []
    for c in cmds:
        k = c['c']
        sep = c.get('sep', '')
        if k in ('S', 'C'):
            parts.append(k)
            parts.extend(_arg_text(c['n']))
        elif k == 'PRE':
            parts.append(c['pre'])
        elif k == 'X':
            if c.get('form') == 'vp':
                parts.extend(['X', ('vp', c['sub'])])
            else:
                parts.append('X%s;' % c['sub'])
        elif k == 'M':
            parts.extend(_prefix_parts(c))
            parts.append('M')
            if c['rel']:
                # the sign in front of x is what makes the move relative
                x, y = c['x'], c['y']
                if isinstance(x, int):
                    parts.append('%s%d' % ('-' if x < 0 else '+', abs(x)))
                else:
                    assert x.get('sign') in ('+', '-')
                    parts.extend(_arg_text(x))
                parts.append(',')
                if isinstance(y, int):
                    parts.append('%s%d' % ('-' if y < 0 else c.get('ysign', ''), abs(y)))
                else:
                    parts.extend(_arg_text(y))
            else:
                parts.extend(_arg_text(c['x']))
                parts.append(',')
                parts.extend(_arg_text(c['y']))
        else:
            parts.extend(_prefix_parts(c))
            parts.append(k)
            if c.get('n') is not None:
                parts.extend(_arg_text(c['n']))
        parts.append(sep)
    # merge adjacent strings
    out = []
    for p in parts:
        if isinstance(p, str) and out and isinstance(out[-1], str):
            out[-1] += p
        elif p != '':
            out.append(p)
    return out


def parts_to_expr(parts):
    """parts -> BASIC string expression."""
    terms = []
    for p in parts:
        if isinstance(p, str):
            terms.append('"%s"' % p)
        else:
            terms.append('VARPTR$(%s)' % p[1])
    return '+'.join(terms) if terms else '""'


def check_case(case):
    res = Result()
    mode = MODE_BY_NAME[case['mode']]
    W, H, N = mode.width, mode.height, mode.nattr
    variables = case['vars']            # name -> numeric value
    subs = case['subs']                 # name -> command list
    steps = case['steps']               # {'pset': [x,y,c]} | {'lineto': [x,y,c]} | {'draw': [cmds]}
    # ---- model ------------------------------------------------------------------------------
    x0, y0, c0 = case['start']
    pen = Pen(x0, y0, c0)
    expected_pos = []
    pen.segments.append((x0, y0, c0))              # 3-tuples are PSETs, 5-tuples segments
    for st_ in steps:
        if 'pset' in st_:
            x, y, c = st_['pset']
            pen.x, pen.y, pen.colour = x, y, c
            pen.segments.append((x, y, c))
            expected_pos.append(None)
        elif 'lineto' in st_:
            # LINE -(x,y),c starts at the current graphics position = where DRAW left the pen
            x, y, c = st_['lineto']
            pen.segments.append((pen.x, pen.y, x, y, c))
            pen.x, pen.y, pen.colour = x, y, c
            expected_pos.append((x, y))
        else:
            pen.run(st_['draw'], subs, variables)
            expected_pos.append((pen.x, pen.y))
    events = pen.segments
    segs = [e for e in events if len(e) == 5]
    in16 = all(-32768 <= v <= 32767 for s in segs for v in s[:4])
    # ---- program ----------------------------------------------------------------------------
    stmts = []
    arrays = sorted(set(nm.split('(')[0] for nm in variables if '(' in nm))
    # string arrays in the order the case declares them (decoys and X substrings)
    strvars = case.get('strvars', [])
    for nm in [q[0] for q in strvars] + list(case.get('sub_order', sorted(subs))):
        if '(' in nm and nm.split('(')[0] not in arrays:
            arrays.append(nm.split('(')[0])
    if arrays:
        stmts.append('DIM ' + ','.join('%s(5)' % a for a in arrays))
    for nm in sorted(variables):
        v = variables[nm]
        stmts.append('%s=%s' % (nm, v))
    # create every scalar before any VARPTR$ is taken: a new simple variable moves the arrays, so
    # a pointer to an array element stored in a substring would go stale (documented GW-BASIC rule)
    scalars = [nm for nm in case.get('sub_order', sorted(subs)) if '(' not in nm]
    if scalars:
        stmts.append(':'.join('%s=""' % nm for nm in scalars))
    for nm, text in strvars:
        stmts.append('%s="%s"' % (nm, text))
    for nm in case.get('sub_order', sorted(subs)):
        stmts.append('%s=%s' % (nm, parts_to_expr(render_cmds(subs[nm]))))
    n_setup = len(stmts)
    stmts.append('PSET (%d,%d),%d' % (x0, y0, c0))
    step_idx = []
    for st_ in steps:
        step_idx.append(len(stmts))
        if 'pset' in st_:
            stmts.append('PSET (%d,%d),%d' % tuple(st_['pset']))
        elif 'lineto' in st_:
            stmts.append('LINE -(%d,%d),%d' % tuple(st_['lineto']))
        else:
            stmts.append('DRAW ' + parts_to_expr(render_cmds(st_['draw'])))
    for s in stmts:
        if len(s) > 235:
            res.inconclusive = True
            res.label('line-too-long')
            return res
    replay_start = len(stmts)
    replay = [('PSET (%d,%d),%d' if len(e) == 3 else 'LINE (%d,%d)-(%d,%d),%d') % e
              for e in events]
    line = ''
    for r in replay:
        if line and len(line) + len(r) + 1 > 220:
            stmts.append(line)
            line = ''
        line = (line + ':' + r) if line else r
    if line:
        stmts.append(line)
    # finding (fixed 2b9a5f90): a VARPTR$ pointer to an element of one array was dereferenced in
    # another array when two arrays exist. Cases in that region report under their own key.
    def _vp_array_use(cmds):
        for c in cmds:
            if _vp_array_use(c.get('mid', [])):
                return True
            if c['c'] == 'X':
                if (c.get('form') == 'vp' and '(' in c['sub']) or _vp_array_use(subs[c['sub']]):
                    return True
            for f in ('n', 'x', 'y'):
                a = c.get(f)
                if isinstance(a, dict) and a.get('form') == 'vp' and '(' in a['var']:
                    return True
        return False
    array_key = None
    if len(arrays) >= 2 and any(_vp_array_use(st_['draw']) for st_ in steps if 'draw' in st_):
        array_key = 'draw.x-substring.array'
        res.label('vp-into-array-with-2-arrays')
    g = GfxSess(mode, case.get('ap', 0), case.get('vp', 0))
    try:
        if g.setup_error:
            res.fail('setup', g.setup_error)
            return res
        o = g.load(stmts)
        if o is not None:
            res.fail('setup.load', 'storing the program: %r' % (o,))
            return res
        res.label('mode:' + mode.name)
        for i in range(n_setup + 1):
            err, o = g.run(i)
            if err != 0:
                res.fail('setup.stmt', '%s: err=%r %r' % (stmts[i], err, o))
                return res
        ndraw = 0
        for st_, i, exp in zip(steps, step_idx, expected_pos):
            err, o = g.run(i)
            if err is None:
                if o.kind == 'budget':
                    res.inconclusive = True
                else:
                    res.fail(gfxutil.escaped_key(o) if o.kind == 'escaped' else 'not-silent',
                             '%s: %r %s' % (stmts[i], o, o.tb or ''))
                return res
            if err != 0:
                res.fail(array_key or 'draw.err', '%s raised error %d in %s (vars %r)' % (
                    stmts[i], err, mode.name, variables))
                return res
            if exp is None:
                continue
            ndraw += 1
            inside = 0 <= exp[0] < W and 0 <= exp[1] < H
            res.label('end:inside' if inside else 'end:off-screen')
            if inside:
                got = []
                for fn in (0, 1):
                    po = g.sess.evaluate(b'POINT(%d)' % fn)
                    if po.kind != 'ok' or po.errors:
                        res.fail('point.err', 'POINT(%d): %r' % (fn, po))
                        return res
                    got.append(po.value)
                if (got[0], got[1]) != (exp[0], exp[1]):
                    res.fail(array_key or 'pen.position', 'after %s in %s (start/previous steps: %s; vars %r): '
                             'POINT(0),POINT(1) = %r, model says %r' % (
                                 stmts[i], mode.name, ' : '.join(stmts[n_setup:i]), variables,
                                 tuple(got), exp))
                    return res
        # ---- pixels: DRAW picture == LINE replay ----------------------------------------------
        if not in16:
            res.label('pixels-unasserted(int16)')
        else:
            drawn = g.snap()
            g.fill(0)
            for i in range(replay_start, len(stmts)):
                err, o = g.run(i)
                if err != 0:
                    res.fail('replay.err', 'LINE replay %s: err=%r %r' % (stmts[i], err, o))
                    return res
            lines = g.snap()
            if drawn != lines:
                res.fail(array_key or 'draw.pixels', 'DRAW picture differs from LINE replay of the model segments '
                         'in %s: %s (LINE=expected); program: %s; vars %r; segments %r' % (
                             mode.name, gfxutil.describe_diff(lines, drawn),
                             ' : '.join(stmts[n_setup:replay_start]), variables, segs[:12]))
        # ---- labels / non-trivial ---------------------------------------------------------------
        allcmds = []

        def walk(cmds):
            for c in cmds:
                walk(c.get('mid', []))
                allcmds.append(c)
                if c['c'] == 'X':
                    walk(subs[c['sub']])
        for st_ in steps:
            if 'draw' in st_:
                walk(st_['draw'])
        moves = [c for c in allcmds if c['c'] in DIRS or c['c'] == 'M']
        has_prefix = any(c.get('pre') for c in moves)
        if any(c.get('pre') and (c.get('mid') or c.get('presep')) for c in moves):
            res.label('prefix-separated')
        if any(c['c'] == 'PRE' for c in allcmds):
            res.label('prefix-trailing')
        scales = [c for c in allcmds if c['c'] == 'S']
        uses_x = any(c['c'] == 'X' for c in allcmds)
        refs = [c.get(f) for c in allcmds for f in ('n', 'x', 'y')
                if isinstance(c.get(f), dict) and 'var' in c.get(f)]
        uses_var = bool(refs)
        for a in refs:
            res.label('ref:%s%s' % ({'': 'unsigned', '+': 'plus', '-': 'minus'}[a.get('sign', '')],
                                    '/neg-value' if variables[a['var']] < 0 else
                                    '/zero' if variables[a['var']] == 0 else ''))
        res.label('moves:%s' % ('<3' if len(moves) < 3 else '<10' if len(moves) < 10 else '>=10'))
        for flag, name in ((has_prefix, 'prefix'), (bool(scales), 'scale'), (uses_x, 'X'),
                           (uses_var, 'var-arg'),
                           (any(c['c'] == 'M' and c['rel'] for c in moves), 'M-rel'),
                           (any(c['c'] == 'M' and not c['rel'] for c in moves), 'M-abs'),
                           (any('N' in c.get('pre', '') for c in moves), 'N'),
                           (any('B' in c.get('pre', '') for c in moves), 'B')):
            if flag:
                res.label('has:' + name)
        frac = any(c['c'] in DIRS for c in moves) and any(
            isinstance(c['n'], int) and c['n'] % 4 for c in scales)
        if frac:
            res.label('has:fractional-scale')
        res.nt((has_prefix and any(isinstance(c['n'], dict) or c['n'] != 4 for c in scales)
                and len(moves) >= 3) or uses_x or uses_var)
    finally:
        g.close()
    return res


# --------------------------------------------------------------------------------------------
# generator

NUMVARS = ['N%', 'K%', 'Q!', 'D#', 'A%(2)', 'B!(1)']
SUBNAMES = ['S$', 'T$', 'U$']


def _count(r, variables, allow_var=True, lo=-40, big=300):
    k = r.randrange(12)
    if k < 3:
        return None
    if k < 5:
        return r.choice([0, 1, 1, 2])
    if k < 9:
        return r.randrange(1, 30)
    if k == 9:
        return r.randrange(30, big)
    if k == 10 and (not variables or r.random() < 0.5):
        return -r.randrange(1, -lo)
    if allow_var and variables:
        return _ref(r, variables)
    return {'lit': r.randrange(0, 12), 'sign': '+'}


def _ref(r, variables, signs=('', '', '+', '-', '-'), ok=None):
    """Reference to a numeric variable, optionally signed; ok(value) filters sign x value."""
    cands = [(nm, sg) for nm in sorted(variables) for sg in sorted(set(signs))
             if ok is None or ok(-variables[nm] if sg == '-' else variables[nm])]
    if not cands:
        return None
    nm = r.choice(sorted(set(c[0] for c in cands)))
    sg = r.choice([q for q in signs if (nm, q) in cands])
    return {'var': nm, 'form': r.choice(['name', 'name', 'vp']), 'sign': sg}


def _between(r, pre, variables, nomove, N):
    """0..2 non-move commands (and/or a separator) between a prefix and its move."""
    if not pre or r.random() < 0.6:
        return {}
    mid = []
    for _ in range(r.choice([0, 1, 1, 1, 2, 2])):
        k = r.choice(['S', 'C', 'C'] + (['X', 'X'] if nomove else []))
        sep = r.choice(['', '', ';', ' '])
        if k == 'S':
            mid.append({'c': 'S', 'n': r.choice([1, 2, 3, 5, 6, 7, 8, 9, 12, 16, 21]), 'sep': sep})
        elif k == 'C':
            mid.append({'c': 'C', 'n': r.randrange(0, N), 'sep': sep})
        else:
            mid.append({'c': 'X', 'sub': r.choice(nomove), 'form': r.choice(['name', 'vp']),
                        'sep': r.choice(['', ';'])})
    return {'mid': mid, 'presep': r.choice(['', '', ';', ' ', '; '])}


def _cmds(r, variables, subnames, N, W, H, n, need_colour=False, nomove=(), trailing=False):
    nomove = list(nomove)
    cmds = []
    if need_colour:
        cmds.append({'c': 'C', 'n': r.randrange(1, N), 'sep': r.choice(['', ';', ' '])})
    for _ in range(n):
        k = r.choice(['mv'] * 10 + ['M'] * 3 + ['S'] * 3 + ['C'] + (['X'] * 2 if subnames else []))
        sep = r.choice(['', '', ';', ' '])
        if k == 'mv':
            pre = r.choice(['', '', '', '', 'B', 'N', 'BN'])
            cmds.append(dict({'c': r.choice('UDLREFGH'), 'pre': pre, 'n': _count(r, variables),
                              'sep': sep}, **_between(r, pre, variables, nomove, N)))
        elif k == 'M':
            pre = r.choice(['', '', '', 'B', 'N', 'BN'])
            between = _between(r, pre, variables, nomove, N)
            if r.random() < 0.55:
                x = r.choice([0, 1, 3, 5, 7, r.randrange(0, 40), -r.randrange(1, 40)])
                y = r.choice([0, 1, 3, 5, 7, r.randrange(0, 40), -r.randrange(1, 40)])
                if variables and r.random() < 0.3:
                    x = _ref(r, variables, signs=('+', '-', '-'))       # M+=X;  M-=X;
                if variables and r.random() < 0.3:
                    y = _ref(r, variables)                              # ,=Y;  ,-=Y;  ,+=Y;
                cmds.append(dict({'c': 'M', 'pre': pre, 'rel': True, 'x': x, 'y': y,
                                  'ysign': r.choice(['', '+']), 'sep': sep}, **between))
            else:
                x = r.choice([r.randrange(0, W), r.randrange(0, W), 0, W - 1, W + 5])
                y = r.choice([r.randrange(0, H), r.randrange(0, H), 0, H - 1, H + 5])
                inside = lambda v: 0 <= v < min(W, H)
                if variables and r.random() < 0.25:
                    # unsigned reference (a sign in front of x would make the move relative)
                    x = _ref(r, variables, signs=('',), ok=inside) or x
                if variables and r.random() < 0.25:
                    y = _ref(r, variables, signs=('', '-'), ok=inside) or y
                cmds.append(dict({'c': 'M', 'pre': pre, 'rel': False, 'x': x, 'y': y, 'sep': sep},
                                 **between))
        elif k == 'S':
            s = r.choice([1, 2, 3, 5, 6, 7, 9, 10, 11, 13, 4, 8, 12, 16, r.randrange(1, 40),
                          r.randrange(1, 256)])
            if variables and r.random() < 0.25:
                s = _ref(r, variables, ok=lambda v: 1 <= v <= 255) or s
            cmds.append({'c': 'S', 'n': s, 'sep': sep})
        elif k == 'C':
            col = r.randrange(0, N)
            if variables and r.random() < 0.25:
                col = _ref(r, variables, ok=lambda v: 0 <= v < N) or col
            cmds.append({'c': 'C', 'n': col, 'sep': sep})
        else:
            cmds.append({'c': 'X', 'sub': r.choice(subnames), 'form': r.choice(['name', 'vp']),
                         'sep': r.choice(['', ';'])})
    if trailing and r.random() < 0.08:
        cmds.append({'c': 'PRE', 'pre': r.choice(['B', 'N', 'BN'])})
    return cmds


MODE_WEIGHTED = gfxutil.LOWRES * 3 + gfxutil.HIRES


def build_case(mname, seed, ndraw, ncmd):
    mode = MODE_BY_NAME[mname]
    W, H, N = mode.width, mode.height, mode.nattr
    r = random.Random(seed)
    variables = {}
    if r.random() < 0.5:
        for nm in r.sample(NUMVARS, r.randrange(1, 4)):
            variables[nm] = r.choice([0, 0, 1, 2, 3, 5, 7, 10, 17, -3, -8, -1, -12, -2, -25,
                                      r.randrange(0, 60), -r.randrange(1, 60)])
    subs, order, strvars, nomove = {}, [], [], []
    if r.random() < 0.4:
        # a substring without move commands: may stand between a prefix and its move
        subs['V$'] = [{'c': r.choice('SC'), 'n': 0, 'sep': r.choice(['', ';'])}
                      for _ in range(r.randrange(1, 3))]
        for c in subs['V$']:
            c['n'] = r.choice([1, 2, 3, 5, 6, 8, 10, 13]) if c['c'] == 'S' else r.randrange(0, N)
        order.append('V$')
        nomove = ['V$']
    if r.random() < 0.45:
        names = SUBNAMES[:r.randrange(1, 4)]
        if r.random() < 0.4:
            # substrings kept in string array elements, next to a decoy array of other commands
            names = r.choice([['P$(1)'], ['P$(0)', 'P$(3)'], ['P$(2)', 'S$'], ['P$(1)', 'W$(1)']])
            decoys = [['O$(%d)' % i, r.choice(['R9', 'U7D2', 'BM+5,5', 'L3'])] for i in range(4)]
            if r.random() < 0.5:
                strvars = decoys            # decoy array declared before the used one
            else:
                names = names + ['O$(1)']   # ... or after it (then it holds a real substring)
        for nm in names:
            subs[nm] = _cmds(r, variables, list(order), N, W, H, r.randrange(1, 5), nomove=nomove)
            order.append(nm)
    steps = []
    need_colour = True
    for _ in range(ndraw):
        if steps and r.random() < 0.2:
            steps.append({'pset': [r.randrange(0, W), r.randrange(0, H), r.randrange(0, N)]})
            need_colour = True
        elif steps and r.random() < 0.2:
            steps.append({'lineto': [r.randrange(0, W), r.randrange(0, H), r.randrange(0, N)]})
            need_colour = True
        steps.append({'draw': _cmds(r, variables, order, N, W, H, r.randrange(1, ncmd + 1),
                                    need_colour, nomove=nomove, trailing=True)})
        need_colour = False
    start = [r.choice([W // 2, r.randrange(0, W), r.randrange(W // 4, 3 * W // 4)]),
             r.choice([H // 2, r.randrange(0, H), r.randrange(H // 4, 3 * H // 4)]),
             r.randrange(0, N)]
    ap, vp = r.choice([(0, 0), (0, 0), (1, 0), (1, 1)])
    return {'mode': mname, 'ap': ap, 'vp': vp, 'start': start, 'vars': variables, 'subs': subs,
            'sub_order': order, 'strvars': strvars, 'steps': steps}


def strat_case():
    return st.builds(build_case, st.sampled_from(MODE_WEIGHTED), st.integers(0, 2 ** 31),
                     st.integers(1, 6), st.integers(1, 10))


def units(tier):
    return [
        Unit('programs', 'hyp', shards=16,
             examples=gfxutil.scaled({'quick': 140, 'thorough': 6000}), strategy=strat_case),
    ]


REGRESSIONS = [
    {'mode': 'cga/1', 'ap': 0, 'vp': 0, 'start': [160, 100, 1], 'vars': {'N%': 5}, 'subs': {
        'S$': [{'c': 'U', 'pre': 'N', 'n': 3, 'sep': ''}, {'c': 'R', 'pre': '', 'n': None, 'sep': ''}]},
     'sub_order': ['S$'],
     'steps': [{'draw': [{'c': 'C', 'n': 2, 'sep': ''}, {'c': 'S', 'n': 7, 'sep': ';'},
                         {'c': 'E', 'pre': '', 'n': 3, 'sep': ''},
                         {'c': 'F', 'pre': 'B', 'n': {'var': 'N%', 'form': 'vp'}, 'sep': ''},
                         {'c': 'X', 'sub': 'S$', 'form': 'vp', 'sep': ''},
                         {'c': 'M', 'pre': '', 'rel': True, 'x': -3, 'y': 5, 'ysign': '+', 'sep': ''},
                         {'c': 'M', 'pre': 'N', 'rel': False, 'x': 10, 'y': 20, 'sep': ''}]}]},
]

REGRESSIONS += [
    # wave-4 seed that survived an earlier version: prefix flags reset after every command, so a
    # C/S/X between a prefix and its move used the prefix up (BC2R10, NS8U3, BXV$;R10, BNS4C1M+3,4)
    {'mode': 'cga/1', 'ap': 0, 'vp': 0, 'start': [100, 80, 0], 'vars': {}, 'strvars': [],
     'subs': {'V$': [{'c': 'C', 'n': 1, 'sep': ''}]}, 'sub_order': ['V$'],
     'steps': [
         {'draw': [{'c': 'C', 'n': 1, 'sep': ''},
                   {'c': 'R', 'pre': 'B', 'presep': '', 'mid': [{'c': 'C', 'n': 2, 'sep': ''}],
                    'n': 10, 'sep': ''},
                   {'c': 'D', 'pre': '', 'n': 2, 'sep': ''}]},
         {'draw': [{'c': 'U', 'pre': 'N', 'presep': '', 'mid': [{'c': 'S', 'n': 8, 'sep': ''}],
                    'n': 3, 'sep': ''},
                   {'c': 'S', 'n': 4, 'sep': ''}, {'c': 'R', 'pre': '', 'n': 2, 'sep': ''}]},
         {'draw': [{'c': 'R', 'pre': 'B', 'presep': ';', 'mid': [
                       {'c': 'X', 'sub': 'V$', 'form': 'name', 'sep': ''}], 'n': 10, 'sep': ''},
                   {'c': 'M', 'pre': 'BN', 'presep': ' ', 'mid': [
                       {'c': 'S', 'n': 4, 'sep': ''}, {'c': 'C', 'n': 1, 'sep': ';'}],
                    'rel': True, 'x': 3, 'y': 4, 'ysign': '', 'sep': ''},
                   {'c': 'M', 'pre': 'B', 'presep': '', 'mid': [{'c': 'C', 'n': 3, 'sep': ''}],
                    'rel': False, 'x': 130, 'y': 90, 'sep': ''},
                   {'c': 'D', 'pre': '', 'n': 2, 'sep': ''},
                   {'c': 'PRE', 'pre': 'BN'}]},
         {'draw': [{'c': 'L', 'pre': '', 'n': 7, 'sep': ''}]}]},
    # seeded mutation that survived an earlier version: the sign in front of a variable reference
    # was consumed but not applied (U-=N; E-=K%(2); M+=X;,-=Y;)
    {'mode': 'cga/1', 'ap': 0, 'vp': 0, 'start': [160, 100, 1],
     'vars': {'N%': 7, 'K%': -4, 'A%(2)': 9, 'Q!': 0}, 'strvars': [], 'subs': {}, 'sub_order': [],
     'steps': [{'draw': [
         {'c': 'C', 'n': 2, 'sep': ''},
         {'c': 'U', 'pre': '', 'n': {'var': 'N%', 'form': 'name', 'sign': '-'}, 'sep': ''},
         {'c': 'E', 'pre': '', 'n': {'var': 'A%(2)', 'form': 'name', 'sign': '-'}, 'sep': ''},
         {'c': 'R', 'pre': 'N', 'n': {'var': 'K%', 'form': 'vp', 'sign': '-'}, 'sep': ''},
         {'c': 'M', 'pre': '', 'rel': True, 'x': {'var': 'N%', 'form': 'name', 'sign': '+'},
          'y': {'var': 'K%', 'form': 'name', 'sign': '-'}, 'sep': ''},
         {'c': 'M', 'pre': '', 'rel': True, 'x': {'var': 'K%', 'form': 'vp', 'sign': '-'},
          'y': {'var': 'Q!', 'form': 'name', 'sign': '-'}, 'sep': ''},
         {'c': 'L', 'pre': '', 'n': {'lit': 6, 'sign': '+'}, 'sep': ''}]},
         {'draw': [{'c': 'S', 'n': {'var': 'K%', 'form': 'name', 'sign': '-'}, 'sep': ''},
                   {'c': 'C', 'n': {'var': 'Q!', 'form': 'vp', 'sign': '-'}, 'sep': ''},
                   {'c': 'D', 'pre': '', 'n': 5, 'sep': ''}]}]},
    # fixed 2b9a5f90: DRAW "X"+VARPTR$(A$(1)) with two string arrays executed the other array
    {'mode': 'cga/1', 'ap': 0, 'vp': 0, 'start': [100, 100, 1], 'vars': {}, 'strvars': [],
     'subs': {'A$(1)': [{'c': 'U', 'pre': '', 'n': 10, 'sep': ''}],
              'B$(1)': [{'c': 'R', 'pre': '', 'n': 20, 'sep': ''}]},
     'sub_order': ['A$(1)', 'B$(1)'],
     'steps': [{'draw': [{'c': 'C', 'n': 2, 'sep': ''},
                         {'c': 'X', 'sub': 'A$(1)', 'form': 'vp', 'sep': ''}]}]},
    {'mode': 'ega/7', 'ap': 0, 'vp': 0, 'start': [100, 100, 1], 'vars': {'A%(2)': 7, 'B!(1)': 30},
     'strvars': [['O$(1)', 'R9'], ['O$(2)', 'D9']],
     'subs': {'P$(2)': [{'c': 'L', 'pre': 'N', 'n': {'var': 'A%(2)', 'form': 'vp'}, 'sep': ''},
                        {'c': 'D', 'pre': '', 'n': {'var': 'B!(1)', 'form': 'vp'}, 'sep': ''}]},
     'sub_order': ['P$(2)'],
     'steps': [{'draw': [{'c': 'C', 'n': 3, 'sep': ''}, {'c': 'S', 'n': 6, 'sep': ''},
                         {'c': 'X', 'sub': 'P$(2)', 'form': 'vp', 'sep': ';'},
                         {'c': 'X', 'sub': 'P$(2)', 'form': 'name', 'sep': ''}]}]},
]

KILLS = [
    'wave-4 seed /tmp/seed_out4/C33 (prefix flags reset after every command, so C/S/X between a prefix and its move use it up), tools/seedtest.py C33 --no-tests = full quick tier: exit 1, pen.position + draw.pixels + draw.x-substring.array; also caught by the new REGRESSIONS case (survived before 0-2 non-move commands were generated between a prefix and its move). All earlier kills re-screened with the new generator: still killed within 31 cases',
    'independently seeded mutation, VERIF_REPO=<scratch> ./check C33 --unit programs (full quick counts): MLParser.parse_number applies the sign only to literals (U-=N; moves the wrong way) -> exit 1, pen.position, draw.pixels, draw.err (S-=var), draw.x-substring.array; also caught by the new REGRESSIONS case (survived before signed variable references were generated)',
    'final code, VERIF_REPO=<scratch> ./check C33 (VERIF_GFX_SCALE=0.15): truncation -> rounding -> exit 1, pen.position + draw.pixels ; B leaking to the next command -> exit 1, draw.pixels',
    'in-process screen (same check_case/strategy as ./check, Hypothesis unit only, stops at first failure)',
    '_draw_step: N does not restore the position -> pen.position',
    'scale applied to absolute M -> draw.pixels, pen.position',
    'B leaks to the next command (plot not reset) -> draw.pixels',
    'truncation -> rounding, and -> floor (x or y) -> pen.position',
    'N ignored on absolute M -> draw.pixels ; B ignored on absolute M -> draw.pixels',
    'H moves only up -> draw.pixels, pen.position ; E not moving up -> pen.position',
    'default count 0 -> pen.position ; relative M unscaled -> pen.position',
    "X substring does not move the caller's pen -> pen.position",
    'mlparser: VARPTR$ numeric argument abs() / named variable abs() -> pen.position',
    'C with value 0 ignored -> draw.pixels ; scale reset at every DRAW -> pen.position',
    'POINT(1) returns x -> pen.position ; DRAW not updating the graphics position -> draw.pixels (LINE -(x,y) step)',
    'revert of fix 2b9a5f90 (Arrays.dereference) -> draw.x-substring.array (regression and random case #25)',
]
