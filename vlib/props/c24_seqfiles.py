"""
C24 - sequential files return what was written.

A case is one host file written in 1-3 OPEN/CLOSE sessions (OUTPUT, then APPEND or OUTPUT again)
with WRITE # statements (kind 'write': strings and numbers of all types, 1-4 per statement) or
PRINT # statements (kind 'print': one line each), then read back with INPUT # (variables grouped
differently from the writing) or LINE INPUT #.

Oracles (none of them re-calls the writer or the reader):
  * file bytes: the check walks the host file itself: every string item must appear as '"' + bytes +
    '"', items are separated by ',' inside a statement, statements end in CR LF, the file ends in
    exactly one 0x1A; after an APPEND session the previous content minus its EOF byte is a prefix;
  * strings / lines read == written (round trip);
  * numbers read == the decimal value of the field text the check cut out of the file, converted
    with exact rational arithmetic and compared on the MBF bytes (MKI$/MKS$/MKD$) within 1 ulp;
  * EOF(1) = 0 before every INPUT#/LINE INPUT# statement and -1 after the last one;
  * LOF(1) in OUTPUT/APPEND mode, right after OPEN and after every statement == the number of
    bytes the statements so far must have produced (previous content minus its EOF byte for APPEND
    plus every statement's bytes; the per-statement byte counts are taken after CLOSE from the
    framing walk over the closed file, never from the host size at query time, which may lag
    behind the interpreter's write buffer); host size == that count + EOF after CLOSE;
    LOF(1) == size of the host file in INPUT mode after every read.
"""
import os
from fractions import Fraction

from hypothesis import strategies as st

from vlib.core import Result, Unit
from vlib import harness, mbf

ID = 'C24'
LEVEL = 'exploration'
TECHNIQUE = ("Hypothesis item sequences written by WRITE#/PRINT# in 1-3 OUTPUT/APPEND sessions and "
             "read back by INPUT#/LINE INPUT#; round trip + independent framing walk over the host "
             "file bytes + exact-rational value of the written number text")
RULE = ("Item sequences: strings over all bytes except '\"', NUL, 0x1A, in both newline "
        "configurations, with a deliberately generated class of runs (length 1..4) of CR/LF "
        "mixtures at the start, inside and at the end of strings and PRINT# text (labelled "
        "ctl-run:<pattern>), lengths 0..255 boundary-weighted, with leading/trailing "
        "blanks, commas, control and high bytes; INTEGER/SINGLE/DOUBLE values incl. boundaries of "
        "the fixed/exponent notations; 1-4 items per WRITE#, INPUT# groups of 1-4 variables "
        "independent of the writing; PRINT# lines (any byte except CR/LF/0x1A; LF inside a line only "
        "with soft_linefeed) read by LINE INPUT#; 1-3 sessions with APPEND. Non-trivial: the "
        "sequence contains a string of >= 254 bytes, a string with comma/CR/LF/leading or trailing "
        "blank, or uses APPEND. Distinct = distinct case hash.")
ASSUMPTIONS = [
    "default configuration (soft_linefeed off): the expected read-back is the documented "
    "translation of what was written (model translate(): CR LF reads as CR, an LF not preceded by "
    "CR reads as CR): a quoted WRITE# string reads back translated, PRINT# text is cut into lines "
    "at every line break, INPUT$ sees the translated byte stream; with soft_linefeed=True the "
    "bytes read are the bytes written",
    "INPUT$(n,#1) over the whole file (chunk sizes from the case; files up to 1500 bytes) is an "
    "extra read-back of the same stream; C24's statement does not name INPUT$, the manual's "
    "newline treatment is what is asserted",
    "soft_linefeed=True: a LINE INPUT# line may contain LF but not as its last byte (LF CR is a "
    "continuation in the reader, GW-BASIC compatible), and never CR",
    "numbers: the value read must lie within 1 ulp (of the variable's type) of the decimal value of "
    "the text in the file; conversion accuracy proper is C07's subject. Variables have the type "
    "the value was written from. A DOUBLE variable may also receive the SINGLE nearest to a text "
    "of <= 7 digits without D exponent (GW-BASIC and VAL take such text for a SINGLE: .1 reads as "
    ".1000000014901161)",
    "LOF in OUTPUT/APPEND mode is compared with the model's byte count, not with the host file "
    "size at that moment (pending bytes in the write buffer count); the host size is compared "
    "after CLOSE only",
    "a 255-byte string followed by another item is a separate, reported finding (GW-compatible "
    "reader limit); generated strings are clipped to 254 bytes while it is present on the tree. "
    "The same mechanism guards the fixed findings (255-character line, leading CR LF in quotes): "
    "a region is searched whenever its directed regression case passes",
]

FNAME = 'SEQ.DAT'

K_STR255 = 'input.item-after-255-byte-string'
K_LINE255 = 'lineinput.line-after-255-char-line'

REG_STR255 = {'known': True, 'kind': 'write', 'soft': False, 'groups': [1],
              'sessions': [{'mode': 'O', 'stmts': [[{'t': 's', 'v': 'x' * 255}, {'t': '%', 'v': 7}]]}]}
REG_LINE255 = {'known': True, 'kind': 'print', 'soft': False, 'groups': [1],
               'sessions': [{'mode': 'O', 'stmts': [[{'t': 's', 'v': 'y' * 255}],
                                                     [{'t': 's', 'v': 'after'}]]}]}
K_LEADCRLF = 'input.string.leading-crlf-in-quotes'
REG_LEADCRLF = {'known': True, 'kind': 'write', 'soft': True, 'groups': [1],
                'sessions': [{'mode': 'O', 'stmts': [[{'t': 's', 'v': '\r\n'}]]}]}
K_CHUNKCRLF = 'inputstr.crlf-inside-chunk'
REG_CHUNKCRLF = {'known': True, 'kind': 'print', 'soft': False, 'groups': [1], 'chunks': [5],
                 'sessions': [{'mode': 'O', 'stmts': [[{'t': 's', 'v': 'ab'}], [{'t': 's', 'v': 'cd'}]]}]}
_REG = {K_STR255: REG_STR255, K_LINE255: REG_LINE255, K_LEADCRLF: REG_LEADCRLF,
        K_CHUNKCRLF: REG_CHUNKCRLF}
_PRESENT = {}


def defect_present(key):
    """Is the known defect present on the tree under test (probed once per process)?"""
    if key not in _PRESENT:
        _PRESENT[key] = None
        r = check_case(_REG[key])
        _PRESENT[key] = key in r.keys()
    return bool(_PRESENT[key])


import re
CTL_RUN = re.compile(b'[\r\n]+')
SUFFIX = {'s': '$', '%': '%', '!': '!', '#': '#'}
NBYTES = {'%': 2, '!': 4, '#': 8}
MKFN = {'%': 'MKI$', '!': 'MKS$', '#': 'MKD$'}


def decimal_value(text):
    """Exact value of BASIC number text such as -1.5E+10, .25, 1D-30, 123 -> Fraction (or None)."""
    t = text.strip().upper()
    if not t:
        return None
    sign = 1
    if t[0] in '+-':
        sign = -1 if t[0] == '-' else 1
        t = t[1:]
    exp = 0
    for ch in 'ED':
        if ch in t:
            t, e = t.split(ch, 1)
            try:
                exp = int(e)
            except ValueError:
                return None
            break
    if t.endswith(('!', '#', '%')):
        t = t[:-1]
    ip, _, fp = t.partition('.')
    if not (ip + fp).isdigit():
        return None
    return sign * Fraction(int(ip + fp), 10 ** len(fp)) * Fraction(10) ** exp


def single_like(text):
    """Number text that BASIC takes for a SINGLE: no D exponent, at most 7 significant digits."""
    t = text.strip().upper().lstrip('+-')
    if 'D' in t or t.endswith('#'):
        return False
    mant = t.split('E', 1)[0].replace('.', '').lstrip('0')
    return len(mant) <= 7


def translate(b):
    """
    The documented treatment of line breaks when a text file is read in the default configuration
    (soft_linefeed off: "PC-BASIC will accept both DOS and Unix newline conventions"): CR LF is one
    line break and reads as CR, an LF that does not follow a CR is a line break too and reads as CR;
    everything else is unchanged. Written as a plain left-to-right scan over the raw bytes.
    """
    out = bytearray()
    prev = None
    for c in b:
        if c == 10:
            if prev != 13:
                out.append(13)
        else:
            out.append(c)
        prev = c
    return bytes(out)


def clean_string(v, soft, kind):
    """Make a generated string a valid member of the input domain."""
    b = v.encode('latin-1')[:255]
    drop = b'\x1a'
    if kind == 'write':
        drop += b'"\x00'
    elif soft:
        drop += b'\r'
    b = bytes(c for c in b if c not in drop)
    if kind == 'print' and soft:
        b = b.rstrip(b'\n')
    return b


def clean_number(t, v):
    if t == '%':
        return max(-32768, min(32767, int(v)))
    x = float(v)
    if x != x or x in (float('inf'), float('-inf')):
        return 0.0
    if abs(x) > 1e38:
        x = 1e38 if x > 0 else -1e38
    if 0 < abs(x) < 1e-38:
        x = 0.0
    return x


class Run(object):

    def __init__(self, case, res):
        self.case, self.res = case, res
        self.known = bool(case.get('known'))
        self.kind = case['kind']
        self.soft = bool(case.get('soft'))
        self.stop = False
        self.clip = None

    def fail(self, key, msg):
        self.res.fail(key, msg)

    def ex(self, text, what=''):
        o = self.s.execute_line(text)
        if o.kind == 'budget':
            self.res.inconclusive = True
            self.stop = True
            return None
        if o.kind != 'ok':
            self.fail('escaped.%s@%s' % (o.exc, o.frame), '%s %r\n%s' % (what, text, o.tb))
            self.stop = True
            return None
        return o

    def ev(self, expr):
        o = self.s.evaluate(expr)
        if o.kind != 'ok' or o.errors:
            if o.kind == 'budget':
                self.res.inconclusive = True
            else:
                self.fail('query.' + (o.key() if o.kind != 'ok' else 'error'),
                          '%s -> %r' % (expr, o))
            self.stop = True
            return None
        return o.value

    def path(self):
        return os.path.join(self.s.sandbox.z, FNAME)

    def raw(self):
        with open(self.path(), 'rb') as f:
            return f.read()

    # ---------------------------------------------------------------------------------------

    def prepare(self):
        """Normalise the case into sessions of statements of (type, value) items."""
        region = K_STR255 if self.kind == 'write' else K_LINE255
        clip = (not self.known) and defect_present(region)
        sessions = []
        for sess in self.case['sessions'][:3]:
            stmts = []
            for stmt in sess['stmts']:
                items = []
                for it in stmt[:4]:
                    t = it['t'] if self.kind == 'write' else 's'
                    if t == 's':
                        v = clean_string(it['v'], self.soft, self.kind)
                        if (self.kind == 'write' and self.soft and v.startswith(b'\r\n')
                                and not self.known and defect_present(K_LEADCRLF)):
                            v = v.lstrip(b'\r')
                            self.res.excluded += 1
                            self.res.label('excluded:' + K_LEADCRLF)
                        if self.kind == 'write' and len(v) == 255 and clip:
                            v = v[:254]
                            self.res.excluded += 1
                            self.res.label('excluded:' + region)
                    else:
                        v = clean_number(t, it['v'])
                    items.append((t, v))
                if self.kind == 'print':
                    # the parts of one PRINT# statement form one line of at most 255 bytes
                    line = b''.join(v for _, v in items)[:255]
                    if len(line) == 255 and clip:
                        line = line[:254]
                        self.res.excluded += 1
                        self.res.label('excluded:' + region)
                    if self.soft:
                        line = line.rstrip(b'\n')
                    cut = len(items[0][1]) if len(items) > 1 else len(line)
                    items = [('s', line[:cut])] + ([('s', line[cut:])] if len(items) > 1 else [])
                if items:
                    stmts.append(items)
            sessions.append((sess['mode'], stmts))
        return sessions

    def write_all(self, sessions):
        """Write phase. Returns the list of statements (lists of items) the file must hold."""
        content = []
        prev = None
        for si, (mode, stmts) in enumerate(sessions):
            if si == 0 and self.case.get('oldsyntax'):
                text = 'OPEN "%s",#1,"%s"' % (mode, FNAME)
            else:
                text = 'OPEN "%s" FOR %s AS #1' % (FNAME, 'OUTPUT' if mode == 'O' else 'APPEND')
            o = self.ex(text, 'open')
            if o is None:
                return None
            if o.errors:
                self.fail('unexpected-error.open', '%s -> %r' % (text, o.errors))
                self.stop = True
                return None
            self.res.label('session:' + ('append' if mode == 'A' else 'output'))
            if mode == 'O':
                content = []
            elif prev is not None:
                self.res.nt(True)
            # LOF inside the write session, compared after CLOSE with the number of bytes the
            # statements so far must have produced: [(statements in the file so far, LOF(1))]
            lofs = []
            lof = self.ev('LOF(1)')
            if lof is None:
                return None
            lofs.append((len(content), lof))
            for items in stmts:
                names = []
                for i, (t, v) in enumerate(items):
                    name = 'V%d%s' % (i, SUFFIX[t])
                    self.s.set(name, v)
                    names.append(name)
                if self.kind == 'write':
                    text = 'WRITE #1, ' + ', '.join(names)
                else:
                    text = 'PRINT #1, ' + '; '.join(names)
                o = self.ex(text, 'write')
                if o is None:
                    return None
                if o.errors:
                    self.fail('unexpected-error.write', '%s with %r -> %r' % (text, items, o.errors))
                    self.stop = True
                    return None
                content.append(items)
                lof = self.ev('LOF(1)')
                if lof is None:
                    return None
                lofs.append((len(content), lof))
            o = self.ex('CLOSE #1', 'close')
            if o is None:
                return None
            raw = self.raw()
            if not raw.endswith(b'\x1a') or raw.count(b'\x1a') != 1:
                self.fail('file.eof-byte', 'after session %d (%s) the file has %d EOF bytes, ends '
                          'with %r' % (si, mode, raw.count(b'\x1a'), raw[-3:]))
                self.stop = True
                return None
            if mode == 'A' and prev is not None:
                if raw[:len(prev) - 1] != prev[:-1] or len(raw) < len(prev):
                    self.fail('file.append-not-after', 'APPEND changed the existing content: '
                              'before %r, after %r' % (_short(prev), _short(raw)))
                    self.stop = True
                    return None
            prev = raw
            # the model's byte counts: cumulative statement lengths taken from the closed file by
            # the framing walk (which checked every byte against what was written); for APPEND the
            # count starts at the previous content minus its EOF byte
            if self.walk(raw, content) is None:
                self.stop = True
                return None
            if len(raw) != (self.ends[-1] if self.ends else 0) + 1:
                self.fail('file.size', 'host file has %d bytes, statements produced %d + EOF' % (
                    len(raw), self.ends[-1] if self.ends else 0))
            for done, lof in lofs:
                want = self.ends[done - 1] if done else 0
                if lof != want:
                    self.fail('lof.output', 'session %d (%s), %d statement(s) in the file: LOF(1) = '
                              '%r, the statements so far produced %d bytes' % (
                                  si, mode, done, lof, want))
                    break
                if want >= 8192:
                    self.res.label('lof:beyond-8192-bytes')
                elif want >= 128:
                    self.res.label('lof:beyond-128-bytes')
        return content

    def walk(self, raw, content):
        """Independent framing walk over the file bytes. Returns number texts per item or None."""
        pos = 0
        body = raw[:-1]
        texts = []
        self.ends = []          # offset just after every statement's CR LF
        for si, items in enumerate(content):
            if self.kind == 'print':
                line = b''.join(v for _, v in items)
                exp = line + b'\r\n'
                if body[pos:pos + len(exp)] != exp:
                    self.fail('file.framing', 'line %d: file has %r, expected %r' % (
                        si, _short(body[pos:pos + len(exp) + 8]), _short(exp)))
                    return None
                pos += len(exp)
                self.ends.append(pos)
                continue
            for i, (t, v) in enumerate(items):
                if t == 's':
                    exp = b'"' + v + b'"'
                    if body[pos:pos + len(exp)] != exp:
                        self.fail('file.framing', 'statement %d item %d: file has %r, expected %r'
                                  % (si, i, _short(body[pos:pos + len(exp) + 8]), _short(exp)))
                        return None
                    pos += len(exp)
                    texts.append(None)
                else:
                    end = pos
                    while end < len(body) and body[end:end + 1] not in (b',', b'\r'):
                        end += 1
                    txt = body[pos:end].decode('latin-1')
                    if decimal_value(txt) is None:
                        self.fail('file.framing', 'statement %d item %d: number text %r' % (
                            si, i, txt))
                        return None
                    texts.append(txt)
                    pos = end
                sep = b',' if i + 1 < len(items) else b'\r\n'
                if body[pos:pos + len(sep)] != sep:
                    self.fail('file.framing', 'statement %d after item %d: separator %r, expected '
                              '%r' % (si, i, body[pos:pos + 2], sep))
                    return None
                pos += len(sep)
            self.ends.append(pos)
        if pos != len(body):
            self.fail('file.framing', 'trailing bytes %r' % _short(body[pos:]))
            return None
        return texts

    def read_back(self, raw, content, texts):
        # what must be read: with soft_linefeed the bytes as written; in the default configuration
        # their documented translation (translate()): inside a quoted WRITE# string every line
        # break reads as one CR; PRINT# text is cut into lines at every line break
        if self.kind == 'print':
            lines = [b''.join(v for _, v in items) for items in content]
            if not self.soft:
                text = translate(b''.join(ln + b'\r\n' for ln in lines))
                lines = text.split(b'\r')[:-1]
            flat = [('s', ln) for ln in lines]
            texts = [None] * len(flat)
        else:
            flat = [(t, v if (t != 's' or self.soft) else translate(v))
                    for items in content for t, v in items]
        o = self.ex('OPEN "%s" FOR INPUT AS #1' % FNAME, 'open-input')
        if o is None:
            return
        if o.errors:
            self.fail('unexpected-error.open-input', repr(o.errors))
            return
        groups = [max(1, min(4, int(g))) for g in (self.case.get('groups') or [1])]
        if self.kind == 'print':
            groups = [1]
        pos, gi = 0, 0
        seen255 = False
        region = K_STR255 if self.kind == 'write' else K_LINE255

        def key(k):
            return region if seen255 else k

        def check_lof(where):
            lof = self.ev('LOF(1)')
            if lof is not None and lof != len(raw):
                self.fail('lof.input', '%s: LOF(1) = %r, file has %d bytes' % (where, lof, len(raw)))

        check_lof('after OPEN')
        while pos < len(flat) and not self.stop:
            n = min(groups[gi % len(groups)], len(flat) - pos)
            gi += 1
            eof = self.ev('EOF(1)')
            if eof is None:
                return
            if eof != 0:
                self.fail(key('eof.early'), 'EOF(1) = %r before item %d of %d' % (eof, pos, len(flat)))
                return
            names = ['R%d%s' % (i, SUFFIX[flat[pos + i][0]]) for i in range(n)]
            text = ('LINE INPUT #1, ' if self.kind == 'print' else 'INPUT #1, ') + ', '.join(names)
            o = self.ex(text, 'read')
            if o is None:
                return
            if o.errors:
                self.fail(key('unexpected-error.read'), '%s at item %d -> %r' % (text, pos, o.errors))
                return
            for i in range(n):
                t, v = flat[pos + i]
                if t == 's':
                    got = self.s.get(names[i])
                    if got != v:
                        if (self.kind == 'write' and self.soft and v.startswith(b'\r\n')
                                and got == v[:1] + v[2:]):
                            self.fail(K_LEADCRLF, 'item %d: read %r, written %r' % (
                                pos + i, _short(got), _short(v)))
                            return
                        self.fail(key('lineinput.line' if self.kind == 'print' else 'input.string'),
                                  'item %d: read %r, expected %r (%s)' % (
                                      pos + i, _short(got), _short(v), 'as written' if self.soft
                                      else 'what was written, line breaks read as CR'))
                        return
                    if len(v) == 255:
                        seen255 = True
                        self.res.label('item:len255')
                else:
                    b = self.ev('%s(%s)' % (MKFN[t], names[i]))
                    if b is None:
                        return
                    got = mbf.decode(b)
                    want = decimal_value(texts[pos + i])
                    if t == '%' or want == 0:
                        ok = (got == want)
                    elif abs(want) < mbf.MINPOS:
                        # text below the smallest MBF number: underflows to zero (or the smallest)
                        ok = (got == 0 or abs(got) == mbf.MINPOS)
                        self.res.label('number:text-underflows')
                    else:
                        ok = abs(got - want) <= mbf.ulp_of_value(want, NBYTES[t])
                        if not ok and t == '#' and single_like(texts[pos + i]):
                            # GW-BASIC reads number text of up to 7 digits without a D exponent as
                            # a SINGLE (as VAL does) and widens it: .1 -> .1000000014901161
                            ok = (abs(got - want) <= mbf.ulp_of_value(want, 4)
                                  and mbf.representable(got, 4))
                            self.res.label('number:double-read-through-single')
                    if not ok:
                        self.fail(key('input.number'), 'item %d (%s): read %s (%r), file text %r' % (
                            pos + i, t, float(got), b, texts[pos + i]))
                        return
            pos += n
            if gi % 3 == 0:
                check_lof('after item %d' % pos)
        if self.stop:
            return
        eof = self.ev('EOF(1)')
        if eof is None:
            return
        if eof != -1:
            self.fail(key('eof.late'), 'EOF(1) = %r after the last of %d items' % (eof, len(flat)))
        check_lof('at end')
        self.ex('CLOSE #1')

    def read_chunks(self, raw):
        """Read the whole file with INPUT$(n,#1) in chunks: the same (translated) byte stream."""
        chunks = [max(1, min(255, int(c))) for c in (self.case.get('chunks') or [])]
        body = raw[:-1]
        if not chunks or len(body) > 1500:
            return
        want = body if self.soft else translate(body)
        region = (not self.soft) and b'\r\n' in body and max(chunks) > 1
        if region and not self.known and defect_present(K_CHUNKCRLF):
            chunks = [1]
            self.res.excluded += 1
            self.res.label('excluded:' + K_CHUNKCRLF)
        o = self.ex('OPEN "%s" FOR INPUT AS #1' % FNAME, 'open-input')
        if o is None or o.errors:
            return
        self.res.label('read:input$-chunks' + ('' if max(chunks) > 1 else '-bytewise'))
        got, ci = b'', 0
        while len(got) < len(want):
            n = min(chunks[ci % len(chunks)], len(want) - len(got))
            ci += 1
            piece = self.ev('INPUT$(%d,#1)' % n)
            if piece is None:
                return
            got += piece
            if got != want[:len(got)]:
                break
        if got != want:
            d = next((i for i in range(min(len(got), len(want))) if got[i] != want[i]),
                     min(len(got), len(want)))
            self.fail(K_CHUNKCRLF if region else 'inputstr.stream',
                      'INPUT$ chunks %r: stream differs at byte %d: read %r, expected %r' % (
                          chunks[:6], d, got[max(0, d - 6):d + 8], want[max(0, d - 6):d + 8]))
            return
        eof = self.ev('EOF(1)')
        if eof is not None and eof != -1:
            self.fail('eof.late', 'EOF(1) = %r after INPUT$ consumed the whole file' % eof)
        self.ex('CLOSE #1')

    def run(self):
        sessions = self.prepare()
        kwargs = {'soft_linefeed': True} if self.soft else {}
        with harness.Sess(budget=50000, **kwargs) as s:
            self.s = s
            content = self.write_all(sessions)
            if content is None or self.stop:
                return
            raw = self.raw()
            # labels / non-triviality
            for items in content:
                for t, v in items:
                    if t == 's':
                        if len(v) >= 254:
                            self.res.nt(True)
                            self.res.label('string:len>=254')
                        if v[:1] == b' ' or v[-1:] == b' ' or any(c in v for c in b',\r\n'):
                            self.res.nt(True)
                            self.res.label('string:separator-bytes')
                        if not v:
                            self.res.label('string:empty')
                        for mt in CTL_RUN.finditer(v):
                            run = mt.group().replace(b'\r', b'C').replace(b'\n', b'L').decode()
                            self.res.label('ctl-run:%s%s' % (
                                run if len(run) <= 4 else 'len>4',
                                ':soft' if self.soft else ''))
                            if len(run) >= 2:
                                self.res.label('ctl-run>=2@' + (
                                    'start' if mt.start() == 0 else
                                    'end' if mt.end() == len(v) else 'inside'))
                    else:
                        self.res.label('number:' + t)
            self.res.label('kind:' + self.kind + (':soft' if self.soft else ''))
            if not content:
                self.res.label('empty-file')
            texts = self.walk(raw, content)
            if texts is None:
                return
            self.read_back(raw, content, texts)
            if not self.stop and not self.res.fails:
                self.read_chunks(raw)
            extra = sorted(set(os.listdir(s.sandbox.z)) - {FNAME})
            if extra:
                self.fail('host.extra-files', repr(extra))


def _short(b):
    if b is None or len(b) <= 120:
        return b
    return b[:60] + b'...(%d bytes)...' % len(b) + b[-50:]


def check_case(case):
    res = Result()
    Run(case, res).run()
    return res


# ------------------------------------------------------------------------------------------------
# generators

def weighted(*pairs):
    table = [strat for strat, wgt in pairs for _ in range(wgt)]
    return st.integers(0, len(table) - 1).flatmap(lambda i: table[i])


def strat_string():
    anybyte = st.characters(min_codepoint=1, max_codepoint=255)
    tricky = st.sampled_from(list(' ,\r\n\t;:\'&!#%$ \xff\x01\x7f\x0c\x08aZ09-+.ED'))
    short = st.text(alphabet=st.one_of(anybyte, tricky, tricky), max_size=24)
    padded = st.builds(lambda a, b, c: a + b + c, st.sampled_from(['', ' ', '  ', ',', '\r', '\n']),
                       st.text(alphabet=anybyte, max_size=10),
                       st.sampled_from(['', ' ', '  ', ',', '\r', '\n', ' \r']))
    numberlike = st.sampled_from(['1', '-2.5', '1E+20', ' 12', '1,2', '&HFF', '1D5', '.5', '+'])
    long_ = st.builds(lambda n, fill, tail: (fill * 256)[:max(0, n - len(tail))] + tail,
                      st.sampled_from([253, 254, 255, 255, 255, 256, 300]),
                      st.sampled_from(['x', 'ab', ' ', ',', 'q\xe9', 'z\r']),
                      st.sampled_from(['', '', ' ', ',', 'end']))
    mid = st.text(alphabet=anybyte, min_size=60, max_size=200)
    # runs (length 1..4) of CR/LF mixtures at the start, inside and at the end of a string
    run = st.text(alphabet=st.sampled_from('\n\n\r'), min_size=1, max_size=4)
    bit = st.text(alphabet=st.sampled_from('ab ,x;'), max_size=5)
    ctl = st.builds(
        lambda shape, a, r1, b, r2, c: {
            0: r1 + b, 1: a + r1, 2: (a or 'a') + r1 + (b or 'b'), 3: a + r1 + (b or 'b') + r2 + c,
            4: r1, 5: r1 + (b or 'b') + r2}[shape],
        st.integers(0, 5), bit, run, bit, run, bit)
    return weighted((short, 6), (padded, 4), (numberlike, 1), (long_, 2), (mid, 1),
                    (st.just(''), 1), (ctl, 5))


def strat_item():
    s = st.builds(lambda v: {'t': 's', 'v': v}, strat_string())
    i = st.builds(lambda v: {'t': '%', 'v': v}, st.one_of(
        st.integers(-32768, 32767), st.sampled_from([0, 1, -1, 9, 10, 32767, -32768, 255, 256])))
    f32 = st.one_of(
        st.floats(min_value=-9.999999680285692e+37, max_value=9.999999680285692e+37, width=32,
                  allow_nan=False),
        st.sampled_from([0.0, 1.0, -1.0, 0.5, 0.1, 1e7, 9999999.0, 9999998.0, 16777216.0, 1e-7,
                         1.5e10, 123456.7, 1e38, -1e38, 1e-38, 3e-39, 0.01, 0.001, 100.5,
                         -0.000123]),
        st.integers(-10 ** 8, 10 ** 8).map(float))
    f64 = st.one_of(
        st.floats(min_value=-1e38, max_value=1e38, allow_nan=False),
        st.sampled_from([0.0, 1.0, -1.0, 0.1, 1e16, 9999999999999999.0, 1e15, 1e-16, 1e17,
                         123456789.123, 1e38, 1e-38, 0.3333333333333333, 1e7, 32768.0]),
        st.integers(-10 ** 17, 10 ** 17).map(float))
    sng = st.builds(lambda v: {'t': '!', 'v': v}, f32)
    dbl = st.builds(lambda v: {'t': '#', 'v': v}, f64)
    return weighted((s, 6), (i, 1), (sng, 2), (dbl, 2))


def strat_case(maxstmts):
    def sessions(kind):
        if kind == 'write':
            stmt = st.lists(strat_item(), min_size=1, max_size=4)
        else:
            stmt = st.lists(st.builds(lambda v: {'t': 's', 'v': v}, strat_string()), min_size=1,
                            max_size=2)
        # sessions that write well past the 8192-byte stream buffer (LOF must count pending bytes)
        filler = st.builds(lambda n, c: {'t': 's', 'v': (c * 254)[:n]}, st.integers(150, 254),
                           st.sampled_from(['x', 'ab', 'q ', ',', 'z\xe9']))
        bigstmt = st.lists(filler, min_size=3, max_size=4) if kind == 'write' else st.lists(
            filler, min_size=1, max_size=1)
        nbig = (10, 16) if kind == 'write' else (36, 48)
        big = st.integers(*nbig).flatmap(lambda n: st.lists(bigstmt, min_size=n, max_size=n))
        normal = st.integers(0, maxstmts).flatmap(
            lambda n: st.lists(stmt, min_size=n, max_size=n))
        stmts = weighted((normal, 9), (big, 1))
        first = st.builds(lambda m, ss: {'mode': m, 'stmts': ss}, st.sampled_from(['O', 'O', 'A']),
                          stmts)
        later = st.builds(lambda m, ss: {'mode': m, 'stmts': ss},
                          st.sampled_from(['A', 'A', 'A', 'O']), stmts)
        return st.builds(lambda a, b: [a] + b, first, st.lists(later, max_size=2))

    def build(kind, soft, sess, groups, old, chunks):
        return {'kind': kind, 'soft': soft, 'sessions': sess, 'groups': groups, 'oldsyntax': old,
                'chunks': chunks}

    chunks = st.one_of(st.none(), st.lists(st.sampled_from([1, 1, 2, 3, 5, 7, 16, 64, 255]),
                                           min_size=1, max_size=4))

    return st.sampled_from(['write', 'write', 'write', 'print']).flatmap(
        lambda kind: st.builds(build, st.just(kind), st.sampled_from([False, False, True]),
                               sessions(kind),
                               st.lists(st.integers(1, 4), min_size=1, max_size=4),
                               st.booleans(), chunks))


def units(tier):
    div = max(1, int(os.environ.get('VERIF_DIV', '1')))
    maxstmts = 8 if tier == 'quick' else 24
    return [
        Unit('roundtrip', 'hyp', shards=16, examples={'quick': 150 // div, 'thorough': 4000 // div},
             strategy=lambda: strat_case(maxstmts)),
    ]


REGRESSIONS = [
    # open finding: the item after a 255-byte quoted string is lost (reader stops at 255 characters
    # and leaves the closing quote in the stream)
    REG_STR255,
    # fixed 8d2b9643: LINE INPUT# after a 255-character line returned an empty line
    REG_LINE255,
    # fixed 1ba8183c: soft_linefeed, a quoted string starting with CR LF read back without the LF
    REG_LEADCRLF,
    # separators, blanks, numbers of all types, APPEND, grouped reading
    {'kind': 'write', 'soft': False, 'groups': [3, 1, 2], 'oldsyntax': True, 'sessions': [
        {'mode': 'O', 'stmts': [
            [{'t': 's', 'v': ' lead'}, {'t': 's', 'v': 'a,b'}, {'t': '%', 'v': -32768}],
            [{'t': '!', 'v': 1e-7}, {'t': '#', 'v': 0.1}, {'t': 's', 'v': ''},
             {'t': 's', 'v': 'x' * 254}]]},
        {'mode': 'A', 'stmts': [[{'t': 's', 'v': 'cr\rin'}, {'t': '#', 'v': 1e16}],
                                [{'t': 's', 'v': 'trail '}]]},
        {'mode': 'A', 'stmts': []}]},
    {'kind': 'write', 'soft': True, 'groups': [2], 'sessions': [
        {'mode': 'A', 'stmts': [[{'t': 's', 'v': 'a\nb'}, {'t': 's', 'v': 'a\r\nb'}],
                                [{'t': 's', 'v': '\n\rq\n'}, {'t': '!', 'v': 16777216.0}]]}]},
    {'kind': 'print', 'soft': False, 'groups': [1], 'sessions': [
        {'mode': 'O', 'stmts': [[{'t': 's', 'v': ' lead, "q" \x00\t'}], [{'t': 's', 'v': ''}],
                                [{'t': 's', 'v': 'y' * 200}, {'t': 's', 'v': 'z' * 54}]]},
        {'mode': 'A', 'stmts': [[{'t': 's', 'v': 'last'}]]}]},
    {'kind': 'print', 'soft': True, 'groups': [1], 'sessions': [
        {'mode': 'O', 'stmts': [[{'t': 's', 'v': 'a\nb'}], [{'t': 's', 'v': '\nc'}]]}]},
    # open finding: default configuration, INPUT$(n,#1) with n > 1 turns a CR LF that lies inside
    # one chunk into CR CR (byte-wise reads, INPUT# and LINE INPUT# fold it into one CR)
    REG_CHUNKCRLF,
    # runs of CR/LF mixtures in the default configuration (reviewer's wave-5 seed: LF LF lost a
    # character) and with soft_linefeed; read back by INPUT#, LINE INPUT# and INPUT$
    {'kind': 'write', 'soft': False, 'groups': [2, 1], 'chunks': [1], 'sessions': [
        {'mode': 'O', 'stmts': [
            [{'t': 's', 'v': 'gap\n\ngap'}, {'t': '%', 'v': 7}],
            [{'t': 's', 'v': '\n\n'}, {'t': 's', 'v': 'x\n\n\ny,z'}, {'t': 's', 'v': '\nstart'}],
            [{'t': 's', 'v': 'end\n'}, {'t': 's', 'v': 'a\r\n\nb'}, {'t': 's', 'v': '\n\r\n'}],
            [{'t': 's', 'v': 'c\r\rd'}, {'t': 's', 'v': '\n\n\r'}, {'t': '!', 'v': 2.5}]]},
        {'mode': 'A', 'stmts': [[{'t': 's', 'v': 'l\n\r\nm\r'}]]}]},
    {'kind': 'print', 'soft': False, 'groups': [1], 'chunks': [1], 'sessions': [
        {'mode': 'O', 'stmts': [[{'t': 's', 'v': 'gap\n\ngap'}], [{'t': 's', 'v': '\n'}],
                                [{'t': 's', 'v': 'a\rb\r\nc\n\rd'}], [{'t': 's', 'v': 'e\n'}]]}]},
    {'kind': 'write', 'soft': True, 'groups': [1], 'chunks': [3, 255], 'sessions': [
        {'mode': 'O', 'stmts': [[{'t': 's', 'v': 'gap\n\ngap'}], [{'t': 's', 'v': '\n\n\r\n'}],
                                [{'t': 's', 'v': '\r\ra\n\r'}]]}]},
    {'kind': 'print', 'soft': True, 'groups': [1], 'chunks': [2], 'sessions': [
        {'mode': 'O', 'stmts': [[{'t': 's', 'v': 'gap\n\ngap'}], [{'t': 's', 'v': '\n\nx'}]]}]},
    # LOF inside OUTPUT and APPEND sessions counts the bytes still in the write buffer (reviewer's
    # seeded change: fstat instead of seek) - before/after the 128-byte and 8192-byte marks
    {'kind': 'write', 'soft': False, 'groups': [4], 'sessions': [
        {'mode': 'O', 'stmts': [[{'t': 's', 'v': 'a'}]] + [[{'t': 's', 'v': 'x' * 250}] * 4] * 9},
        {'mode': 'A', 'stmts': [[{'t': '%', 'v': 1}], [{'t': 's', 'v': 'y' * 120}, {'t': '#', 'v': 0.5}]]},
        {'mode': 'A', 'stmts': []}]},
]

KILLS = [
    'InputMixin.input_entry: quote handling dropped (quoted = False)  => input.string',
    'TextFile.close writes no EOF byte  => file.eof-byte',
    'DiskDevice.open_stream: APPEND does not cut the old EOF byte  => file.eof-byte',
    'TextFile.lof subtracts the read-ahead  => lof.input',
    'input_entry: comma terminates inside quotes => input.string ; blanks inside quotes dropped => input.string ; 255 limit -> 254 => input.string',
    "Files.write_: separator ';' => file.framing ; no quotes => file.framing ; TextFile.write_line CR only => file.framing",
    'TextFileBase.eof ignores 0x1A  => eof.late',
    'TextFile.read_line: limit 200 => lineinput.line ; strips leading blanks => lineinput.line',
    'input_entry: trailing-blank skip after the closing quote removed  => input.string, input.number, eof.late',
    "TextFile.lof via os.fstat(fileno).st_size instead of seek (reviewer's seeded change: pending bytes of the write buffer not counted) => ./check red: lof.output ('LOF(1) = 0.0, the statements so far produced 4 bytes') ; variant that is only stale beyond 8192 pending bytes => lof.output in a >8 KiB session",
    "codepage.NewlineWrapper.read: 'last byte' state taken from the converted output (reviewer's wave-5 seed: of n consecutive LFs only ceil(n/2) survive) => ./check (tools/seedtest.py) red: input.string ('read CR, expected CR CR'), lineinput.line ; bare LF not translated => input.string, lineinput.line ; CR LF not folded => input.number, input.string, lineinput.line ; TextFile.read_one CRLF fold dropped (soft_linefeed) => input.string, eof.late",
    "SURVIVED (equivalent on POSIX): TextFile.__init__ APPEND seeks to the start - the stream is opened with mode 'a' (O_APPEND)",
]
