"""
C14 - RENUM renumbers lines and every reference to them consistently.

Three kinds of cases, all with symbolic line references (-> i-th line / -> a missing number):
  static : lines from the C17 grammar (every reference-taking keyword, look-alikes in strings,
           REM, DATA, PRINT); oracle = the same lines rendered under the RENUM mapping, the
           'Undefined line' messages, rejection rules
  run    : executable programs (forward jumps, GOSUB/RETURN n, ON..GOTO/GOSUB, RESTORE n, error
           handler with ERL tests and RESUME, dead lines holding RUN/LIST/DELETE/EDIT/AUTO/RENUM
           references, missing references in untaken branches); oracle = listing + the output of
           the renumbered program equals the output of the original with printed line numbers
           mapped
  trap   : the program runs to a STOP with ON ERROR GOTO / ON KEY(1) GOSUB active, RENUM in direct
           mode, then a probe line raises the error / an F1 key is injected; a twin session
           without RENUM gives the expected output
"""
import os
import re

from hypothesis import strategies as st

from vlib.core import Result, Unit
from vlib import harness, progio
from vlib import genlines as G

ID = 'C14'
LEVEL = 'exploration'
TECHNIQUE = ('symbolic-reference program generator; reference RENUM model (listing, messages, '
             'rejections); differential run of original vs. renumbered program; twin-session '
             'trap probe')
RULE = ("Programs of 3-25 lines with ascending random numbers (gaps 1..3000, start 0..), every line "
        "reference symbolic; RENUM new/old/increment each absent, an existing line, a number between "
        "lines, boundary values; accepted and rejected (overlap, > 65529, increment 0) sets. "
        "Non-trivial: RENUM accepted and changes at least one number and (static: a reference "
        "names a line whose number changes or a missing line; run: always; trap: the trap fired "
        "in the probe); distinct = distinct case.")
ASSUMPTIONS = [
    "ERL is 0 while no error has happened, and 0 is also a line number: when an ERL comparison's "
    "operand refers to line 0 before RENUM or is renumbered to 0, the rewritten program may "
    "legitimately test differently (GW-BASIC does the same); for such programs listing and "
    "messages are still checked but the behaviour comparison is skipped and counted as excluded",
    "the blank stored behind line number 0 (GW-BASIC quirk) stays with the line through RENUM",
    "trap cases with a rejected RENUM are skipped (the error is caught by the active trap)",
    "'Undefined line x in y': one message per missing reference naming x; y may be the old or the "
    "new number of the containing line (manual says old)",
    "the 0 of ON ERROR GOTO 0 is never renumbered nor reported (manual)",
    "a missing reference is resolved to a number that is neither an old nor a new line number, so "
    "that behaviour cannot change by a reference becoming valid",
    "run programs only jump forward / RESUME NEXT, so they terminate; a budget stop is inconclusive",
    "printed line numbers are recognised as '< n >' (ERL prints) and ' in n' (error/Break messages)",
]
KILLS = [
    "Program.renum: ON ERROR GOTO 0 exception removed -> list.mismatch, renum.messages",
    "Interpreter.renum_: handler.set_jump forgotten -> trap.behaviour",
    "Interpreter.renum_: on_error not remapped -> trap.behaviour",
    "Tokeniser._linenum_words without RESTORE -> list.mismatch (RESTORE reference not renumbered), renum.messages",
    "Program.renum overlap test `<=` -> `<` -> renum.not-rejected, list.mismatch",
    "Program.renum: 'Undefined line' message suppressed for some numbers -> renum.messages",
    "unfixed tree (before 3076c9fb): trap line outside the renumbered range -> escaped.KeyError@interpreter.py:renum_ (regression case)",
]

EXIST, MISSING = 100000, 200000


# ---------------------------------------------------------------------------------------------
# model

def resolve_missing(seed, taken):
    c = seed % 65530
    while c in taken:
        c = (c + 1) % 65530
    return c


def plan_for(case):
    nums = case['nums']
    new, old, inc = case['renum']
    if isinstance(old, list):
        old = nums[old[1] % len(nums)] + old[2]
        old = max(0, min(65529, old))
    if isinstance(new, list):
        new = nums[new[1] % len(nums)] + new[2]
        new = max(0, min(65529, new))
    mapping, err = progio.renum_plan(nums, new, old, inc)
    return new, old, inc, mapping, err


def write_program(s, texts, name='P.BAS'):
    with open(os.path.join(s.sandbox.z, name), 'wb') as f:
        for t in texts:
            f.write(t + b'\r\n')
        f.write(b'\x1a')


def load_program(s, texts, res):
    write_program(s, texts)
    o = s.execute(b'LOAD "P.BAS"')
    if o.kind == 'escaped':
        res.fail('escaped.%s@%s' % (o.exc, o.frame), 'LOAD: %s' % o.tb)
        return False
    if o.kind != 'ok' or o.errors:
        res.fail('harness.load', 'LOAD of %r -> %r' % (texts, o))
        return False
    return True


_MSG = re.compile(br'Undefined line (\d+) in (\d+)\r\n')


def check_messages(res, out, expected, what):
    """expected: list of (x, {allowed y})."""
    got = [(int(a), int(b)) for a, b in _MSG.findall(out)]
    rest = _MSG.sub(b'', out)
    if rest.strip(b'\r\n '):
        res.fail('renum.unexpected-output', '%s printed %r' % (what, out))
        return
    exp = sorted(expected, key=lambda t: (t[0], sorted(t[1])))
    gs = sorted(got)
    ok = len(gs) == len(exp)
    if ok:
        # greedy match on sorted x, y membership
        pool = list(exp)
        for x, y in gs:
            hit = None
            for i, (ex, ys) in enumerate(pool):
                if ex == x and y in ys:
                    hit = i
                    break
            if hit is None:
                ok = False
                break
            pool.pop(hit)
    if not ok:
        res.fail('renum.messages', '%s: messages %r, expected %r' % (what, got, expected))


def do_renum(s, res, new, old, inc, mapping, err, what):
    """Issue RENUM; classify. -> output bytes or None."""
    s.execute(b'CLS')
    cmd = b'RENUM' + progio.renum_args(new, old, inc)
    o = s.execute(cmd)
    if o.kind == 'escaped':
        res.fail('escaped.%s@%s' % (o.exc, o.frame), '%s %r: %s' % (what, cmd, o.tb))
        return None
    if o.kind != 'ok':
        res.inconclusive = True
        return None
    codes = [c for c, _ in o.errors]
    if mapping is None:
        if codes != [err]:
            res.fail('renum.not-rejected', '%s: %r must give error %d, got %r' % (what, cmd, err, o))
        return b''
    if codes:
        res.fail('renum.rejected', '%s: %r must be accepted, got %r' % (what, cmd, o))
        return None
    return o.output


def check_listing(s, res, expected, what):
    data, o = progio.list_to_file(s)
    got = progio.listing_lines(data)
    if got != expected:
        i = 0
        while got is not None and i < len(got) and i < len(expected) and got[i] == expected[i]:
            i += 1
        res.fail('list.mismatch', '%s: line %d listed %r, expected %r' % (
            what, i, got[i] if got and i < len(got) else got,
            expected[i] if i < len(expected) else None))
        return False
    return True


def zero_blank(old, new):
    """The blank stored behind line number 0 stays with the line when it gets another number."""
    return b' ' if (old == 0 and new != 0) else b''


# ---- static ----------------------------------------------------------------------------------

def resolve_atoms(atoms, nums, taken):
    """Symbolic jump codes -> concrete old numbers."""
    out = []
    for a in atoms:
        if a[0] == 'j' and a[1] >= EXIST:
            if a[1] >= MISSING:
                out.append(['j', resolve_missing(a[1] - MISSING, taken)])
            else:
                out.append(['j', nums[(a[1] - EXIST) % len(nums)]])
        else:
            out.append(a)
    return out


def check_static(case, res):
    nums = case['nums']
    new, old, inc, mapping, err = plan_for(case)
    taken = set(nums) | set((mapping or {}).values())
    lines = [resolve_atoms(at, nums, taken) for at in case['lines']]
    numset = set(nums)
    texts = [G.line_text(n, at) for n, at in zip(nums, lines)]
    if max(len(t) for t in texts) > 250:
        res.inconclusive = True
        return res
    res.label('renum:%s' % ('rejected' if mapping is None else
                            'identity' if all(k == v for k, v in mapping.items()) else 'accepted'))
    with harness.Sess() as s:
        if not load_program(s, texts, res):
            return res
        before = ['%d '.encode() % n + G.render(at)[1] for n, at in zip(nums, lines)]
        if not check_listing(s, res, before, 'before RENUM'):
            res.fails = [('harness.listing-before', m) for _, m in res.fails]
            return res
        out = do_renum(s, res, new, old, inc, mapping, err, 'static')
        if out is None:
            return res
        if mapping is None:
            check_listing(s, res, before, 'after rejected RENUM')
            return res
        expected, messages = [], []
        crossing = moved_ref = False
        for n, at in zip(nums, lines):
            miss = [numset]
            at2 = progio.renum_atoms(at, mapping, miss)
            nn = mapping.get(n, n)
            for x in miss[1:]:
                messages.append((x, {n, nn}))
            for a in at:
                if a[0] == 'j' and a[1] in numset:
                    if mapping.get(a[1], a[1]) != a[1]:
                        moved_ref = True
                    if (a[1] in mapping) != (n in mapping):
                        crossing = True
            body = G.render(at2)[1]
            expected.append('%d '.encode() % nn + zero_blank(n, nn) + body)
        check_listing(s, res, expected, 'after RENUM%s' % progio.renum_args(new, old, inc).decode())
        check_messages(res, out, messages, 'RENUM%s' % progio.renum_args(new, old, inc).decode())
        changed = any(k != v for k, v in mapping.items())
        res.label('missing-refs:%d' % min(len(messages), 5))
        res.nt(changed and (moved_ref or bool(messages)))
        if crossing:
            res.label('crossing')
    return res


# ---- run / trap -----------------------------------------------------------------------------

_REF = re.compile(r'\{([rm])(\d+)\}')


def render_template(tmpl, nums, taken, mapping=None):
    def sub(m):
        if m.group(1) == 'r':
            n = nums[int(m.group(2)) % len(nums)]
        else:
            n = resolve_missing(int(m.group(2)), taken)
            return str(n)
        return str(mapping.get(n, n) if mapping else n)
    return _REF.sub(sub, tmpl)


def template_missing(tmpl, taken):
    out = []
    words = re.findall(r'[A-Z]+|\{[rm]\d+\}', tmpl)
    for i, w in enumerate(words):
        if w.startswith('{m'):
            n = resolve_missing(int(w[2:-1]), taken)
            if n == 0 and words[max(0, i - 2):i] == ['ERROR', 'GOTO']:
                continue
            out.append(n)
    return out


_NUM_IN_OUT = re.compile(br'(< )(\d+)( >)|( in )(\d+)(\xff?\r\n)')


def map_output(out, mapping):
    def sub(m):
        if m.group(1):
            n = int(m.group(2))
            return m.group(1) + b'%d' % mapping.get(n, n) + m.group(3)
        n = int(m.group(5))
        return m.group(4) + b'%d' % mapping.get(n, n) + m.group(6)
    return _NUM_IN_OUT.sub(sub, out)


_ERL_REF = re.compile(r'ERL\s*[<>=]+\s*\{r(\d+)\}')


def erl_zero_ambiguity(case, nums, mapping):
    """
    An ERL comparison whose operand is line 0 before RENUM or becomes 0 by RENUM: while no error
    has happened ERL is 0 too, so the (correctly) rewritten operand changes the outcome of the test.
    """
    for t in case['lines']:
        for k in _ERL_REF.findall(t):
            n = nums[int(k) % len(nums)]
            if n == 0 or mapping.get(n, n) == 0:
                return True
    return False


def run_prog(s, res, cmd, what):
    s.execute(b'CLS')
    o = s.execute(cmd)
    if o.kind == 'escaped':
        res.fail('escaped.%s@%s' % (o.exc, o.frame), '%s %r: %s' % (what, cmd, o.tb))
        return None
    if o.kind != 'ok':
        res.inconclusive = True
        return None
    return o.output


def check_run(case, res):
    nums = case['nums']
    new, old, inc, mapping, err = plan_for(case)
    taken = set(nums) | set((mapping or {}).values())
    trap = case['u'] == 'trap'
    texts = [('%d %s' % (n, render_template(t, nums, taken))).encode('latin-1')
             for n, t in zip(nums, case['lines'])]
    res.label('renum:%s' % ('rejected' if mapping is None else
                            'identity' if all(k == v for k, v in mapping.items()) else 'accepted'))
    m = mapping or {}
    after = [b'%d ' % m.get(n, n) + zero_blank(n, m.get(n, n)) +
             render_template(t, nums, taken, m).encode('latin-1')
             for n, t in zip(nums, case['lines'])]
    messages = []
    for n, t in zip(nums, case['lines']):
        for x in template_missing(t, taken):
            messages.append((x, {n, m.get(n, n)}))
    with harness.Sess(budget=30000) as a, harness.Sess(budget=30000) as b:
        if not load_program(a, texts, res) or not load_program(b, texts, res):
            return res
        if not check_listing(b, res, texts, 'before RENUM'):
            res.fails = [('harness.listing-before', msg) for _, msg in res.fails]
            return res
        if trap:
            out_a = run_prog(a, res, b'RUN', 'original')
            out_b0 = run_prog(b, res, b'RUN', 'twin')
            if out_a is None or out_b0 is None:
                return res
            if out_a != out_b0:
                res.fail('harness.nondeterministic', '%r vs %r' % (out_a, out_b0))
                return res
        if trap and mapping is None:
            # the Illegal function call of a rejected RENUM is caught by the active error trap
            res.label('trap-rejected-skipped')
            return res
        out = do_renum(b, res, new, old, inc, mapping, err, case['u'])
        if out is None:
            return res
        if mapping is not None:
            check_messages(res, out, messages, 'RENUM%s' % progio.renum_args(new, old, inc).decode())
        check_listing(b, res, after, 'after RENUM%s' % progio.renum_args(new, old, inc).decode())
        if erl_zero_ambiguity(case, nums, m):
            # structural checks above stay; the behaviour clause is not asserted
            res.label('excluded: ERL vs line 0 ambiguity')
            res.excluded += 1
            return res
        if trap:
            fired = False
            for pi in case['probes']:
                pn = nums[pi % len(nums)]
                for sess_, num in ((a, pn), (b, m.get(pn, pn))):
                    if case.get('key'):
                        sess_.put_signal(harness.signals.KEYB_DOWN, (u'', 0x3b, []))
                oa = run_prog(a, res, b'GOTO %d' % pn, 'original probe')
                ob = run_prog(b, res, b'GOTO %d' % m.get(pn, pn), 'renumbered probe')
                if oa is None or ob is None:
                    return res
                if b'<' in oa or b'K\r\n' in oa:
                    fired = True
                if map_output(oa, m) != ob:
                    res.fail('trap.behaviour', 'probe line %d (now %d): original %r, after RENUM%s %r'
                             % (pn, m.get(pn, pn), oa, progio.renum_args(new, old, inc).decode(), ob))
                    break
            res.label('trap-fired' if fired else 'trap-not-fired')
            changed = any(k != v for k, v in m.items())
            res.nt(changed and fired)
            tl = case.get('trapline')
            if tl is not None and mapping is not None:
                tn = nums[tl % len(nums)]
                res.label('trap-line:%s' % ('inside' if tn in mapping else 'outside'))
        else:
            out_a = run_prog(a, res, b'RUN', 'original')
            out_b = run_prog(b, res, b'RUN', 'renumbered')
            if out_a is None or out_b is None:
                return res
            if map_output(out_a, m) != out_b:
                res.fail('run.behaviour', 'original prints %r, after RENUM%s %r' % (
                    out_a, progio.renum_args(new, old, inc).decode(), out_b))
            changed = any(k != v for k, v in m.items())
            res.nt(changed)
            res.label('out-lines:%d' % min(out_a.count(b'\n') // 5 * 5, 30))
            if b'<' in out_a:
                res.label('erl-printed')
            if b' in ' in out_a:
                res.label('error-message')
        res.label('missing-refs:%d' % min(len(messages), 5))
    return res


def check_case(case):
    res = Result()
    if case['u'] == 'static':
        return check_static(case, res)
    if case['u'] in ('run', 'trap'):
        return check_run(case, res)
    raise ValueError(case['u'])


# ---------------------------------------------------------------------------------------------
# generators

def st_nums(n):
    """n ascending line numbers."""
    def build(start, gaps):
        out, cur = [], start
        for g in gaps:
            out.append(cur)
            cur += g
        if out[-1] > 65529:
            # compress into range
            out = [min(65529 - (len(out) - 1 - i), x) for i, x in enumerate(out)]
        return out
    gap = st.one_of(st.just(10), st.just(1), st.integers(1, 50), st.integers(1, 3000))
    return st.builds(build, st.one_of(st.sampled_from([0, 1, 10, 100, 1000]), st.integers(0, 30000)),
                     st.lists(gap, min_size=n, max_size=n))


def st_arg():
    """RENUM new/old: absent, an existing line (+- offset), or an absolute number."""
    return st.one_of(
        st.none(), st.none(),
        st.tuples(st.integers(0, 40), st.sampled_from([0, 0, 0, 1, -1, 5, -5])).map(
            lambda t: ['idx', t[0], t[1]]),
        st.sampled_from([0, 1, 10, 100, 1000, 5000, 30000, 60000, 65000, 65520, 65529]),
        st.integers(0, 65529))


def st_renum():
    inc = st.one_of(st.none(), st.none(), st.sampled_from([1, 2, 5, 10, 100, 1000, 5000]),
                    st.integers(1, 300), st.just(0))
    return st.tuples(st_arg(), st_arg(), inc).map(list)


def st_symjump():
    return st.one_of(st.integers(0, 39).map(lambda k: ['j', EXIST + k]),
                     st.integers(0, 39).map(lambda k: ['j', EXIST + k]),
                     st.integers(0, 39).map(lambda k: ['j', EXIST + k]),
                     st.integers(0, 65529).map(lambda k: ['j', MISSING + k]))


@st.composite
def st_jump_line(draw):
    """1-3 reference-taking statements of the C17 grammar with symbolic references."""
    b = G._B(draw, 'advanced', st_symjump())
    atoms = []
    for i in range(draw(st.integers(1, 3))):
        stt = G._flatten(b.jump_statement())
        cand = G.canonical(atoms + ([['p', ':']] if atoms else []) + stt)
        if G.body_len(cand) > 120:
            break
        atoms = cand
    return atoms or [['k', 'END', 0]]


def strat_static():
    def lines(n):
        body = st.one_of(
            G.st_line_atoms('advanced', jumps=st_symjump(), max_len=120, max_statements=3),
            st_jump_line(), st_jump_line())
        # make sure references are frequent: half of the lines start with a jump statement
        return st.tuples(st_nums(n), st.lists(body, min_size=n, max_size=n), st_renum()).map(
            lambda t: {'u': 'static', 'nums': t[0], 'lines': t[1], 'renum': t[2]})
    return st.integers(2, 14).flatmap(lines)


@st.composite
def strat_run(draw, trap=False):
    d = draw
    n_main = d(st.integers(3, 9))
    handlers_first = d(st.booleans())
    n_dead = d(st.integers(0, 3))
    n_sub = d(st.integers(1, 2))
    n_data = d(st.integers(1, 2))
    # layout
    order = ['setup']
    if handlers_first:
        order += ['H', 'H2', 'K']
    order += ['main%d' % i for i in range(n_main)] + ['tail']
    if trap:
        order += ['P1', 'P2']
    order += ['dead%d' % i for i in range(n_dead)]
    order += ['sub%d' % i for i in range(n_sub)]
    if not handlers_first:
        order += ['H', 'H2', 'K']
    order += ['data%d' % i for i in range(n_data)]
    idx = {name: i for i, name in enumerate(order)}
    n = len(order)

    def r(name):
        return '{r%d}' % idx[name]

    def miss():
        return '{m%d}' % d(st.integers(0, 65529))

    def anyref():
        return '{r%d}' % d(st.integers(0, n - 1)) if d(st.integers(0, 3)) else miss()

    use_err = d(st.integers(0, 3)) > 0 or trap
    use_key = d(st.booleans())
    lines = {}
    setup = []
    if use_err:
        setup.append('ON ERROR GOTO %s' % r('H'))
    if use_key:
        setup.append('ON KEY(1) GOSUB %s:KEY(1) ON' % r('K'))
    if d(st.integers(0, 3)) == 0:
        setup.append('ON TIMER(3000) GOSUB %s:TIMER ON' % r('K'))
    setup.append('PRINT "GO"')
    if handlers_first:
        setup.append('GOTO %s' % r('main0'))
    lines['setup'] = ':'.join(setup)
    mains = ['main%d' % i for i in range(n_main)] + ['tail']
    for i in range(n_main):
        fwd = mains[i + 1:]
        f = lambda: r(d(st.sampled_from(fwd)))      # noqa: E731
        sub = lambda: r('sub%d' % d(st.integers(0, n_sub - 1)))     # noqa: E731
        parts = ['PRINT "M%d"' % i]
        c = d(st.integers(0, 17))
        if c == 0:
            parts.append('GOTO %s' % f())
        elif c == 1:
            parts.append('IF %d THEN %s ELSE %s' % (d(st.integers(0, 1)), f(), f()))
        elif c == 2:
            parts.append('IF %d GOTO %s' % (d(st.integers(0, 1)), f()))
        elif c == 3:
            parts.append('IF 0 THEN %s ELSE PRINT "x"' % miss())
        elif c == 4:
            parts.append('IF 1 THEN PRINT "t" ELSE %s' % miss())
        elif c == 5:
            k = d(st.integers(0, 4))
            parts.append('ON %d GOTO %s,%s,%s' % (k, f(), f(), f()))
        elif c in (6, 7):
            parts.append('GOSUB %s' % sub())
        elif c == 8:
            parts.append('ON %d GOSUB %s,%s' % (d(st.integers(0, 3)), sub(), sub()))
        elif c == 9:
            parts.append('RESTORE %s:READ A:PRINT A' % r('data%d' % d(st.integers(0, n_data - 1))))
        elif c == 10:
            parts.append('RESTORE:READ A,B:PRINT A;B')
        elif c in (11, 12, 17):
            parts.append('ERROR %d' % d(st.sampled_from([5, 6, 11, 200])))
            parts.append('PRINT "after"')
        elif c == 13:
            parts.append('ON ERROR GOTO %s' % ('0' if d(st.booleans()) else r('H')))
        elif c == 14:
            parts.append('PRINT 100;"GOTO 100;%s":REM GOTO 100, GOSUB 10' % d(st.sampled_from(
                ['10', '20', '100'])))
        elif c == 15:
            parts.append('DATA 100,200:IF ERL=%s THEN PRINT "erl"' % anyref())
        elif c == 16:
            parts.append('IF ERL<>%s THEN PRINT "ne" ELSE %s' % (r(d(st.sampled_from(order))), miss()))
        lines['main%d' % i] = ':'.join(parts)
    lines['tail'] = 'PRINT "STOP":STOP' if trap else 'PRINT "END":END'
    if trap:
        lines['P1'] = 'PRINT "P":ERROR %d:PRINT "Q":END' % d(st.sampled_from([5, 11]))
        lines['P2'] = 'FOR I=1 TO 30:NEXT:PRINT "W":END'
    for i in range(n_dead):
        c = d(st.integers(0, 9))
        lines['dead%d' % i] = [
            'RUN %s' % anyref(), 'LIST %s-%s' % (anyref(), anyref()), 'DELETE %s' % anyref(),
            'EDIT %s' % anyref(), 'AUTO %s,%s' % (anyref(), anyref()),
            'RENUM %s,%s,%s' % (anyref(), anyref(), anyref()), 'LLIST -%s' % anyref(),
            'GOTO %s:GOSUB %s' % (miss(), anyref()),
            'IF ERL>%s THEN %s ELSE %s' % (anyref(), anyref(), anyref()),
            'ON X GOTO %s,%s:RESUME %s:RETURN %s' % (anyref(), miss(), anyref(), anyref())][c]
    for i in range(n_sub):
        lines['sub%d' % i] = 'PRINT "S%d":RETURN' % i + (
            ' %s' % r('tail') if d(st.integers(0, 2)) == 0 else '')
    erl_ref = r(d(st.sampled_from(mains[:-1] + (['P1'] if trap else []))))
    lines['H'] = 'PRINT "<";ERL;">";ERR:IF ERL=%s THEN PRINT "=" ELSE PRINT "#"' % erl_ref
    lines['H2'] = 'RESUME NEXT' if d(st.integers(0, 3)) else 'RESUME %s' % r('tail')
    lines['K'] = 'PRINT "K":RETURN'
    for i in range(n_data):
        lines['data%d' % i] = 'DATA %d,%d' % (10 * i + 11, 10 * i + 12)
    nums = d(st_nums(n))
    case = {'u': 'trap' if trap else 'run', 'nums': nums, 'lines': [lines[k] for k in order],
            'renum': d(st_renum())}
    if trap:
        case['probes'] = [idx['P1'], idx['P2']]
        case['key'] = use_key
        case['trapline'] = idx['H']
        # bias old towards a line so that the handler lies before / inside / after the range
        if d(st.integers(0, 3)):
            case['renum'][1] = ['idx', d(st.integers(0, n - 1)), d(st.sampled_from([0, 0, 1]))]
            case['renum'][0] = ['idx', n - 1, d(st.sampled_from([1, 10, 1000]))]
    return case


def units(tier):
    return [
        Unit('static', 'hyp', shards=16, examples={'quick': G.scaled(60), 'thorough': G.scaled(1500)},
             strategy=strat_static),
        Unit('run', 'hyp', shards=16, examples={'quick': G.scaled(40), 'thorough': G.scaled(1200)},
             strategy=strat_run),
        Unit('trap', 'hyp', shards=16, examples={'quick': G.scaled(25), 'thorough': G.scaled(800)},
             strategy=lambda: strat_run(trap=True)),
    ]


REGRESSIONS = [
    # fixed 3076c9fb: trap line outside the renumbered range raised KeyError in renum_
    {'u': 'trap', 'nums': [10, 20, 30, 40, 50, 60, 70],
     'lines': ['ON ERROR GOTO {r1}:ON KEY(1) GOSUB {r3}:KEY(1) ON:GOTO {r4}',
               'PRINT "<";ERL;">";ERR:IF ERL={r5} THEN PRINT "=" ELSE PRINT "#"', 'RESUME NEXT',
               'PRINT "K":RETURN', 'PRINT "STOP":STOP', 'PRINT "P":ERROR 5:PRINT "Q":END',
               'FOR I=1 TO 30:NEXT:PRINT "W":END'],
     'renum': [1000, 40, None], 'probes': [5, 6], 'key': True, 'trapline': 1},
    {'u': 'trap', 'nums': [10, 20, 30, 40, 50, 60, 70],
     'lines': ['ON ERROR GOTO {r4}:ON KEY(1) GOSUB {r6}:KEY(1) ON',
               'PRINT "STOP":STOP', 'PRINT "P":ERROR 5:PRINT "Q":END',
               'FOR I=1 TO 30:NEXT:PRINT "W":END',
               'PRINT "<";ERL;">";ERR:IF ERL={r2} THEN PRINT "=" ELSE PRINT "#"', 'RESUME NEXT',
               'PRINT "K":RETURN'],
     'renum': [5, None, 3], 'probes': [2, 3], 'key': True, 'trapline': 4},
    {'u': 'run', 'nums': [10, 20, 30, 40, 50, 60],
     'lines': ['ON ERROR GOTO {r4}:PRINT "GO"', 'PRINT "M0":ERROR 5:PRINT "after"',
               'PRINT "M1":IF 0 THEN {m7} ELSE PRINT "x"', 'PRINT "END":END',
               'PRINT "<";ERL;">";ERR:IF ERL={r1} THEN PRINT "=" ELSE PRINT "#"', 'RESUME NEXT'],
     'renum': [100, 20, 7]},
    {'u': 'static', 'nums': [0, 10, 20],
     'lines': [[['k', 'ON', 0], ['sp', 1], ['k', 'ERROR', 0], ['sp', 1], ['k', 'GOTO', 0], ['sp', 1],
                ['j', 0]],
               [['k', 'GOTO', 0], ['sp', 1], ['j', EXIST + 0], ['p', ':'], ['k', 'PRINT', 0], ['sp', 1],
                ['n', 'b', 20], ['p', ';'], ['s', 'GOTO 20', True]],
               [['k', 'IF', 0], ['sp', 1], ['k', 'ERL', 0], ['o', '='], ['j', EXIST + 1], ['sp', 1],
                ['k', 'THEN', 0], ['sp', 1], ['j', MISSING + 20], ['sp', 1], ['k', 'ELSE', 0],
                ['sp', 1], ['j', EXIST + 2]]],
     'renum': [100, None, None]},
]
