"""
C22 - READ returns DATA items in program order.

A case is a straight-line program given as a statement tree (lines of statements): DATA statements
with explicit items, READ statements with typed targets, RESTORE / RESTORE n, filler statements,
REM/' comments and string literals that hide a DATA keyword.  The reference item list is built
from the tree (never from program text); a small pointer model predicts every value read, every
Out of DATA (4), every Syntax error (2, reported for the DATA line) and every Undefined line
number (8).  Every READ target is its own array element, and a trap handler records ERR, ERL and
the index of the running READ/RESTORE statement, so each statement is judged on its own.
"""
from fractions import Fraction

from hypothesis import strategies as st

from vlib.core import Result, Unit
from vlib import harness

ID = 'C22'
LEVEL = 'exploration'
TECHNIQUE = ("Hypothesis-generated straight-line programs as statement trees; reference item list "
             "and data-pointer model built from the tree; per-statement comparison of values and "
             "trapped (ERR, ERL)")
RULE = ("Programs of 3-14 lines decoded from a Hypothesis-drawn genome: DATA statements alone on a "
        "line, after and before other statements (0-3 blanks after the line number or the colon in "
        "front of every statement), two on a line, behind REM or ' (hidden), next to "
        "string literals containing ':DATA'; items: quoted strings (commas, colons, blanks inside), "
        "unquoted strings with inner/leading/trailing blanks, integers, dyadic decimals, &H and E "
        "forms, empty items, a last item whose quote is closed only by the end of the line; lines "
        "ending inside a string literal (Z$=\"x, IF .. THEN PRINT \"x) and comments with an odd "
        "number of quotes between the data pointer and the next DATA; READ lists of 1-4 targets of type $ % ! #; RESTORE, RESTORE n with n a "
        "the first line of the program (with and without a DATA statement on it), a DATA line, a "
        "line without DATA, the lowest generated line, the last line, a missing line (target "
        "position is a generated dimension).  Run under ON ERROR GOTO with "
        "RESUME NEXT, or untrapped (stops at the first error).  Non-trivial: at least two visible "
        "DATA statements on different lines and an executed RESTORE, or an empty item or a quoted "
        "item containing a comma/colon is read; distinct = distinct case.")
ASSUMPTIONS = [
    "after a Syntax error in a DATA item, after an Overflow and after a failed RESTORE the position "
    "of the data pointer is not specified: READs are not asserted until the next successful RESTORE",
    "the value left in the target of a READ that raised is not asserted",
    "numeric items are integers or dyadic decimals that are never halves, so conversion to the "
    "target type is exact or rounds unambiguously",
    "blanks inside numeric items, text after a closing quote and trailing blanks after an unclosed "
    "quote are not generated",
]

MAXSLOT = 60


# ---------------------------------------------------------------------------------------------
# statements (JSON lists)
#   ['data', [item...]]     item = [kind, text, padleft, padright]   kind: q u n e
#   ['read', [[type, slot]...]]    ['restore', n|None]    ['let']    ['strlit', text]
#   ['rem', style, text]   style: 'REM' or "'" -- hides the rest of the line
#   ['open', form, text]   Z$="text  (no closing quote; last statement of the line)
#   item kind 'o': "text without closing quote (last item of the last statement of the line)

def render_item(it):
    kind, text, pl, pr = it
    if kind == 'o':
        # quoted item closed only by the end of the line (last item of the last statement)
        return ' ' * pl + '"' + text
    body = '"%s"' % text if kind == 'q' else text
    return ' ' * pl + body + ' ' * pr


def render_stmt(stm, seq):
    k = stm[0]
    if k == 'data':
        return 'DATA' + (' ' if stm[1] and stm[1][0][0] != 'e' else '') + ','.join(
            render_item(it) for it in stm[1])
    if k == 'read':
        return 'SC%%=%d:READ %s' % (seq, ','.join('%s(%d)' % (ARR[t], slot) for t, slot in stm[1]))
    if k == 'restore':
        return 'SC%%=%d:RESTORE' % seq + ('' if stm[1] is None else ' %d' % stm[1])
    if k == 'let':
        return 'X=X+1'
    if k == 'strlit':
        return 'Z$="%s"' % stm[1]
    if k == 'open':
        # a string literal that only the end of the line closes (last statement of its line)
        return {'let': 'Z$="%s', 'cat': 'Z$=Z$+"%s', 'if': 'IF X=-9 THEN PRINT "%s'}[stm[1]] % stm[2]
    if k == 'rem':
        return stm[1] + ' ' + stm[2] if stm[1] == 'REM' else "' " + stm[2]
    raise ValueError(stm)


ARR = {'$': 'S$', '%': 'I%', '!': 'F!', '#': 'D#'}


def program_text(case):
    out = []
    seq = 0
    if case['route'] == 'trap':
        out.append('1 ON ERROR GOTO 9000')
    out.append('2 DIM S$(%d),I%%(%d),F!(%d),D#(%d),E%%(%d),L!(%d),T%%(%d)' % ((MAXSLOT,) * 7))
    if case.get('head'):
        # a DATA statement on the very first line of the program (behind its other statement)
        out[0] += ':' + ' ' * case['head'][0] + render_stmt(case['head'][1], 0)
    pads = case.get('pads') or []
    for li, (lineno, stmts) in enumerate(case['lines']):
        parts = []
        lpads = pads[li] if li < len(pads) else []
        for si, stm in enumerate(stmts):
            if stm[0] in ('read', 'restore'):
                seq += 1
            # blanks in front of the statement (after the line number or the colon)
            txt = ' ' * (lpads[si] if si < len(lpads) else 0) + render_stmt(stm, seq)
            if stm[0] == 'rem' and stm[1] == "'" and parts:
                parts[-1] = parts[-1] + txt          # 10 X=1' comment
                continue
            parts.append(txt)
        out.append('%d %s' % (lineno, ':'.join(parts)))
    out.append('8999 END')
    out.append('9000 E%(EC%)=ERR:L!(EC%)=ERL:T%(EC%)=SC%:EC%=EC%+1:RESUME NEXT')
    return out


# ---------------------------------------------------------------------------------------------
# reference model

def numeric_value(text):
    t = text.strip().upper()
    if t.startswith('&H'):
        return Fraction(int(t[2:], 16))
    if 'E' in t:
        m, e = t.split('E')
        return Fraction(m) * Fraction(10) ** int(e)
    return Fraction(t)


def to_type(v, t):
    if t == '%':
        if v.denominator != 1:
            fl = v.numerator // v.denominator
            assert v - fl != Fraction(1, 2)
            v = Fraction(fl if v - fl < Fraction(1, 2) else fl + 1)
        return v
    return v


def first_line(case):
    return 1 if case['route'] == 'trap' else 2


def visible_lines(case):
    """Lines with their statements, the head DATA of the first program line included."""
    head = [[first_line(case), [case['head'][1]]]] if case.get('head') else []
    return head + case['lines']


def model(case):
    """-> (statements, items, info)
    statements: list of dicts per READ/RESTORE statement in execution order:
       {'seq', 'line', 'known', 'event': (code, line)|None, 'values': [(type, slot, value)]}"""
    items = []          # (line, kind, text)
    linenos = [ln for ln, _ in case['lines']] + [8999, 9000]
    if case['route'] == 'trap':
        linenos.append(1)
    linenos.append(2)
    ndata_lines = set()
    for lineno, stmts in visible_lines(case):
        for stm in stmts:
            if stm[0] == 'rem':
                break
            if stm[0] == 'data':
                ndata_lines.add(lineno)
                its = stm[1] or [['e', '', 0, 0]]
                for it in its:
                    items.append((lineno, it[0], it[1]))
    out = []
    ptr = 0             # None = unknown
    seq = 0
    info = {'restores': 0, 'special-read': False, 'data-lines': len(ndata_lines),
            'restore-targets': set()}
    for lineno, stmts in case['lines']:
        hidden = False
        for stm in stmts:
            if stm[0] in ('read', 'restore'):
                seq += 1
            if stm[0] == 'rem':
                hidden = True
                continue
            if hidden:
                continue
            if stm[0] == 'restore':
                rec = {'seq': seq, 'line': lineno, 'known': True, 'event': None, 'values': [],
                       'kind': 'restore'}
                if stm[1] is None:
                    ptr = 0
                    info['restores'] += 1
                elif stm[1] in linenos:
                    info['restore-targets'].add(
                        'first-line' if stm[1] == min(linenos) else
                        'last-line' if stm[1] >= 8999 else
                        'data-line' if stm[1] in ndata_lines else 'line-without-data')
                    ptr = len(items)
                    for i, it in enumerate(items):
                        if it[0] >= stm[1]:
                            ptr = i
                            break
                    info['restores'] += 1
                else:
                    info['restore-targets'].add('missing-line')
                    rec['event'] = (8, lineno)
                    ptr = None
                out.append(rec)
            elif stm[0] == 'read':
                rec = {'seq': seq, 'line': lineno, 'known': ptr is not None, 'event': None,
                       'values': [], 'kind': 'read'}
                out.append(rec)
                if ptr is None:
                    continue
                for t, slot in stm[1]:
                    if ptr >= len(items):
                        rec['event'] = (4, lineno)
                        break
                    dline, kind, text = items[ptr]
                    if t == '$':
                        rec['values'].append((t, slot, text))
                        if kind == 'e' or (kind == 'q' and (',' in text or ':' in text)):
                            info['special-read'] = True
                        ptr += 1
                    elif kind == 'n':
                        rec['values'].append((t, slot, to_type(numeric_value(text), t)))
                        ptr += 1
                    elif kind == 'e':
                        rec['values'].append((t, slot, Fraction(0)))
                        info['special-read'] = True
                        ptr += 1
                    else:
                        rec['event'] = (2, dline)
                        rec['first-of-statement'] = _first_in_stmt(case, ptr)
                        ptr = None
                        break
    return out, items, info


def _first_in_stmt(case, idx):
    """Is global item idx the first item of its DATA statement?"""
    n = 0
    for lineno, stmts in visible_lines(case):
        for stm in stmts:
            if stm[0] == 'rem':
                break
            if stm[0] == 'data':
                cnt = len(stm[1]) or 1
                if n == idx:
                    return True
                if n < idx < n + cnt:
                    return False
                n += cnt
    return False


# ---------------------------------------------------------------------------------------------
# oracle

def check_case(case):
    res = Result()
    stmts, items, info = model(case)
    text = program_text(case)
    route = case['route']
    res.label('route.' + route)
    res.label('data-lines.%d' % min(info['data-lines'], 4))
    flat = [stm for _, sts in case['lines'] for stm in sts]
    if any(stm[0] == 'open' for stm in flat):
        res.label('line-ends-in-open-string')
    if any(stm[0] == 'data' and stm[1] and stm[1][-1][0] == 'o' for stm in flat):
        res.label('data-ends-in-open-quote')
    if any(stm[0] == 'rem' and stm[2].count('"') % 2 for stm in flat):
        res.label('comment-with-odd-quotes')
    with harness.Sess(budget=5000) as s:
        o = s.execute('\n'.join(text) + '\nRUN')
        where = '\n'.join(text)
        if o.kind == 'budget':
            res.inconclusive = True
            return res
        if o.kind != 'ok':
            res.fail('escaped.%s@%s' % (o.exc, o.frame), '%s\n%s' % (where, o.tb))
            return res
        arrays = {t: s.get(ARR[t] + '()') for t in ARR}
        if route == 'trap':
            if o.errors:
                res.fail('trap.message-printed', '%s\n%r' % (where, o))
                return res
            n = s.get('EC%')
            ev = list(zip(s.get('T%()')[:n], s.get('E%()')[:n], [int(x) for x in s.get('L!()')[:n]]))
        else:
            ev = None
    executed_restore = False
    seen_unknown = False
    for rec in stmts:
        if route == 'stop' and seen_unknown:
            break
        if not rec['known']:
            res.label('read.unasserted')
            if route == 'stop':
                # whether this statement stops the program is not modelled
                seen_unknown = True
            continue
        got = None
        if route == 'trap':
            mine = [(e, ln) for (t, e, ln) in ev if t == rec['seq']]
            if len(mine) > 1:
                res.fail('events.more-than-one', '%s\nstatement %d raised %r' % (where, rec['seq'], mine))
                continue
            got = mine[0] if mine else None
        else:
            if rec['event'] is not None:
                got = (o.errors[0][0], o.errors[0][1]) if o.errors else None
        exp = rec['event']
        if rec['kind'] == 'restore' and exp is None:
            executed_restore = True
        if exp != got:
            if exp is not None and exp[0] == 2:
                if got is not None and got[0] == 2:
                    key = ('syntax-error.line.first-item-of-data' if rec.get('first-of-statement')
                           else 'syntax-error.line')
                else:
                    key = 'syntax-error.missing'
            elif exp is not None and exp[0] == 4:
                key = 'out-of-data.missing' if got is None or got[0] != 4 else 'out-of-data.line'
            elif exp is not None and exp[0] == 8:
                key = 'restore.missing-line'
            else:
                key = 'read.unexpected-error'
            res.fail(key, '%s\nstatement %d (line %d): expected %r, got %r' % (
                where, rec['seq'], rec['line'], exp, got))
        if exp is not None:
            res.label('event.%d' % exp[0])
        for t, slot, v in rec['values']:
            g = arrays[t][slot]
            if t == '$':
                ok = bytes(g) == v.encode('latin-1')
            else:
                ok = Fraction(g) == v
            if not ok:
                res.fail('read.value.%s' % ('string' if t == '$' else 'number'),
                         '%s\nstatement %d (line %d): %s(%d) = %r, expected %r' % (
                             where, rec['seq'], rec['line'], ARR[t], slot, g, v))
        if route == 'stop' and exp is not None:
            break
    else:
        if route == 'stop' and not seen_unknown and o.errors:
            res.fail('read.unexpected-error', '%s\nprogram stopped with %r, none expected' % (
                where, o.errors))
    nvals = sum(len(r['values']) for r in stmts if r['known'])
    res.label('values-asserted.%s' % ('0' if not nvals else '1-4' if nvals < 5 else '5-12'
                                      if nvals < 13 else '13+'))
    res.nt((info['data-lines'] >= 2 and executed_restore) or info['special-read'])
    if executed_restore:
        res.label('restore-executed')
    for tgt in sorted(info['restore-targets']):
        res.label('restore-target.' + tgt)
    if case.get('head'):
        res.label('data-on-first-program-line')
    if info['special-read']:
        res.label('special-item-read')
    return res


# ---------------------------------------------------------------------------------------------
# generator

QUOTED = ['a,b', 'x:y', ' lead', 'trail ', '', 'q', 'x, y: z', 'DATA 1', 'z z', "it's"]
UNQUOTED = ['xy', 'x y', 'Zw', 'q  r', 'w', '7up', 'xyz w q', 'Wx', 'k2', 'y-z']
INTS = ['0', '1', '7', '-3', '12', '255', '-32768', '32767', '100', '+5', '&H10', '1E2']
DECS = ['1.25', '-0.75', '.125', '2.75', '100.25', '-.25', '3.0', '12.375']
REMTEXT = ['x:DATA 91,92', 'DATA 93', 'note', ':DATA "h"', '5.25" disk', 'say "hi', 'odd"a"b":DATA 98',
           '":DATA 99']
OPENTEXT = ['start', 'x:DATA 97', '', 'a,b', ':DATA 96,q', 'REM x']          # no quote inside
OPENITEM = ['abc', 'x:y,z', 'tail:DATA 90', 'a,b', '', 'q r']
STRLIT = ['y:DATA 94', 'DATA 95,96', 'plain']


class Genome(object):
    def __init__(self, data):
        self.d = data
        self.i = 0

    def take(self, n):
        v = self.d[self.i] if self.i < len(self.d) else 0
        self.i += 1
        return v % n

    def pick(self, seq):
        return seq[self.take(len(seq))]


def build(data, route):
    g = Genome(data)
    nlines = 3 + g.take(12)
    linenos = []
    n = 10
    for _ in range(nlines):
        n += g.pick([10, 10, 5, 1, 20, 3])
        linenos.append(n)
    roles = [g.pick(['data', 'read', 'data', 'read', 'restore', 'mixed', 'hidden', 'read', 'data',
                     'readdata']) for _ in range(nlines)]
    if not any(r in ('data', 'mixed', 'readdata') for r in roles):
        roles[-1] = 'data'
    datalines = [ln for ln, r in zip(linenos, roles) if r in ('data', 'mixed', 'readdata')]
    first = 1 if route == 'trap' else 2

    def item(prefer_num):
        k = g.take(10)
        pl, pr = g.pick([0, 0, 1, 2]), g.pick([0, 0, 1])
        if prefer_num:
            k = g.pick([0, 1, 0, 1, 2, k])
        if k < 1 or k == 6:
            return ['n', g.pick(INTS), pl, pr]
        if k < 3:
            return ['n', g.pick(DECS), pl, pr]
        if k < 5:
            return ['q', g.pick(QUOTED), pl, pr]
        if k < 8:
            return ['u', g.pick(UNQUOTED), pl, pr]
        return ['e', '', 0, g.pick([0, 0, 1])]

    def data_stmt():
        cnt = g.pick([3, 2, 3, 4, 5, 0, 1, 6])
        num = g.take(3) == 0
        return ['data', [item(num) for _ in range(cnt)]]

    def open_stmt():
        return ['open', g.pick(['let', 'cat', 'if', 'let']), g.pick(OPENTEXT)]

    def open_end(st_):
        """Now and then let the line end inside a string literal: an unclosed last DATA item,
        or a trailing statement with an unclosed quote."""
        if st_ and st_[-1][0] == 'rem':
            return st_
        k = g.take(6)
        if k == 0 and st_ and st_[-1][0] == 'data':
            st_[-1][1].append(['o', g.pick(OPENITEM), g.pick([0, 1]), 0])
        elif k == 1:
            st_.append(open_stmt())
        return st_

    # pass 1: the visible DATA statements of every line (READs may precede them in the text)
    datas = {}
    for ln, role in zip(linenos, roles):
        if role == 'data':
            datas[ln] = [data_stmt()] + ([data_stmt()] if g.take(4) == 0 else [])
            if g.take(5) == 0:
                datas[ln] = open_end(datas[ln])
                if datas[ln][-1][0] == 'open':
                    datas[ln].pop()
        elif role == 'readdata':
            datas[ln] = [data_stmt()]
            if g.take(5) == 0 and datas[ln][-1][1] is not None:
                datas[ln][-1][1].append(['o', g.pick(OPENITEM), g.pick([0, 1]), 0])
        elif role == 'mixed':
            datas[ln] = [data_stmt()]
    head = None
    if g.take(3) == 0:
        head = [g.pick([0, 1, 1, 2]), data_stmt()]
    items = []
    if head:
        for it in (head[1][1] or [['e', '', 0, 0]]):
            items.append((first, it[0]))
    for ln in linenos:
        for d in datas.get(ln, []):
            for it in (d[1] or [['e', '', 0, 0]]):
                items.append((ln, it[0]))
    # pass 2: READ / RESTORE in execution order, steering the target types by a simulated pointer
    # (a heuristic only: the oracle recomputes everything from the finished tree)
    state = {'ptr': 0, 'lost': False, 'slot': 0}
    known_lines = set(linenos) | {2, 8999, 9000} | ({1} if route == 'trap' else set())

    def read_stmt():
        cnt = g.pick([1, 2, 1, 3, 2, 4])
        tg = []
        for _ in range(cnt):
            if state['slot'] >= MAXSLOT:
                break
            kind = items[state['ptr']][1] if state['ptr'] < len(items) else 'x'
            wild = g.take(8) == 0
            if kind == 'n' and not wild:
                t = g.pick(['!', '%', '#', '!', '$', '%'])
            elif kind in ('q', 'u', 'o') and not wild:
                t = '$'
            else:
                t = g.pick(['$', '!', '$', '%', '#', '$', '!', '%'])
            tg.append([t, state['slot']])
            state['slot'] += 1
            if kind in ('q', 'u', 'o') and t != '$':
                state['lost'] = True
                break
            state['ptr'] += 1
        return ['read', tg or [['$', MAXSLOT]]]

    def restore_stmt():
        # target position is a dimension of its own: none / first program line / a DATA line /
        # any line / lowest generated line / last line / absent line
        k = g.take(11)
        if k < 2:
            tgt = None
        elif k < 4:
            tgt = first
        elif k < 6 and datalines:
            tgt = g.pick(datalines)
        elif k == 6:
            tgt = g.pick(linenos)
        elif k == 7:
            tgt = linenos[0]
        elif k == 8:
            tgt = 8999
        elif k == 9:
            tgt = 9000
        else:
            m = g.pick(linenos) + 1
            tgt = 9 if m in linenos else m
        if tgt is None:
            state['ptr'], state['lost'] = 0, False
        elif tgt in known_lines:
            state['ptr'] = len(items)
            for i, it in enumerate(items):
                if it[0] >= tgt:
                    state['ptr'] = i
                    break
            state['lost'] = False
        else:
            state['lost'] = True
        return ['restore', tgt]

    def reads():
        out = []
        if state['lost'] and g.take(4) < 3:
            out.append(restore_stmt())
        out.append(read_stmt())
        return out

    lines = []
    for ln, role in zip(linenos, roles):
        if role == 'data':
            st_ = list(datas[ln])
            if g.take(4) == 0:
                st_.insert(0, ['let'])
            ends_open = bool(st_[-1][1]) and st_[-1][1][-1][0] == 'o'
            if g.take(4) == 0 and not ends_open:
                st_.append(['let'])
            if not ends_open and g.take(6) == 0:
                st_.append(open_stmt())
        elif role == 'read':
            st_ = reads()
            if g.take(4) == 0:
                st_ += reads()
            if g.take(5) == 0:
                st_.append(open_stmt())
        elif role == 'restore':
            st_ = [restore_stmt()]
            if g.take(2):
                st_.append(read_stmt())
            if g.take(5) == 0:
                st_.append(open_stmt())
        elif role == 'mixed':
            st_ = [g.pick([['let'], ['strlit', g.pick(STRLIT)]])] + datas[ln] + reads()
            if g.take(2):
                st_.append(['rem', g.pick(['REM', "'"]), g.pick(REMTEXT)])
            elif g.take(4) == 0:
                st_.append(open_stmt())
        elif role == 'readdata':
            st_ = reads() + datas[ln]
        else:
            st_ = [['let'], ['rem', g.pick(['REM', "'"]), g.pick(REMTEXT)]]
            if g.take(2):
                st_.append(data_stmt())          # rendered behind the comment: invisible
        lines.append([ln, st_])
    # finish with reads past the end now and then
    if g.take(3) == 0:
        lines.append([linenos[-1] + 7, reads() + [read_stmt()]])
    # blanks in front of every statement: 10 X=X+1:  DATA 1,2
    pads = [[g.pick([0, 1, 0, 2, 1, 3]) for _ in st_] for _, st_ in lines]
    return {'lines': lines, 'route': route, 'pads': pads, 'head': head}


def strat():
    return st.builds(build, st.binary(min_size=260, max_size=260),
                     st.sampled_from(['trap', 'trap', 'trap', 'stop']))


def units(tier):
    return [
        Unit('programs', 'hyp', shards=16, examples={'quick': 500, 'thorough': 20000},
             strategy=strat),
    ]


REGRESSIONS = [
    # RESTORE n with n the first line of the program (offset 0 in the line table)
    {'lines': [[10, [['data', [['n', '1', 0, 0], ['n', '2', 0, 0]]]]],
               [20, [['read', [['%', 0], ['%', 1], ['%', 2]]]]],
               [30, [['restore', 2], ['read', [['%', 3], ['%', 4]]]]],
               [40, [['restore', 10], ['read', [['%', 5]]]]]],
     'head': [1, ['data', [['n', '7', 0, 0]]]], 'route': 'stop'},
    {'lines': [[10, [['data', [['n', '1', 0, 0]]]]], [20, [['read', [['%', 0]]]]],
               [30, [['restore', 1], ['read', [['%', 1]]]]],
               [40, [['restore', 9000], ['read', [['%', 2]]]]]], 'route': 'trap'},
    # DATA behind ': ' (blank after the colon), reached by first READ, running on, RESTORE n
    {'lines': [[10, [['let'], ['data', [['n', '1', 0, 0], ['n', '2', 0, 0]]]]],
               [20, [['let'], ['data', [['q', 'a', 0, 2]]], ['data', [['n', '3', 0, 0]]]]],
               [30, [['read', [['%', 0], ['%', 1], ['$', 2], ['%', 3]]]]],
               [40, [['restore', 20], ['read', [['$', 4]]]]],
               [50, [['restore', None], ['read', [['!', 5]]]]],
               [60, [['let'], ['let'], ['data', [['n', '4', 0, 0]]]]],
               [70, [['restore', 60], ['read', [['%', 6], ['$', 7]]]]]],
     'pads': [[0, 1], [0, 1, 2], [0], [0, 0], [0, 3], [1, 2, 3], [0, 1]], 'route': 'trap'},
    # lines that end inside a string literal, quotes in comments, unclosed last DATA item
    {'lines': [[10, [['open', 'let', 'start']]], [20, [['let'], ['rem', 'REM', '5.25" disk']]],
               [30, [['data', [['n', '5', 0, 0], ['o', 'abc', 0, 0]]]]],
               [35, [['let'], ['rem', "'", 'say "hi']]],
               [40, [['data', [['n', '7', 0, 0], ['o', 'x:y,z', 1, 0]]]]],
               [50, [['read', [['!', 0], ['$', 1], ['%', 2], ['$', 3]]]]],
               [60, [['restore', 35], ['read', [['#', 4]]], ['open', 'if', 'x:DATA 97']]],
               [70, [['data', [['n', '9', 0, 0]]]]],
               [80, [['read', [['$', 5], ['!', 6]]]]]], 'route': 'trap'},
    # fixed e13220fb: offending item is the first of its DATA statement -> previous DATA line / no line
    {'lines': [[10, [['read', [['$', 0], ['!', 1]]]]], [20, [['data', [['u', 'x', 0, 0]]]]],
               [30, [['data', [['u', 'y', 0, 0]]]]]], 'route': 'stop'},
    {'lines': [[10, [['read', [['!', 0]]]]], [30, [['data', [['u', 'y', 0, 0]]]]]], 'route': 'stop'},
    {'lines': [[10, [['read', [['$', 0], ['!', 1]]]]], [20, [['data', [['u', 'x', 0, 0]]]]],
               [30, [['data', [['u', 'y', 0, 0]]]]]], 'route': 'trap'},
    # later item of a statement (always reported correctly)
    {'lines': [[10, [['read', [['!', 0], ['%', 1]]]]], [20, [['data', [['n', '1', 0, 0], ['q', 'a,b', 1, 0]]]]]],
     'route': 'trap'},
    # layout: hidden DATA, two statements on a line, RESTORE targets
    {'lines': [[10, [['let'], ['rem', 'REM', 'x:DATA 91,92']]],
               [20, [['strlit', 'y:DATA 94'], ['data', [['u', 'x y', 2, 1], ['e', '', 0, 0]]],
                     ['data', [['q', 'x:y', 0, 1]]]]],
               [30, [['read', [['$', 0], ['%', 1], ['$', 2]]]]],
               [40, [['restore', 40], ['read', [['$', 3]]]]],
               [50, [['data', [['n', '7', 0, 0]]]]],
               [60, [['restore', 20], ['read', [['$', 4]]]]],
               [70, [['restore', 8999], ['read', [['$', 5]]]]],
               [80, [['restore', 25], ['read', [['$', 6]]]]]], 'route': 'trap'},
]

KILLS = [
    "interpreter.py read_: fix e13220fb reverted (error position = old data pointer) -> "
    "syntax-error.line.first-item-of-data (regressions + random)",
    "interpreter.py read_: seek(data_pos + 1) (search starts after the pointer) -> "
    "syntax-error.missing, read.value.string, read.value.number, read.unexpected-error",
    "interpreter.py read_: quoted items additionally stripped of blanks -> read.value.string",
    "interpreter.py read_: unquoted items only left-stripped -> read.value.string",
    "interpreter.py restore_: plain RESTORE leaves the pointer alone -> read.value.*, "
    "syntax-error.*, out-of-data.*",
    "interpreter.py restore_: RESTORE n positions one byte into line n -> read.value.string, "
    "syntax-error.line, restore.missing-line",
    "interpreter.py restore_: missing line silently ignored -> restore.missing-line",
    "interpreter.py restore_: line_numbers.get(n) with a truthiness test (wave-5 seed; RESTORE to "
    "the first program line, offset 0) -> restore.missing-line, read.value.*, out-of-data.*, "
    "read.unexpected-error, syntax-error.line (regressions RESTORE 2 / RESTORE 1 and the random unit)",
    "codestream.py skip_to_token: blanks skipped only at the start of a line (wave-4 seed; needs "
    "': DATA' with a blank after the colon) -> read.value.*, out-of-data.*, read.unexpected-error, "
    "restore.missing-line (regression 10 X=X+1: DATA 1,2 / 20 X=X+1: DATA \"a\"  :  DATA 3 and "
    "the random unit)",
    "codestream.py skip_to: 'literal' no longer reset at the end of a line (seeded change; needs a "
    "line with an odd number of quotes between the data pointer and the next DATA) -> "
    "read.value.*, read.unexpected-error, out-of-data.*, syntax-error.*, restore.missing-line "
    "(regression with Z$=\"start / REM 5.25\" disk / DATA 5,\"abc and the random unit)",
]
