"""
C43 - Session API values round-trip.

set_variable / get_variable for integers, floats, booleans, byte and unicode strings, nested lists;
evaluate(expr) against what PRINT shows. The stored value is read back a second, independent way
(MKI$/MKS$/MKD$ evaluated in BASIC and decoded by vlib/mbf.py), so a set-side defect and a get-side
defect are told apart. Codepage tables are read from the shipped .ucp files by this module's own
reader and handed to the Session as a dict.
"""
import os
import re
import math
import random
import unicodedata
from fractions import Fraction

from hypothesis import strategies as st

from vlib.core import Result, Unit
from vlib import harness, mbf, dectext

ID = 'C43'
LEVEL = 'exploration'
RULE = ("All 65536 integers through A% (exhaustive) and booleans; Python floats for A! and A#: "
        "exact images of random single/double bit patterns, random float64 over the whole exponent "
        "range, short decimals (k/10^j), integers and powers of two with neighbours, values next to "
        "the smallest/largest representable; byte strings of length 0..255 over all 256 bytes; "
        "unicode strings over the uniquely mapped repertoire of five single-byte codepages; nested "
        "lists for 1-3 dimensions (1..11 per dimension, OPTION BASE 0/1, DIMmed to the list's shape "
        "or left to the default dimensioning) of each element type; expressions (arithmetic, "
        "comparisons, numeric and string functions over literals and variables of all types) "
        "through evaluate() and PRINT#. Non-trivial: a float that is not exactly representable in "
        "the variable's type or not an integer, a string with non-ASCII characters, a list with two "
        "or more dimensions, an expression with an operator or function; distinct = distinct case.")
ASSUMPTIONS = [
    "evaluate vs PRINT: PRINT may differ from the stored value by less than one unit of its last "
    "digit (C07) and evaluate() returns a float64 holding 53 of a double's 56 mantissa bits, so the "
    "two may differ by less than one unit plus half a float64 ulp (thorough-tier false alarm at "
    "1.087 units corrected)",
    "float precision: a Python float that is exactly representable in the variable's type must be "
    "stored exactly; any other in-range float must be stored as one of its two neighbours in that "
    "type (error < 1 ulp); get_variable must return the stored single exactly and the stored "
    "double (56-bit mantissa) rounded to one of the two neighbouring float64",
    "out-of-range floats, integers outside -32768..32767 and strings longer than 255 are not "
    "asserted (the statement speaks of values in range); only crashes inside range are reported",
    "unicode strings use characters whose cluster occurs once in the codepage table, from bytes "
    "20..FF, compared after NFC normalisation; control bytes only travel as bytes",
    "a list shorter than the array it is written to (default dimension 10) must read back with the "
    "list as its leading block; equality of the whole is asserted when the shapes agree",
    "evaluate vs PRINT: the printed text read as a decimal must be within one unit of its last "
    "shown digit of the returned number (C07 bound), integers and strings exactly; when evaluate "
    "prints an error message PRINT must report the same error",
]
TECHNIQUE = ("exhaustive int16 enumeration, seeded bulk floats, Hypothesis strings/lists/expressions; "
             "round trip + independent read-back through MKS$/MKD$ and the exact MBF model")

CODEPAGES = ['437', '850', '866', '852', 'koi8-r']
_CP = {}


def codepage_table(name):
    """Own reader of a .ucp file -> ({byte: cluster}, [uniquely mapped clusters of bytes 20..FF])."""
    if name not in _CP:
        path = os.path.join(harness.REPO, 'pcbasic', 'data', 'codepages', name + '.ucp')
        table = {}
        with open(path, 'rb') as f:
            for line in f.read().decode('ascii', 'replace').splitlines():
                line = line.split('#')[0].strip()
                m = re.match(r'^([0-9a-fA-F]{2})\s*:\s*([0-9a-fA-F, ]+)$', line)
                if not m:
                    continue
                cluster = ''.join(chr(int(x, 16)) for x in m.group(2).replace(' ', '').split(','))
                table[bytes([int(m.group(1), 16)])] = cluster
        count = {}
        for b, c in table.items():
            count[unicodedata.normalize('NFC', c)] = count.get(unicodedata.normalize('NFC', c), 0) + 1
        uniq = sorted(
            (b[0], c) for b, c in table.items()
            if 0x20 <= b[0] <= 0xff and count[unicodedata.normalize('NFC', c)] == 1
            and unicodedata.normalize('NFC', c) == c and len(c) == 1
            and not unicodedata.combining(c)
            and (b[0] >= 0x80 or c == chr(b[0])))
        _CP[name] = (table, uniq)
    return _CP[name]


_SH = {}


def _shared(cp='437'):
    key = 's' + cp
    if _SH.get('pid') != os.getpid():
        _SH.clear()
        _SH['pid'] = os.getpid()
    ent = _SH.get(key)
    if ent is None or ent[1] > 1500:
        if ent is not None:
            ent[0].close()
        table, _ = codepage_table(cp)
        ent = [harness.Sess(codepage=dict(table)), 0]
        _SH[key] = ent
    ent[1] += 1
    return ent[0]


def _drop(cp='437'):
    ent = _SH.pop('s' + cp, None)
    if ent is not None and _SH.get('pid') == os.getpid():
        ent[0].close()


TWO23 = Fraction(2) ** 23


def in_range(x, n):
    return x == 0 or mbf.MINPOS <= abs(x) <= mbf.MAXVAL[n]


def fail_known(res, key, msg, strict=True):
    """
    A failure inside the region of a (now fixed) finding keeps that finding's own bucket key, so a
    regression of one of those fixes is reported under its name; nothing is excluded any more.
    """
    res.fail(key, msg)


def classify_float(x, stored, n):
    """
    x: exact Fraction handed in, stored: exact Fraction found in the n-byte variable.
    -> None if the statement holds, else (kind, ulps, why) with kind 'known' for the region of
    finding set.single.below-pow2-loses-bit: |x| within 2^-45 (relative) below a power of two,
    stored towards zero with an error < 2 ulp: Float.from_value computes
    floor(math.log(|x|, 2) - 23) in floating point, which lands on the next whole number there, so
    the mantissa keeps 23 bits only. (The wider form of the defect, every |x| < 2^23, was fixed in
    cfabab43 and is kept as a plain regression case.)
    """
    if mbf.representable(x, n):
        if stored == x:
            return None
        why = 'exactly representable value not stored exactly'
    else:
        lo, hi = mbf.floor_ceil(x, n)
        if stored in (lo, hi):
            return None
        why = 'not one of the two neighbours'
    err = abs(stored - x) / mbf.ulp_of_value(x, n)
    region = abs(x) * (1 + Fraction(1, 2 ** 45)) >= Fraction(2) ** mbf.exponent_of(x)
    if n == 4 and region and err < 2 and abs(stored) <= abs(x) and (stored < 0) == (x < 0):
        return ('known', err, why)
    return ('bad', err, why)


def judge_float_set(res, x, b, strict, where):
    """x: exact Fraction of the Python value handed in; b: stored bytes (4 or 8)."""
    n = len(b)
    stored = mbf.decode(b)
    c = classify_float(x, stored, n)
    if c is None:
        return True
    msg = '%s: %r stored as %s (%r): %s, off by %.3f ulp' % (
        where, float(x), bytes(b).hex(), float(stored), c[2], float(c[1]))
    if c[0] == 'known':
        fail_known(res, 'set.single.below-pow2-loses-bit', msg, strict)
    else:
        res.fail('set.%s.precision' % ('single' if n == 4 else 'double'), msg)
    return False


def judge_float_get(res, got, b, where):
    stored = mbf.decode(b)
    if not isinstance(got, float):
        res.fail('get.type', '%s: get returned %r' % (where, got))
        return
    g = Fraction(got)
    if len(b) == 4:
        if g != stored:
            res.fail('get.single', '%s: stored %s (%r) read as %r' % (
                where, bytes(b).hex(), float(stored), got))
    else:
        # one of the two float64 neighbours of the 56-bit value
        f = float(stored)
        if g != stored and got not in (f, math.nextafter(f, math.inf), math.nextafter(f, -math.inf)):
            res.fail('get.double', '%s: stored %s (%r) read as %r' % (where, bytes(b).hex(), f, got))
        elif g != stored and abs(g - stored) >= mbf.ulp(b) * 8:
            res.fail('get.double', '%s: stored %s (%r) read as %r' % (where, bytes(b).hex(), f, got))


def check_num(case, res):
    t = case['t']
    x = case['x']
    strict = case.get('strict', False)
    s = _shared()
    name = 'A' + t
    where = 'set_variable(%r, %r)' % (name, x)
    if t == '%':
        if isinstance(x, bool):
            want = -1 if x else 0
        else:
            want = x
        try:
            s.set(name, x)
            got = s.get(name)
        except Exception as e:      # noqa: B902
            res.fail('escaped.%s@int' % type(e).__name__, '%s: %r' % (where, e))
            return res
        res.nt(True)
        if got != want or isinstance(got, bool) or not isinstance(got, int):
            res.fail('int.roundtrip', '%s -> get %r' % (where, got))
        # independent read-back of the stored bytes on a lattice (every 8th value and both ends)
        if want % 8 == 0 or abs(want) < 4 or abs(want) > 32760:
            b = s.evaluate(b'MKI$(A%)').value
            if b != mbf.int16_bytes(want):
                res.fail('int.stored', '%s -> stored %r' % (where, b))
        return res
    n = 4 if t == '!' else 8
    if isinstance(x, bool):
        fx = Fraction(-1 if x else 0)
    else:
        fx = Fraction(x)
    if not in_range(fx, n):
        res.label('num.out-of-range')
        return res
    try:
        s.set(name, x)
        got = s.get(name)
    except Exception as e:      # noqa: B902
        _drop()
        res.fail('escaped.%s@float' % type(e).__name__, '%s: %r' % (where, e))
        return res
    o = s.evaluate(b'MKS$(A!)' if n == 4 else b'MKD$(A#)')
    b = o.value
    if not isinstance(b, bytes) or len(b) != n:
        res.fail('readback', '%s: %r' % (where, o))
        return res
    rep = mbf.representable(fx, n)
    res.nt(not rep or fx.denominator != 1)
    res.label('num.%s.%s' % ('single' if n == 4 else 'double', 'representable' if rep else 'rounds'))
    judge_float_set(res, fx, b, strict, where)
    judge_float_get(res, got, b, where)
    return res


def check_str(case, res):
    cp = case.get('cp', '437')
    s = _shared(cp)
    if case['kind'] == 'bytes':
        data = case['s'].encode('latin-1')
        if len(data) > 255:
            res.label('str.too-long')
            return res
        try:
            s.set('S$', data)
            got = s.get('S$')
        except Exception as e:      # noqa: B902
            _drop(cp)
            res.fail('escaped.%s@str' % type(e).__name__, '%r: %r' % (data, e))
            return res
        res.nt(any(c >= 0x80 for c in data))
        res.label('str.bytes')
        if got != data:
            res.fail('str.bytes', 'set %r get %r' % (data, got))
        o = s.evaluate(b'S$')
        if o.value != data:
            res.fail('str.bytes.evaluate', 'set %r evaluate %r' % (data, o.value))
        return res
    text = case['s']
    table, uniq = codepage_table(cp)
    back = {c: bytes([b]) for b, c in uniq}
    if len(text) > 255 or any(c not in back for c in text):
        res.label('str.outside-repertoire')
        return res
    want_bytes = b''.join(back[c] for c in text)
    try:
        s.set('S$', text)
        got_b = s.get('S$')
        got_u = s.s.get_variable(b'S$', as_type=str)
    except Exception as e:      # noqa: B902
        _drop(cp)
        res.fail('escaped.%s@str' % type(e).__name__, '%r: %r' % (text, e))
        return res
    res.nt(any(ord(c) >= 0x80 for c in text))
    res.label('str.unicode.' + cp)
    if got_b != want_bytes:
        res.fail('str.unicode.encode', 'cp%s set %r stored %r expected %r' % (
            cp, text, got_b, want_bytes))
    if unicodedata.normalize('NFC', got_u) != text:
        res.fail('str.unicode.roundtrip', 'cp%s set %r get %r' % (cp, text, got_u))
    return res


def _shape(data):
    shape = []
    d = data
    while isinstance(d, list):
        shape.append(len(d))
        d = d[0]
    return shape


def _flat(data):
    if isinstance(data, list):
        for x in data:
            for y in _flat(x):
                yield y
    else:
        yield data


def _block(data, shape):
    """Leading block of the nested list `data` with the given shape."""
    if len(shape) == 1:
        return data[:shape[0]]
    return [_block(d, shape[1:]) for d in data[:shape[0]]]


def check_arr(case, res):
    t = case['t']
    base = case['base']
    data = case['data']
    dim = case['dim']
    strict = case.get('strict', False)
    if t == '$':
        data = _map(data, lambda z: z.encode('latin-1'))
    shape = _shape(data)
    name = 'R' + t
    s = _shared()
    o = s.execute(b'NEW')
    if o.kind != 'ok' or o.errors:
        _drop()
        s = _shared()
    if True:
        if base:
            o = s.execute(b'OPTION BASE 1')
            if o.kind != 'ok' or o.errors:
                _drop()
                res.fail('arr.option-base', 'OPTION BASE 1 after NEW -> %r' % o)
                return res
        full = [10 + (1 - base)] * len(shape)
        if dim:
            o = s.execute(('DIM %s(%s)' % (name, ','.join(str(k - 1 + base) for k in shape))).encode())
            if o.kind != 'ok' or o.errors:
                res.fail('arr.dim', repr(o))
                return res
            full = shape
        try:
            s.set(name + '()', data)
            got = s.get(name + '()')
        except Exception as e:      # noqa: B902
            _drop()
            res.fail('escaped.%s@%s' % (type(e).__name__, harness.innermost_frame(e.__traceback__)),
                     '%s base %d dim %s %r: %r' % (name, base, dim, shape, e))
            return res
        res.nt(len(shape) >= 2)
        res.label('arr.%dd.%s.base%d' % (len(shape), 'dimmed' if dim else 'default', base))
        gshape = _shape(got) if got else []
        if gshape != full:
            res.fail('arr.shape', '%s base %d dim %s: set shape %r, got shape %r expected %r' % (
                name, base, dim, shape, gshape, full))
            return res
        blk = _block(got, shape)
        exp = list(_flat(data))
        act = list(_flat(blk))
        bad = None
        for i, (e, a) in enumerate(zip(exp, act)):
            if t == '%':
                want = (-1 if e else 0) if isinstance(e, bool) else e
                if a != want:
                    bad = (i, e, a)
                    break
            elif t == '$':
                if a != e:
                    bad = (i, e, a)
                    break
            else:
                n = 4 if t == '!' else 8
                if not isinstance(a, float):
                    bad = (i, e, a)
                    break
                if n == 8:
                    # the read side rounds the 56-bit value to float64; e is a float64 already
                    good = a == e
                    c = None if good else ('bad',)
                else:
                    c = classify_float(Fraction(e), Fraction(a), n)
                if c is not None:
                    if c[0] == 'known':
                        fail_known(res, 'set.single.below-pow2-loses-bit',
                                   'element %d: %r -> %r' % (i, e, a), strict)
                    else:
                        bad = (i, e, a)
                        break
        if bad:
            res.fail('arr.element', '%s base %d dim %s shape %r: element %d set %r got %r' % (
                name, base, dim, shape, bad[0], bad[1], bad[2]))
        # everything outside the block keeps the default value
        if full != shape:
            total = list(_flat(got))
            zero = b'' if t == '$' else 0
            nonzero = sum(1 for z in total if z != zero)
            if nonzero > sum(1 for z in act if z != zero):
                res.fail('arr.spill', '%s base %d shape %r: values outside the written block' % (
                    name, base, shape))
    return res


def _map(data, fn):
    if isinstance(data, list):
        return [_map(d, fn) for d in data]
    return fn(data)


# --------------------------------------------------------------------------------------------
# evaluate vs PRINT

def check_eval(case, res):
    expr = case['expr'].encode('latin-1')
    s = _shared()
    for k, v in sorted(case.get('vars', {}).items()):
        s.set(k, v.encode('latin-1') if isinstance(v, str) else v)
    o1 = s.evaluate(expr)
    o2 = s.execute(b'CLOSE:OPEN "O",1,"E":PRINT#1,' + expr)
    s.execute(b'CLOSE')
    for o in (o1, o2):
        if o.kind == 'budget':
            res.inconclusive = True
            _drop()
            return res
        if o.kind != 'ok':
            _drop()
            res.fail('escaped.%s@%s' % (o.exc, o.frame), '%r -> %r' % (expr, o))
            return res
    try:
        with open(s.sandbox.z + '/E', 'rb') as f:
            text = f.read()
    except OSError:
        text = b''
    if text.endswith(b'\x1a'):
        text = text[:-1]
    res.nt(bool(re.search(rb'[-+*/\\^<>=(]|MOD|AND|OR', expr)))
    if o1.errors or o2.errors:
        res.label('eval.error')
        hard1 = [c for c, _ in o1.errors]
        hard2 = [c for c, _ in o2.errors]
        if hard1 != hard2:
            res.fail('eval.error-differs', '%r: evaluate %r PRINT %r' % (expr, o1, o2))
            return res
        if o1.value is None:
            return res
    v = o1.value
    if not text.endswith(b'\r\n'):
        res.fail('eval.print-shape', '%r: PRINT# wrote %r' % (expr, text))
        return res
    text = text[:-2]
    if isinstance(v, bytes):
        res.label('eval.string')
        if text != v:
            res.fail('eval.string', '%r: evaluate %r PRINT %r' % (expr, v, text))
        return res
    if isinstance(v, bool) or not isinstance(v, (int, float)):
        res.fail('eval.type', '%r: evaluate returned %r' % (expr, v))
        return res
    t = text.decode('latin-1')
    d = dectext.read_shown(t[:-1]) if t.endswith(' ') and t[:1] in ' -' else None
    if d is None:
        res.fail('eval.print-shape', '%r: PRINT# wrote %r' % (expr, text))
        return res
    fv = Fraction(v)
    if isinstance(v, int):
        res.label('eval.int')
        if d.value != fv:
            res.fail('eval.number', '%r: evaluate %r PRINT %r' % (expr, v, t))
        return res
    res.label('eval.float')
    err = abs(d.value - fv)
    # PRINT may be off by less than one unit of its last digit (C07); evaluate() returns a Python
    # float, which holds 53 of the 56 mantissa bits of a double: allow half a Python ulp on top
    # (negligible for singles and integers, which convert exactly)
    if err >= d.unit + Fraction(math.ulp(v)) / 2:
        res.fail('eval.number', '%r: evaluate %r PRINT %r: off by %.3f units' % (
            expr, v, t, float(err / d.unit)))
    return res


def check_case(case):
    res = Result()
    u = case['u']
    if u == 'num':
        return check_num(case, res)
    if u == 'str':
        return check_str(case, res)
    if u == 'arr':
        return check_arr(case, res)
    if u == 'eval':
        return check_eval(case, res)
    raise ValueError(u)


# --------------------------------------------------------------------------------------------
# generation

def gen_ints(shard, nshards, tier, seed):
    for v in range(-32768 + shard, 32768, nshards):
        yield {'u': 'num', 't': '%', 'x': v}
    if shard == 0:
        yield {'u': 'num', 't': '%', 'x': True}
        yield {'u': 'num', 't': '%', 'x': False}


def float_from(kind, n, a, b):
    """Deterministic map from integers to a Python float of the requested family."""
    p = mbf.PREC[n]
    if kind == 'pattern':
        # exact image of an n-byte pattern (doubles: cut to 53 bits so that the float is exact)
        e = 1 + a % 255
        man = (b % (1 << (p - 1))) | (1 << (p - 1))
        if n == 8:
            man &= ~7
        return float(Fraction(man) * Fraction(2) ** (e - 128 - p)) * (-1 if a & 256 else 1)
    if kind == 'f64':
        e = (a % 256) - 128
        frac = (b % (1 << 52)) / float(1 << 52)
        return math.ldexp(0.5 + frac / 2, e) * (-1 if a & 256 else 1)
    if kind == 'decimal':
        j = a % 12
        k = b % (10 ** (1 + a % 9))
        return (k / 10.0 ** j) * (-1 if a & 256 else 1)
    if kind == 'int':
        bits = 1 + a % 40
        return float((b % (1 << bits)) * (-1 if a & 256 else 1))
    if kind == 'pow2':
        e = (a % 250) - 125
        x = math.ldexp(1.0, e)
        d = (b % 5) - 2
        for _ in range(abs(d)):
            x = math.nextafter(x, math.inf if d > 0 else -math.inf)
        if b & 8:
            # neighbours in single precision
            x = math.ldexp(1.0, e) * (1 + ((b >> 4) % 5 - 2) * 2.0 ** -23)
        return x
    if kind == 'edge':
        edges = [float(mbf.MAXVAL[4]), float(mbf.MINPOS), 2.0 ** -128 * (1 + 2.0 ** -23),
                 float(mbf.MAXVAL[4]) * (1 - 2.0 ** -24), 1.7014118346046921e38, 2.0 ** 126,
                 16777216.0, 16777215.0, 16777217.0, 8388608.0, 8388607.5, 0.1, 1 / 3.0, 2 / 3.0,
                 0.0, 1.0, -1.0, 9999999.0, 1e7, 1e-7, 3.4e38 / 2]
        return edges[a % len(edges)] * (-1 if a & 256 else 1)
    raise ValueError(kind)


FLOAT_KINDS = ['pattern', 'pattern', 'f64', 'decimal', 'int', 'pow2', 'edge']


def run_floats(shard, nshards, tier, seed, ev):
    import sys
    from vlib.run import judge
    rng = random.Random(seed)
    count = 2000 if tier == 'quick' else 150000
    nt = done = 0
    for i in range(count):
        n = 4 if i % 2 == 0 else 8
        x = float_from(rng.choice(FLOAT_KINDS), n, rng.getrandbits(40), rng.getrandbits(64))
        case = {'u': 'num', 't': '!' if n == 4 else '#', 'x': x}
        res = judge(sys.modules[__name__], case, 30.0)
        done += 1
        ev.inconclusive += bool(res.inconclusive)
        nt += bool(res.nontrivial)
        ev.excluded += res.excluded
        for lab in res.labels:
            ev.labels[lab] += 1
        for key, msg in res.fails:
            ev.fail(key, case, msg)
        if i < 4:
            ev.sample(case, nontrivial=res.nontrivial)
    ev.count(done, nontrivial=nt)


def strat_float(n):
    return st.builds(lambda k, a, b: float_from(k, n, a, b), st.sampled_from(FLOAT_KINDS),
                     st.integers(0, 2 ** 40), st.integers(0, 2 ** 64))


def strat_scalar():
    num = st.one_of(
        st.builds(lambda x: {'u': 'num', 't': '!', 'x': x}, strat_float(4)),
        st.builds(lambda x: {'u': 'num', 't': '#', 'x': x}, strat_float(8)),
        st.builds(lambda x: {'u': 'num', 't': '!', 'x': x}, st.integers(-2 ** 24, 2 ** 24)),
        st.builds(lambda x: {'u': 'num', 't': '#', 'x': x}, st.integers(-2 ** 40, 2 ** 40)),
        st.builds(lambda x, t: {'u': 'num', 't': t, 'x': x}, st.booleans(),
                  st.sampled_from(['%', '!', '#'])),
    )
    bts = st.builds(lambda b: {'u': 'str', 'kind': 'bytes', 's': b.decode('latin-1')},
                    st.one_of(st.binary(max_size=12), st.binary(min_size=200, max_size=255),
                              st.binary(max_size=255)))

    @st.composite
    def uni(draw):
        cp = draw(st.sampled_from(CODEPAGES))
        _, uniq = codepage_table(cp)
        chars = [c for _, c in uniq]
        hi = [c for b, c in uniq if b >= 0x80]
        n = draw(st.one_of(st.integers(0, 10), st.integers(0, 255)))
        text = ''.join(draw(st.lists(st.sampled_from(hi if draw(st.booleans()) else chars),
                                     min_size=n, max_size=n)))
        return {'u': 'str', 'kind': 'unicode', 'cp': cp, 's': text}
    return st.one_of(num, num, bts, uni())


def strat_array():
    @st.composite
    def arr(draw):
        t = draw(st.sampled_from(['%', '!', '#', '$']))
        nd = draw(st.sampled_from([1, 1, 2, 2, 3]))
        base = draw(st.integers(0, 1))
        dim = draw(st.booleans())
        cap = 11 - base
        if dim or draw(st.booleans()):
            shape = [draw(st.integers(1, cap if nd < 3 else 4)) for _ in range(nd)]
        else:
            shape = [cap] * nd
            if nd == 3:
                shape = [draw(st.integers(1, 3)), draw(st.integers(1, 3)), cap]
        if t == '%':
            el = st.one_of(st.integers(-32768, 32767), st.sampled_from([-32768, 32767, 0, -1, 1]))
        elif t == '!':
            el = strat_float(4).filter(lambda x: in_range(Fraction(x), 4))
        elif t == '#':
            el = strat_float(8).filter(lambda x: in_range(Fraction(x), 8))
        else:
            el = st.binary(max_size=6).map(lambda b: b.decode('latin-1'))

        def build(sh):
            if len(sh) == 1:
                return [draw(el) for _ in range(sh[0])]
            return [build(sh[1:]) for _ in range(sh[0])]
        return {'u': 'arr', 't': t, 'base': base, 'dim': dim, 'data': build(shape)}
    return arr()


NUMLIT = ['0', '1', '2', '3', '7', '10', '255', '32767', '.5', '1.5', '2.25', '.1', '1E3', '1.5E-3',
          '123456.7', '1.23456789012D5', '3#', '1D10', '100000', '-1', '&H7F', '1E20', '2D-20']
NUMVAR = ['I%', 'X!', 'Y#', 'J%']
STRLIT = ['"abc"', '"x y"', '""', '"Hello, World"', 'T$', 'U$']


def strat_expr():
    num_atom = st.one_of(st.sampled_from(NUMLIT), st.sampled_from(NUMVAR))
    str_atom = st.sampled_from(STRLIT)

    def num_ext(children):
        binop = st.builds(lambda a, op, b: '(%s %s %s)' % (a, op, b), children,
                          st.sampled_from(['+', '-', '*', '/', '\\', 'MOD', '^', '=', '<', '>', '<=',
                                           '<>', 'AND', 'OR', 'XOR']), children)
        fn = st.builds(lambda f, a: '%s(%s)' % (f, a),
                       st.sampled_from(['ABS', 'INT', 'FIX', 'SGN', 'SQR', 'CINT', 'CSNG', 'CDBL',
                                        'SIN', 'COS', 'ATN', 'EXP', 'LOG', '-', 'NOT ']), children)
        return st.one_of(binop, binop, fn)
    num = st.recursive(num_atom, num_ext, max_leaves=6)

    def str_of(n, s):
        return st.one_of(
            st.builds(lambda a, b: '%s+%s' % (a, b), s, s),
            st.builds(lambda f, a, k: '%s(%s,%s)' % (f, a, k), st.sampled_from(['LEFT$', 'RIGHT$']),
                      s, st.integers(0, 5).map(str)),
            st.builds(lambda a, i, k: 'MID$(%s,%d,%d)' % (a, i, k), s, st.integers(1, 5),
                      st.integers(0, 5)),
            st.builds(lambda a: 'STR$(%s)' % a, n),
            st.builds(lambda k: 'CHR$(%d)' % k, st.integers(32, 255)),
            st.builds(lambda k: 'SPACE$(%d)' % k, st.integers(0, 5)),
            st.builds(lambda a: 'HEX$(%s)' % a, st.sampled_from(['255', 'I%', '-1', '32767'])),
        )
    strs = st.recursive(str_atom, lambda c: str_of(num_atom, c), max_leaves=4)
    num2 = st.one_of(num, st.builds(lambda s: 'LEN(%s)' % s, strs),
                     st.builds(lambda s: 'VAL(STR$(%s))' % s, num),
                     st.builds(lambda a, b: '(%s = %s)' % (a, b), strs, strs))
    expr = st.one_of(num2, num2, strs)
    vars_ = st.fixed_dictionaries({
        'I%': st.integers(-32768, 32767), 'J%': st.integers(-5, 5),
        'X!': strat_float(4).filter(lambda x: in_range(Fraction(x), 4) and abs(x) < 1e30),
        'Y#': strat_float(8).filter(lambda x: in_range(Fraction(x), 8) and abs(x) < 1e30),
        'T$': st.text(st.characters(min_codepoint=32, max_codepoint=126), max_size=8),
        'U$': st.text(st.characters(min_codepoint=32, max_codepoint=255), max_size=4),
    })
    return st.builds(lambda e, v: {'u': 'eval', 'expr': e, 'vars': v}, expr, vars_)


def units(tier):
    return [
        Unit('ints-all', 'enum', shards={'quick': 8, 'thorough': 16}, gen=gen_ints, exhaustive=True),
        Unit('floats', 'bulk', shards={'quick': 8, 'thorough': 16}, run=run_floats),
        Unit('scalars', 'hyp', shards={'quick': 8, 'thorough': 16}, examples={'quick': 400, 'thorough': 30000},
             strategy=strat_scalar),
        Unit('arrays', 'hyp', shards={'quick': 8, 'thorough': 16}, examples={'quick': 300, 'thorough': 20000},
             strategy=strat_array),
        Unit('evaluate', 'hyp', shards=16, examples={'quick': 150, 'thorough': 25000},
             strategy=strat_expr),
    ]


REGRESSIONS = [
    {'u': 'num', 't': '%', 'x': -32768},
    {'u': 'num', 't': '!', 'x': 1.5},
    {'u': 'num', 't': '#', 'x': 0.1},
    {'u': 'str', 'kind': 'unicode', 'cp': '437', 's': u'\xe9▒α'},
    {'u': 'arr', 't': '%', 'base': 1, 'dim': True, 'data': [[1, 2, 3], [4, 5, 6]]},
    {'u': 'eval', 'expr': '(1.5 * X!) + LEN(T$)', 'vars': {'X!': 2.5, 'T$': 'abc'}},
    # fixed cfabab43: Float.from_value lost the last mantissa bit of every single below 2^23
    {'u': 'num', 't': '!', 'x': 180.9972381591797},
    {'u': 'arr', 't': '!', 'base': 0, 'dim': True, 'data': [0.1, 180.9972381591797, 1 / 3.0]},
    # fixed dca85c97: still lost it for a float64 a few ulp below a power of two
    {'u': 'num', 't': '!', 'x': 7.999999999999999},
    {'u': 'num', 't': '!', 'x': 0.9999999999999999},
    {'u': 'arr', 't': '!', 'base': 1, 'dim': False, 'data': [1023.9999999999999, 3.3230699894622893e+35]},
]

KILLS = [
    'arrays.py _from_list ignoring OPTION BASE -> escaped.BASICError@arrays.py:check_dim (arrays)',
    'arrays.py _to_list ignoring OPTION BASE -> escaped.BASICError@arrays.py:check_dim (arrays)',
    'numbers.py Float.to_value sign dropped -> get.single + get.double (floats)',
    'codepage.py _from_unicode drops mapped characters >= U+0400 -> str.unicode.encode + str.unicode.roundtrip (scalars)',
    'implementation.py evaluate returns the value rounded to single -> eval.number (evaluate)',
    'numbers.py Float.from_value frexp patch applied -> excluded_known drops to 0 (the open finding is the only source of exclusions)',
    'fix dca85c97 reverse-applied -> set.single.below-pow2-loses-bit (floats unit)',
]
