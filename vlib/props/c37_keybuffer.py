"""
C37 - the keyboard buffer is a 15-key FIFO mirrored in BIOS memory at 0:041A..0:043D.

Model (written from the property statement and the IBM BIOS data area layout, not from keyboard.py):
a 16-slot ring of (character byte, scancode) with head and tail indices; a keystroke is stored at
the tail unless 15 are waiting (then it is dropped); a read takes the head slot; PEEK(1050..1051)
= 30 + 2*head, PEEK(1052..1053) = 30 + 2*tail, the slot of ring index i is at 1054 + 2*i (character
byte, then scancode); POKE 1050, PEEK(1052) makes head = tail, i.e. empties the buffer.

A case is a list of operations interpreted against a fresh session and the model; the invariant
(pointers, waiting slots) is checked after every operation. Keystrokes arrive the way an interface
delivers them: KEYB_DOWN signals on the session's input queue (processed at the next statement
boundary). The `prog` operation types keys *while a stored program is reading INKEY$* (injection at
chosen statement boundaries through Sess.inject); its oracle is timing independent: what the
program read, followed by what is still waiting, must be exactly what was waiting followed by what
was typed.
"""
from hypothesis import strategies as st

from vlib.core import Result, Unit
from vlib import harness

from pcbasic.basic.base import signals

ID = 'C37'
LEVEL = 'exploration'
RULE = ("Hypothesis operation lists (<= 60 quick / 120 thorough ops) over: key press (KEYB_DOWN signal; "
        "ASCII, control, cp437 and extended NUL+code keys with their XT scancodes, bursts), paste "
        "(Session.press_keys, only while the result still fits 15 keys), A$=INKEY$, INPUT$(n), "
        "LINE INPUT, PEEK of the 4 pointer bytes and the 32 slot bytes (also checked as invariant "
        "after every op), DEF SEG=0:POKE 1050,PEEK(1052), and a stored INKEY$ loop with keys "
        "injected at chosen statement boundaries; plus an exhaustive family: every (reads before, "
        "keys waiting) ring position x fill level for the clearing POKE and for overflow. "
        "Non-trivial: >= 16 keys accepted in total (ring wrap-around) with reads interleaved, or a "
        "clearing POKE while keys wait, or a press while 15 wait; distinct = distinct op list.")
ASSUMPTIONS = [
    "function keys F1-F10 are only typed after KEY n,\"\" (soft-key macro expansion into INKEY$ is "
    "outside the statement)",
    "INPUT$(n) and LINE INPUT are only issued when the model says enough suitable keys are waiting "
    "(otherwise they would block); LINE INPUT only over printable keys terminated by Enter, and "
    "compared modulo trailing blanks (the line editor trims them)",
    "the slot left of the head that GW-BASIC overwrites with CR on overflow, and all slots outside "
    "head..tail, are not asserted",
    "scancode bytes are asserted only for keys typed with a scancode (not for pasted keys)",
    "Ctrl+C, Ctrl+Break, Pause, F12 and Alt+keypad are not typed (they are interrupts / emulator "
    "keys, not buffered keystrokes)",
    "after a clearing POKE the check reads INKEY$ until it returns \"\" (at most 40 reads): on a "
    "correct implementation that is one empty read; before fix 1579f054 it drained the stale "
    "entries (buckets clear.*) so that the search continued behind that defect",
]
TECHNIQUE = ("model-based stateful testing: Hypothesis op lists vs. 16-slot ring model, invariant "
             "after every step; harness-owned key injection at statement boundaries; exhaustive "
             "ring-position x fill-level enumeration for clear/overflow")

KBASE = 30          # 0x1E: offset of the first slot in segment 0x40
RING = 16
CAP = 15

_LETTER_SCAN = {
    'q': 0x10, 'w': 0x11, 'e': 0x12, 'r': 0x13, 't': 0x14, 'y': 0x15, 'u': 0x16, 'i': 0x17,
    'o': 0x18, 'p': 0x19, 'a': 0x1e, 's': 0x1f, 'd': 0x20, 'f': 0x21, 'g': 0x22, 'h': 0x23,
    'j': 0x24, 'k': 0x25, 'l': 0x26, 'z': 0x2c, 'x': 0x2d, 'c': 0x2e, 'v': 0x2f, 'b': 0x30,
    'n': 0x31, 'm': 0x32,
}


def _build_keys():
    """-> list of (unicode keystroke, scancode, modifier scancodes, bytes delivered, class)."""
    keys = []
    for ch, sc in sorted(_LETTER_SCAN.items()):
        keys.append((ch, sc, [], ch.encode(), 'print'))
    for ch in 'AZ':
        keys.append((ch, _LETTER_SCAN[ch.lower()], [0x2a], ch.encode(), 'print'))
    for i, ch in enumerate('1234567890'):
        keys.append((ch, 0x02 + i, [], ch.encode(), 'print'))
    keys.append((' ', 0x39, [], b' ', 'print'))
    for ch, sc in ((',', 0x33), ('.', 0x34), ('"', 0x28), (':', 0x27), ('?', 0x35)):
        keys.append((ch, sc, [], ch.encode(), 'punct'))
    keys.append(('\r', 0x1c, [], b'\r', 'enter'))
    keys.append(('\x1b', 0x01, [], b'\x1b', 'ctrl'))
    keys.append(('\x08', 0x0e, [], b'\x08', 'ctrl'))
    keys.append(('\t', 0x0f, [], b'\t', 'ctrl'))
    keys.append(('\x01', 0x1e, [0x1d], b'\x01', 'ctrl'))
    keys.append(('\x1a', 0x2c, [0x1d], b'\x1a', 'ctrl'))
    # code page 437 characters
    for ch, byte in ((u'\xe9', 0x82), (u'\xdf', 0xe1), (u'░', 0xb0), (u'\xff', 0x98)):
        keys.append((ch, 0x10, [], bytes([byte]), 'high'))
    # extended keys: NUL + code
    for code, sc in ((0x48, 0x48), (0x50, 0x50), (0x4b, 0x4b), (0x4d, 0x4d), (0x47, 0x47),
                     (0x4f, 0x4f), (0x49, 0x49), (0x51, 0x51), (0x53, 0x53), (0x85, 0x57)):
        keys.append((u'\0' + chr(code), sc, [], bytes([0, code]), 'ext'))
    # Alt+letter
    keys.append((u'\0\x1e', 0x1e, [0x38], b'\0\x1e', 'ext'))
    # F1..F10 (only with soft keys emptied)
    for i in range(10):
        keys.append((u'\0' + chr(0x3b + i), 0x3b + i, [], bytes([0, 0x3b + i]), 'fkey'))
    return keys


KEYS = _build_keys()
NKEYS = len(KEYS)
_NOFKEY = [i for i, k in enumerate(KEYS) if k[4] != 'fkey']
_PRINT = [i for i, k in enumerate(KEYS) if k[4] == 'print']
_ENTER = [i for i, k in enumerate(KEYS) if k[4] == 'enter'][0]


def key_index(k, nomacro):
    k %= NKEYS
    if KEYS[k][4] == 'fkey' and not nomacro:
        k = _NOFKEY[k % len(_NOFKEY)]
    return k


class Model(object):
    def __init__(self):
        self.head = 0
        self.tail = 0
        self.slots = [None] * RING      # (first byte, scancode or None) ; None = never written
        self.waiting = []               # list of (bytes, scancode or None)
        self.accepted = 0
        self.dropped = 0

    def press(self, data, scan):
        if len(self.waiting) >= CAP:
            self.dropped += 1
            return False
        self.slots[self.tail] = (data[0], scan)
        self.tail = (self.tail + 1) % RING
        self.waiting.append((data, scan))
        self.accepted += 1
        return True

    def read(self):
        if not self.waiting:
            return b''
        self.head = (self.head + 1) % RING
        return self.waiting.pop(0)[0]

    def clear(self):
        self.head = self.tail
        self.waiting = []


def _fail_outcome(res, o, what):
    if o.kind == 'escaped':
        res.fail('escaped.%s@%s' % (o.exc, o.frame), '%s: %r\n%s' % (what, o, o.tb))
    elif o.kind in ('budget',):
        res.inconclusive = True
    else:
        res.fail('unexpected-outcome', '%s: %r' % (what, o))


class Runner(object):
    """Interprets an op list against a real session and the model."""

    def __init__(self, sess, res, nomacro):
        self.s = sess
        self.res = res
        self.m = Model()
        self.nomacro = nomacro
        self.unflushed = False
        self.dead = False
        self.trace = []
        self.clears_with_keys = 0
        self.press_when_full = 0
        self.reads_nonempty = 0
        self.wrapped_reads = False

    def run_stmt(self, text, what=None):
        o = self.s.execute(text)
        if o.kind != 'ok' or o.errors:
            _fail_outcome(self.res, o, what or text)
            self.dead = True
            return None
        return o

    def peek(self, addr):
        o = self.s.evaluate(b'PEEK(%d)' % addr)
        if o.kind != 'ok' or o.errors or not isinstance(o.value, int):
            _fail_outcome(self.res, o, 'PEEK(%d)' % addr)
            self.dead = True
            return None
        return o.value

    def flush(self):
        """Force a statement boundary so that queued key signals are processed."""
        if self.unflushed:
            self.run_stmt(b"REM")
            self.unflushed = False

    def signal_key(self, k):
        ch, scan, mods, data, _cls = KEYS[k]
        self.s.put_signal(signals.KEYB_DOWN, (ch, scan, list(mods)))
        return data, scan

    def inkey(self):
        if self.run_stmt(b'A$=INKEY$') is None:
            return None
        v = self.s.get('A$')
        return bytes(v)

    def peek2(self, addr):
        """(PEEK(addr), PEEK(addr+1)) in one evaluation."""
        o = self.s.evaluate(b'PEEK(%d)+256*PEEK(%d)' % (addr, addr + 1))
        v = o.value
        if o.kind != 'ok' or o.errors or not isinstance(v, (int, float)) or v != int(v) or not (
                0 <= v <= 65535):
            _fail_outcome(self.res, o, 'PEEK(%d)+256*PEEK(%d) -> %r' % (addr, addr + 1, v))
            self.dead = True
            return None, None
        v = int(v)
        return v % 256, v // 256

    def check_invariant(self, after, slots=True):
        """Pointers always; the slots of the waiting keys unless the op only removed keys (reads
        do not write slots, and every waiting slot was checked when it was filled)."""
        if self.dead or self.unflushed:
            return
        m = self.m
        want = [(KBASE + 2 * m.head) % 256, 0, (KBASE + 2 * m.tail) % 256, 0]
        got = list(self.peek2(1050) + self.peek2(1052))
        if self.dead:
            return
        if got != want:
            self.res.fail('ptr.mismatch', 'after %s: PEEK(1050..1053) = %r, model head=%d tail=%d '
                          'expects %r; trace %r' % (after, got, m.head, m.tail, want, self.trace[-12:]))
            self.dead = True
            return
        if not slots:
            return
        for i, (data, scan) in enumerate(m.waiting):
            idx = (m.head + i) % RING
            c, sc = self.peek2(1054 + 2 * idx)
            if self.dead:
                return
            if c != data[0]:
                self.res.fail('slot.char', 'after %s: waiting key %d (%r) at ring slot %d: PEEK(%d) '
                              '= %r expected %d; trace %r' % (after, i, data, idx, 1054 + 2 * idx, c,
                                                            data[0], self.trace[-12:]))
                self.dead = True
                return
            if scan is not None and sc != scan:
                self.res.fail('slot.scancode', 'after %s: waiting key %d (%r) at ring slot %d: '
                              'PEEK(%d) = %r expected scancode %d' % (
                                  after, i, data, idx, 1055 + 2 * idx, sc, scan))
                self.dead = True
                return

    # -- operations -------------------------------------------------------------------------

    def op_key(self, op):
        k = key_index(op['k'], self.nomacro)
        data, scan = self.signal_key(k)
        if len(self.m.waiting) >= CAP:
            self.press_when_full += 1
        ok = self.m.press(data, scan)
        self.trace.append(('key', data, ok))
        self.unflushed = True
        if op.get('flush', True):
            self.flush()

    def op_paste(self, op):
        ks = [key_index(k, self.nomacro) for k in op['ks']]
        ks = ks[:max(0, CAP - len(self.m.waiting))]
        if not ks:
            self.res.label('paste-skipped-full')
            return
        self.flush()
        text = u''.join(KEYS[k][0] for k in ks)
        try:
            self.s.s.press_keys(text)
        except Exception as e:      # noqa: B902
            self.res.fail('escaped.%s@press_keys' % type(e).__name__, repr(e))
            self.dead = True
            return
        for k in ks:
            self.m.press(KEYS[k][3], None)
        self.trace.append(('paste', [KEYS[k][3] for k in ks]))

    def op_inkey(self, op):
        self.flush()
        if self.dead:
            return
        want = self.m.read()
        got = self.inkey()
        if got is None:
            return
        self.trace.append(('inkey', got))
        if want:
            self.reads_nonempty += 1
            if self.m.accepted > RING:
                self.wrapped_reads = True
        if got != want:
            self.res.fail('inkey.mismatch', 'INKEY$ returned %r, model %r (still waiting in model '
                          '%r); trace %r' % (got, want, [w[0] for w in self.m.waiting][:16],
                                             self.trace[-14:]))
            self.dead = True

    def op_inputs(self, op):
        self.flush()
        if self.dead:
            return
        w = self.m.waiting
        if not w:
            self.res.label('input$-skipped')
            return
        n = 1 + op['n'] % len(w)
        if any(len(w[i][0]) != 1 for i in range(n)):
            self.res.label('input$-skipped')
            return
        want = b''.join(self.m.read() for _ in range(n))
        if self.run_stmt(b'A$=INPUT$(%d)' % n) is None:
            return
        got = bytes(self.s.get('A$'))
        self.trace.append(('input$', n, got))
        self.reads_nonempty += 1
        if self.m.accepted > RING:
            self.wrapped_reads = True
        if got != want:
            self.res.fail('input$.mismatch', 'INPUT$(%d) returned %r, model %r; trace %r' % (
                n, got, want, self.trace[-14:]))
            self.dead = True

    def op_lineinput(self, op):
        self.flush()
        if self.dead:
            return
        w = [x[0] for x in self.m.waiting]
        if b'\r' not in w:
            self.res.label('lineinput-skipped')
            return
        n = w.index(b'\r')
        printable = set(KEYS[i][3] for i in _PRINT)
        if any(x not in printable for x in w[:n]):
            self.res.label('lineinput-skipped')
            return
        want = b''.join(self.m.read() for _ in range(n))
        self.m.read()
        if self.run_stmt(b'LINE INPUT A$') is None:
            return
        got = bytes(self.s.get('A$'))
        self.trace.append(('lineinput', got))
        self.res.label('lineinput-done')
        self.reads_nonempty += 1
        # the line editor drops trailing blanks of the entered line (as GW-BASIC does)
        if got.rstrip(b' ') != want.rstrip(b' '):
            self.res.fail('lineinput.mismatch', 'LINE INPUT returned %r, model %r; trace %r' % (
                got, want, self.trace[-14:]))
            self.dead = True

    def op_peek(self, op):
        self.flush()
        # the invariant check after the op does the reading

    def op_clear(self, op):
        self.flush()
        if self.dead:
            return
        before = [x[0] for x in self.m.waiting]
        if before:
            self.clears_with_keys += 1
        reads_before = self.m.accepted - len(before)
        self.m.clear()
        if self.run_stmt(b'DEF SEG=0:POKE 1050,PEEK(1052)') is None:
            return
        self.trace.append(('clear', len(before)))
        ptrs = [self.peek(a) for a in (1050, 1051, 1052, 1053)]
        if self.dead:
            return
        stale = []
        for _ in range(40):
            got = self.inkey()
            if got is None:
                return
            if got == b'':
                break
            stale.append(got)
        else:
            self.res.fail('clear.never-empty', '40 non-empty reads after the clearing POKE')
            self.dead = True
            return
        if stale:
            want_ptr = (KBASE + 2 * self.m.tail) % 256
            info = ('DEF SEG=0:POKE 1050,PEEK(1052) with %d key(s) waiting %r (after %d keys '
                    'accepted, %d read): pointers then %r, and INKEY$ still returned %d '
                    'keystroke(s) %r before "" ' % (len(before), before, self.m.accepted,
                                                    reads_before, ptrs, len(stale), stale))
            if len(stale) == RING and ptrs[0] == ptrs[2] == want_ptr:
                # the pointers look empty but a whole ring of entries is delivered
                self.res.fail('clear.stale-ring16', info)
            elif stale == before:
                # nothing was discarded (the pointers may have moved)
                self.res.fail('clear.keys-remain', info)
            else:
                self.res.fail('clear.other', info)
            self.res.excluded += 1
            # continue behind the defect: adopt the ring position the implementation is at now
            p0, p2 = self.peek(1050), self.peek(1052)
            if self.dead:
                return
            if p0 != p2 or (p0 - KBASE) % 2 or not 0 <= (p0 - KBASE) // 2 < RING:
                self.res.fail('clear.pointers-after-drain', info + '; after draining PEEK(1050)=%r '
                              'PEEK(1052)=%r' % (p0, p2))
                self.dead = True
                return
            self.m.head = self.m.tail = (p0 - KBASE) // 2

    def op_prog(self, op):
        """Stored program reading INKEY$ n times while keys are injected at statement boundaries."""
        self.flush()
        if self.dead:
            return
        n = 1 + op['n'] % 24
        room = CAP - len(self.m.waiting)
        plan = sorted((1 + c % (3 * n + 6), key_index(k, self.nomacro)) for c, k in op['inj'])[:room]
        injected = []
        plan_left = list(plan)

        def inject(call):
            while plan_left and plan_left[0][0] <= call:
                _c, k = plan_left.pop(0)
                injected.append(self.signal_key(k))
        prog = ('10 DIM R$(%d)\n20 FOR I=1 TO %d\n30 R$(I)=INKEY$\n40 NEXT\nRUN' % (n + 1, n))
        self.s.inject = inject
        try:
            o = self.run_stmt(prog.encode(), 'INKEY$ loop')
        finally:
            self.s.inject = None
        if o is None:
            return
        reads = [bytes(x) for x in self.s.get('R$()')[1:n + 1]]
        # RUN cleared variables; DEF SEG survives? set it again to be safe
        if self.run_stmt(b'DEF SEG=0') is None:
            return
        got = [r for r in reads if r]
        for data, scan in injected:
            self.m.press(data, scan)
        expect = [x[0] for x in self.m.waiting]
        self.trace.append(('prog', n, len(injected), got))
        self.res.label('prog-injected-%s' % ('0' if not injected else ('1-3' if len(injected) < 4
                                                                        else '4+')))
        if got != expect[:len(got)]:
            self.res.fail('prog.order', 'program read %r while the keys available in order were %r '
                          '(injected %r); trace %r' % (got, expect, [d for d, _ in injected],
                                                       self.trace[-10:]))
            self.dead = True
            return
        for _ in got:
            self.m.read()
            self.reads_nonempty += 1
        if got and self.m.accepted > RING:
            self.wrapped_reads = True


OPS = {
    'key': Runner.op_key, 'paste': Runner.op_paste, 'inkey': Runner.op_inkey,
    'input$': Runner.op_inputs, 'lineinput': Runner.op_lineinput, 'peek': Runner.op_peek,
    'clear': Runner.op_clear, 'prog': Runner.op_prog,
}


def check_case(case):
    res = Result()
    ops = case['ops']
    nomacro = bool(case.get('nomacro'))
    with harness.Sess(budget=20000) as sess:
        r = Runner(sess, res, nomacro)
        setup = b'DEF SEG=0'
        if nomacro:
            setup = b'FOR I=1 TO 10:KEY I,"":NEXT:DEF SEG=0'
        if r.run_stmt(setup) is None:
            return res
        r.check_invariant('start')
        for op in ops:
            if r.dead:
                break
            OPS[op['op']](r, op)
            r.check_invariant(op['op'], slots=op['op'] not in ('inkey', 'input$', 'lineinput'))
        if not r.dead:
            r.flush()
            r.check_invariant('end')
        # drain: everything still waiting must come out in order, then ""
        if not r.dead:
            left = [x[0] for x in r.m.waiting]
            got = []
            for _ in range(len(left) + 1):
                v = r.inkey()
                if v is None:
                    break
                got.append(v)
            else:
                if got != left + [b'']:
                    res.fail('drain.mismatch', 'final drain returned %r, model %r; trace %r' % (
                        got, left + [b''], r.trace[-14:]))
        m = r.m
        wrap = m.accepted > RING and r.wrapped_reads
        res.nt(wrap or r.clears_with_keys > 0 or r.press_when_full > 0)
        if wrap:
            res.label('wrap-around-with-reads')
        if r.clears_with_keys:
            res.label('clear-with-keys-waiting')
        if r.press_when_full:
            res.label('press-while-15-waiting')
        if m.accepted > 2 * RING:
            res.label('two-laps')
        kinds = set(o['op'] for o in ops)
        for k in sorted(kinds):
            res.label('op-' + k)
    return res


# ---------------------------------------------------------------------------------------------
# generators

def strat_ops(max_ops):
    k = st.integers(0, NKEYS - 1)
    key = st.builds(lambda x, fl: {'op': 'key', 'k': x, 'flush': fl}, k,
                    st.sampled_from([True, True, False]))
    printkey = st.builds(lambda x: {'op': 'key', 'k': x, 'flush': True}, st.sampled_from(_PRINT))
    enter = st.just({'op': 'key', 'k': _ENTER, 'flush': True})
    inkey = st.just({'op': 'inkey'})
    op = st.one_of(
        key, key, key, key, printkey, enter, inkey, inkey, inkey,
        st.builds(lambda n: {'op': 'input$', 'n': n}, st.integers(0, 14)),
        st.just({'op': 'lineinput'}),
        st.just({'op': 'peek'}),
        st.just({'op': 'clear'}),
        st.builds(lambda ks: {'op': 'paste', 'ks': ks}, st.lists(k, min_size=1, max_size=6)),
        st.builds(lambda n, inj: {'op': 'prog', 'n': n, 'inj': inj}, st.integers(0, 23),
                  st.lists(st.tuples(st.integers(0, 80), k).map(list), max_size=8)),
        # bursts make wrap-around and overflow frequent
        st.builds(lambda ks: {'op': 'burst', 'ks': ks}, st.lists(k, min_size=3, max_size=18)),
        st.builds(lambda n: {'op': 'reads', 'n': n}, st.integers(2, 17)),
        # a typed line: drain, printable keys, Enter, LINE INPUT
        st.builds(lambda ks, dr: {'op': 'line', 'ks': ks, 'drain': dr},
                  st.lists(st.sampled_from(_PRINT), min_size=0, max_size=8), st.booleans()),
        # advance the ring position: type n keys and read them all back
        st.builds(lambda n, k0: {'op': 'adv', 'n': n, 'k0': k0}, st.integers(1, 15), k),
    )

    def expand(ops):
        out = []
        for o in ops:
            if o['op'] == 'burst':
                ks = o['ks']
                out.extend({'op': 'key', 'k': x, 'flush': i == len(ks) - 1}
                           for i, x in enumerate(ks))
            elif o['op'] == 'reads':
                out.extend({'op': 'inkey'} for _ in range(o['n']))
            elif o['op'] == 'line':
                if o['drain']:
                    out.extend({'op': 'inkey'} for _ in range(15))
                out.extend({'op': 'key', 'k': x, 'flush': True} for x in o['ks'])
                out.append({'op': 'key', 'k': _ENTER, 'flush': True})
                out.append({'op': 'lineinput'})
            elif o['op'] == 'adv':
                out.extend({'op': 'key', 'k': (o['k0'] + 7 * i) % NKEYS, 'flush': i % 3 != 1}
                           for i in range(o['n']))
                out.extend({'op': 'inkey'} for _ in range(o['n']))
            else:
                out.append(o)
        return out[:max_ops]
    return st.lists(op, min_size=3, max_size=max_ops // 2).map(expand)


def strat_case_q():
    return st.builds(lambda ops, nm: {'ops': ops, 'nomacro': nm}, strat_ops(60), st.booleans())


def strat_case_t():
    return st.builds(lambda ops, nm: {'ops': ops, 'nomacro': nm}, strat_ops(120), st.booleans())


def gen_positions(shard, nshards, tier, seed):
    import os
    try:
        sc = float(os.environ.get('VERIF_SCALE', '1'))
    except ValueError:
        sc = 1.0
    step = max(1, int(round(1.0 / sc))) if 0 < sc < 1 else 1    # development runs only
    for j, case in enumerate(_gen_positions(shard, nshards, tier, seed)):
        if j % step == 0:
            yield case


def _gen_positions(shard, nshards, tier, seed):
    """Exhaustive small family: ring position (keys typed and read before, 0..40) x fill level
    (0..15, and 16/17 = overflow attempts) x what happens then (clear / drain / peek)."""
    i = 0
    laps = 41 if tier == 'thorough' else 21
    for pre in range(laps):
        for fill in range(0, 18):
            for then in ('clear', 'drain', 'clear-type'):
                i += 1
                if i % nshards != shard:
                    continue
                ops = []
                # advance the ring: type and read `pre` keys in chunks of up to 7
                left = pre
                kk = pre
                while left:
                    c = min(7, left)
                    ops.extend({'op': 'key', 'k': (kk + j) % 26, 'flush': True} for j in range(c))
                    ops.extend({'op': 'inkey'} for _ in range(c))
                    left -= c
                    kk += c
                ops.extend({'op': 'key', 'k': (3 * pre + j) % NKEYS, 'flush': j % 2 == 0}
                           for j in range(fill))
                ops.append({'op': 'peek'})
                if then.startswith('clear'):
                    ops.append({'op': 'clear'})
                    if then == 'clear-type':
                        ops.extend({'op': 'key', 'k': (5 + j) % 26, 'flush': True}
                                   for j in range(3))
                        ops.append({'op': 'inkey'})
                else:
                    ops.extend({'op': 'inkey'} for _ in range(min(fill, 15) + 1))
                yield {'ops': ops, 'nomacro': bool(pre % 2)}


def units(tier):
    return [
        Unit('positions', 'enum', shards={'quick': 8, 'thorough': 16}, gen=gen_positions, exhaustive=True),
        Unit('histories', 'hyp', shards={'quick': 8, 'thorough': 16}, examples={'quick': 100, 'thorough': 1500},
             strategy=strat_case_q if tier == 'quick' else strat_case_t),
    ]


def _keys(text):
    idx = {k[0]: i for i, k in enumerate(KEYS)}
    return [{'op': 'key', 'k': idx[ch], 'flush': True} for ch in text]


REGRESSIONS = [
    # fixed 1579f054 (DESIGN finding 13): clearing idiom with 5 keys waiting -> 16 stale reads
    {'ops': _keys('abcde') + [{'op': 'clear'}, {'op': 'inkey'}], 'nomacro': False},
    # the same on an empty, untouched buffer
    {'ops': [{'op': 'clear'}, {'op': 'inkey'}], 'nomacro': False},
    # fixed 1579f054: after more than 16 keystrokes the POKE left the waiting keys in place
    {'ops': _keys('abcdefghijkl') + [{'op': 'inkey'}] * 12 + _keys('mnopqrstu') + [{'op': 'inkey'}] * 6
     + [{'op': 'clear'}, {'op': 'inkey'}], 'nomacro': False},
    # plain FIFO with overflow and wrap-around
    {'ops': _keys('abcdefghijklmnopq') + [{'op': 'peek'}] + [{'op': 'inkey'}] * 10
     + _keys('rstuvwxyz') + [{'op': 'inkey'}] * 15, 'nomacro': True},
]

KILLS = [
    "keyboard.append: capacity test `>= ring_length-1` -> `>= ring_length` -> ptr.mismatch (16th key accepted)",
    "keyboard._ring_index: `% ring_length` -> `% (ring_length-1)` -> slot.char",
    "keyboard.getc: `_start += 1` dropped -> ptr.mismatch / inkey.mismatch",
    "keyboard.append: overflow CR written at `_start` instead of `_start-1` -> slot.char (head key overwritten)",
    "keyboard.stop: +1 -> ptr.mismatch at start",
    "machine._get_low_memory: PEEK(1052) returns start -> ptr.mismatch",
    "machine._get_low_memory: odd/even slot bytes swapped -> slot.char",
    "keyboard.append: scancode stored as None -> slot.scancode",
    "keyboard.getc: returns the newest key (LIFO) -> inkey.mismatch",
    "revert of fix 1579f054 (original ring_set_boundaries) -> clear.stale-ring16, clear.keys-remain",
    "keyboard.ring_set_boundaries (fixed version): `_start = len - length - 1` -> clear.other, "
    "clear.keys-remain",
    "machine._set_low_memory: POKE 1050 without subtracting the buffer offset -> clear.other, "
    "clear.keys-remain",
    "SURVIVES (equivalent for this property): ring_set_boundaries without the rotation "
    "`ring[newstop:] + ring[:newstop]` - only slots outside head..tail change, which the "
    "statement does not constrain",
    "(positions unit run with VERIF_SCALE=0.15, every 7th case)",
]
