"""
C02 - integer operators follow 16-bit two's-complement semantics.

Oracle: Python integers. Routes: 'api' (pcbasic.basic.values functions on Integer objects),
'eval' (BASIC text through Session.evaluate with integer variables), 'float' (float-typed operands
that round to integers), 'for' (FOR/NEXT with an integer counter in a stored program).
"""
import random

from hypothesis import strategies as st

from vlib.core import Result, Unit
from vlib import harness

ID = 'C02'
LEVEL = 'exploration'
RULE = ("Operand pairs from a boundary-dense lattice (all |x|<=300, +-2^k and neighbours, multiples "
        "of 255/256/257, both int16 ends) crossed with itself plus seeded-random pairs, for \\ MOD "
        "AND OR XOR EQV IMP through the values API; all 65536 values for NOT, unary minus and ABS; "
        "expressions through Session.evaluate (integer variables and float-typed operands); "
        "sequences of operators over the same integer variables / array elements / DEFINT variables "
        "(results vs. model, operands read back unchanged, the identity a=b*(a\\b)+(a MOD b) as one "
        "expression); FOR I%=s TO e STEP d programs near the int16 ends. Non-trivial: an error is expected or "
        "the result differs from both operands; distinct = distinct (route, op, a, b).")
ASSUMPTIONS = [
    "-32768 MOD -1 may return 0 or raise Overflow (statement and GW-BASIC differ; both accepted)",
    "bitwise operands in 32768..65535 may raise Overflow or act on the unsigned pattern "
    "(statement says accept, manual and code say Overflow; both accepted, anything else fails)",
    "the full 2^32 product is not enumerated in pure Python; unary operators are exhaustive",
]

TECHNIQUE = ("boundary-lattice and seeded-random enumeration of operand pairs vs. Python integer model "
             "(values API + Session.evaluate); exhaustive unary operators; Hypothesis FOR-loop programs")
KILLS = [
    "numbers.Integer.iadd: carry from low to high byte dropped => for.sequence, for.overflow-missing, for.spurious-error",
    "numbers.Integer.imod: sign taken from the divisor => binop.MOD.api/eval/float, identity, mod-sign",
    "values.not_: -x instead of ~x => unary.NOT, unary.NOT.lit",
    "numbers.Integer.from_int: lower bound -0x7fff (rejects -32768) => binop.*.api (spurious Overflow)",
    "numbers.Integer.iadd: revert 51068ba5 (negative overflow undetected) => for.sequence, for.overflow-missing",
    "values.xor_: computed as OR => binop.XOR.api/eval/float",
    "seeded/C02 (idiv_int negates after storing: -32768\\1 raises Overflow) => binop.\\.api",
    "seeded/C02b (imod sign correction applied to zero remainders) => binop.MOD.api, identity",
    "seeded/C02e (intdiv divides in place: A%\\B% overwrites the variable A%) => seq.value.identity, seq.operand-changed",
    "survives (equivalent): idiv_int sign test `divisor > 0` instead of `>= 0` - the divisor is never 0 there",
]

BINOPS = ['\\', 'MOD', 'AND', 'OR', 'XOR', 'EQV', 'IMP']


def s16(v):
    v &= 0xffff
    return v - 0x10000 if v & 0x8000 else v


def trunc_div(a, b):
    q = abs(a) // abs(b)
    return q if (a >= 0) == (b >= 0) else -q


def expected_bin(op, a, b):
    """-> set of acceptable outcomes: ints (values) or ('err', code)."""
    if op in ('\\', 'MOD'):
        if not (-32768 <= a <= 32767 and -32768 <= b <= 32767):
            return {('err', 6)}
        if b == 0:
            return {('err', 11)}
        q = trunc_div(a, b)
        if op == '\\':
            return {q} if -32768 <= q <= 32767 else {('err', 6)}
        r = a - b * q
        if not -32768 <= q <= 32767:
            return {r, ('err', 6)}
        return {r}
    # bitwise
    for x in (a, b):
        if not -32768 <= x <= 65535:
            return {('err', 6)}
    ua, ub = a & 0xffff, b & 0xffff
    if op == 'AND':
        r = ua & ub
    elif op == 'OR':
        r = ua | ub
    elif op == 'XOR':
        r = ua ^ ub
    elif op == 'EQV':
        r = ~(ua ^ ub)
    elif op == 'IMP':
        r = (~ua) | ub
    acc = {s16(r)}
    if a > 32767 or b > 32767:
        acc.add(('err', 6))
    return acc


_API = {}


def _api():
    if not _API:
        from pcbasic.basic.values import values as V
        from pcbasic.basic.base import error
        sess = harness.Sess()
        vals = sess.impl.values
        vals.error_handler.suspend(True)
        _API.update(V=V, vals=vals, error=error, sess=sess, fn={
            '\\': V.intdiv, 'MOD': V.mod_, 'AND': V.and_, 'OR': V.or_, 'XOR': V.xor_,
            'EQV': V.eqv_, 'IMP': V.imp_})
    return _API


def api_bin(op, a, b):
    api = _api()
    vals, error = api['vals'], api['error']
    try:
        la = vals.new_integer().from_int(a)
        lb = vals.new_integer().from_int(b)
    except error.BASICError as e:
        return ('err', e.err)
    try:
        r = api['fn'][op](la, lb)
    except error.BASICError as e:
        return ('err', e.err)
    return r.to_int()


_EVAL = {}


def _sess():
    s = _EVAL.get('s')
    if s is None or _EVAL['n'] > 2000:
        if s is not None:
            s.close()
        s = harness.Sess()
        _EVAL['s'] = s
        _EVAL['n'] = 0
    _EVAL['n'] += 1
    return s


def outcome_to_obs(o):
    if o.kind != 'ok':
        return ('escaped', o.key())
    if o.errors:
        return ('err', o.errors[0][0])
    return o.value


def eval_bin(op, a, b):
    s = _sess()
    s.set('A%', a)
    s.set('B%', b)
    return outcome_to_obs(s.evaluate(b'A% ' + op.encode() + b' B%'))


def fmt_num(x):
    """Render an int or a float with .5 fraction as BASIC literal text."""
    if isinstance(x, float):
        r = repr(x)
        return r
    return str(x)


def eval_lit(op, a, b):
    s = _sess()
    return outcome_to_obs(s.evaluate(('%s %s %s' % (fmt_num(a), op, fmt_num(b))).encode()))


def round_half_away(x):
    import math
    if isinstance(x, int):
        return x
    f = math.floor(abs(x) + 0.5)
    return int(f) if x >= 0 else -int(f)


def check_case(case):
    res = Result()
    u = case['u']
    if u == 'bin':
        op, a, b, route = case['op'], case['a'], case['b'], case['route']
        if route == 'api':
            obs = api_bin(op, a, b)
            exp = expected_bin(op, a, b)
        elif route == 'eval':
            obs = eval_bin(op, a, b)
            exp = expected_bin(op, a, b)
        else:
            obs = eval_lit(op, a, b)
            ra, rb = round_half_away(a), round_half_away(b)
            exp = expected_bin(op, ra, rb)
            if not (-32768 <= ra <= 32767) or not (-32768 <= rb <= 32767):
                if op in ('\\', 'MOD'):
                    exp = {('err', 6)}
        res.nt(any(isinstance(e, tuple) for e in exp) or (obs != a and obs != b))
        if isinstance(obs, tuple) and obs[0] == 'escaped':
            res.fail('escaped.%s' % obs[1], '%r %s %r -> %r' % (a, op, b, obs))
        elif obs not in exp:
            res.fail('binop.%s.%s' % (op, route), '%r %s %r -> %r expected %r' % (a, op, b, obs, exp))
        elif op in ('\\', 'MOD') and route != 'float' and b != 0 and not isinstance(obs, tuple):
            pass
        return res
    if u == 'identity':
        a, b, route = case['a'], case['b'], case['route']
        f = api_bin if route == 'api' else eval_bin
        q, r = f('\\', a, b), f('MOD', a, b)
        if isinstance(q, int) and isinstance(r, int):
            res.nt(r != 0)
            if a != b * q + r:
                res.fail('identity', '%d = %d*%d + %d fails' % (a, b, q, r))
            if r != 0 and (r < 0) != (a < 0):
                res.fail('mod-sign', '%d MOD %d = %d' % (a, b, r))
        return res
    if u == 'seq':
        return check_seq(case, res)
    if u == 'unary':
        a, op = case['a'], case['op']
        s = _sess()
        s.set('A%', a)
        if op == 'NOT':
            o = outcome_to_obs(s.evaluate(b'NOT A%'))
            exp = s16(~(a & 0xffff))
        elif op == 'NEG':
            o = outcome_to_obs(s.evaluate(b'-A%'))
            exp = -a
        else:
            o = outcome_to_obs(s.evaluate(b'ABS(A%)'))
            exp = abs(a)
        res.nt(True)
        if o != exp:
            res.fail('unary.%s' % op, '%s %d -> %r expected %r' % (op, a, o, exp))
        return res
    if u == 'unary-lit':
        # out-of-range operands for NOT given as literals
        a = case['a']
        o = outcome_to_obs(_sess().evaluate(('NOT %s' % fmt_num(a)).encode()))
        ra = round_half_away(a)
        if -32768 <= ra <= 32767:
            exp = {s16(~(ra & 0xffff))}
        elif ra <= 65535 and ra > 0:
            exp = {s16(~(ra & 0xffff)), ('err', 6)}
        else:
            exp = {('err', 6)}
        res.nt(True)
        if o not in exp:
            res.fail('unary.NOT.lit', 'NOT %r -> %r expected %r' % (a, o, exp))
        return res
    if u == 'for':
        return check_for(case, res)
    raise ValueError(u)


FORMS = {
    # operand form -> (setup statement, left operand text, right operand text)
    'scalar': ('A%={a}:B%={b}', 'A%', 'B%'),
    'array': ('Q%(1)={a}:Q%(2)={b}', 'Q%(1)', 'Q%(2)'),
    'defint': ('DEFINT X-Y:X={a}:Y={b}', 'X', 'Y'),
    'same': ('A%={a}', 'A%', 'A%'),
}


def check_seq(case, res):
    """Several operators applied in turn to the same variables, which are set once.

    Evaluating an expression must leave its operand variables alone: every result is compared with
    the model on the values first assigned, the operands are read back afterwards, and the
    statement's identity a = b*(a\\b) + (a MOD b) is evaluated as ONE expression over the variables.
    """
    a, b, ops, form = case['a'], case['b'], case['ops'], case['form']
    if form == 'same':
        b = a
    setup, L, R = FORMS[form]
    s = _sess()
    o = s.execute(setup.format(a=a, b=b))
    if o.kind != 'ok' or o.errors:
        res.fail('seq.setup', '%s -> %r %r' % (setup.format(a=a, b=b), o.kind, o.errors))
        return res
    res.nt(True)
    res.label('seq.' + form)
    via_stmt = case.get('stmt', False)
    for op in ops:
        if op == 'IDENT':
            if b == 0 or (a == -32768 and b == -1):
                continue
            expr = '%s*(%s\\%s)+(%s MOD %s)' % (R, L, R, L, R)
            exp = {a}
        else:
            expr = '%s %s %s' % (L, op, R)
            exp = expected_bin(op, a, b)
        if via_stmt:
            o = s.execute('R%%=0:R%%=%s' % expr)
            obs = outcome_to_obs(o)
            if not isinstance(obs, tuple):
                obs = s.get('R%')
        else:
            obs = outcome_to_obs(s.evaluate(expr))
        if isinstance(obs, tuple) and obs[0] == 'escaped':
            res.fail('escaped.%s' % obs[1], '%s with %d,%d -> %r' % (expr, a, b, obs))
            return res
        if isinstance(obs, float) and obs == int(obs):
            obs = int(obs)
        if obs not in exp:
            res.fail('seq.value.%s' % ('identity' if op == 'IDENT' else op),
                     '%s [%s] with left=%d right=%d after %r -> %r expected %r'
                     % (expr, form, a, b, ops[:ops.index(op)], obs, exp))
            return res
        la, rb = outcome_to_obs(s.evaluate(L)), outcome_to_obs(s.evaluate(R))
        if la != a or rb != b:
            res.fail('seq.operand-changed',
                     'after evaluating %s [%s] the operands read %r, %r; they were set to %d, %d'
                     % (expr, form, la, rb, a, b))
            return res
    return res


def check_for(case, res):
    s0, e0, d = case['s'], case['e'], case['d']
    split = case.get('split', False)
    # reference progression
    seq = []
    i = s0
    ovf = False
    while (i <= e0 if d > 0 else i >= e0):
        seq.append(i)
        if len(seq) > 200:
            res.inconclusive = True
            return res
        i += d
        if not -32768 <= i <= 32767:
            ovf = True
            break
    sess = harness.Sess()
    try:
        body = 'R%(C)=I%:C=C+1'
        if split:
            prog = '10 DIM R%%(210):FOR I%%=%d TO %d STEP %d\n20 %s\n30 NEXT\n40 F=1\nRUN' % (
                s0, e0, d, body)
        else:
            prog = '10 DIM R%%(210):FOR I%%=%d TO %d STEP %d:%s:NEXT:F=1\nRUN' % (s0, e0, d, body)
        o = sess.execute(prog)
        if o.kind != 'ok':
            res.fail('for.%s' % o.key(), '%s -> %r' % (prog, o))
            return res
        n = int(sess.get('C!'))
        got = list(sess.get('R%()'))[:n]
        fin = sess.get('F!')
        res.nt(ovf or len(seq) > 1)
        res.label('for-overflow' if ovf else 'for-normal')
        if got != seq:
            res.fail('for.sequence', '%s: counter values %r expected %r' % (prog, got, seq))
        if ovf:
            if o.err != 6:
                res.fail('for.overflow-missing', '%s: expected Overflow, got %r' % (prog, o))
        else:
            if o.errors or fin != 1:
                res.fail('for.spurious-error', '%s: expected normal end, got %r' % (prog, o))
    finally:
        sess.close()
    return res


# --------------------------------------------------------------------------------------------
# generators

def lattice(small=False):
    vals = set(range(-300, 301)) if not small else set(range(-40, 41))
    for k in range(0, 16):
        for dlt in range(-3, 4):
            for sg in (1, -1):
                vals.add(sg * (1 << k) + dlt)
    for m in (255, 256, 257):
        for k in range(-128, 129, 1 if not small else 16):
            vals.add(m * k)
    vals.update(range(-32768, -32759))
    vals.update(range(32759, 32768))
    return sorted(v for v in vals if -32768 <= v <= 32767)


def run_lattice(shard, nshards, tier, seed, ev):
    L = lattice()
    mine = L[shard::nshards]
    for a in mine:
        for b in L:
            for op in BINOPS:
                obs = api_bin(op, a, b)
                exp = expected_bin(op, a, b)
                if obs not in exp:
                    ev.fail('binop.%s.api' % op, {'u': 'bin', 'op': op, 'a': a, 'b': b,
                                                   'route': 'api'},
                            '%d %s %d -> %r expected %r' % (a, op, b, obs, exp))
            # identity
            if b != 0:
                q, r = api_bin('\\', a, b), api_bin('MOD', a, b)
                if isinstance(q, int) and isinstance(r, int):
                    if a != b * q + r or (r != 0 and (r < 0) != (a < 0)):
                        ev.fail('identity', {'u': 'identity', 'a': a, 'b': b, 'route': 'api'},
                                '%d,%d: q=%r r=%r' % (a, b, q, r))
        # every (a, b, op) is distinct by construction; non-trivial unless a == b == result
        ev.count(len(L) * (len(BINOPS) + 1), nontrivial=len(L) * (len(BINOPS) + 1) - 2 * len(L))
    ev.sample({'u': 'bin', 'op': 'MOD', 'a': mine[0], 'b': L[-1], 'route': 'api'})


def run_random(shard, nshards, tier, seed, ev):
    rng = random.Random(seed)
    n = 60000 if tier == 'quick' else 2500000
    seen = 0
    for _ in range(n):
        a = rng.randint(-32768, 32767)
        b = rng.randint(-32768, 32767)
        if rng.random() < 0.3:
            b = rng.choice((a, -a, a + 1, a - 1, 1, -1, 0)) if -32768 <= -a <= 32767 else 1
            b = max(-32768, min(32767, b))
        for op in BINOPS:
            obs = api_bin(op, a, b)
            exp = expected_bin(op, a, b)
            if obs not in exp:
                ev.fail('binop.%s.api' % op, {'u': 'bin', 'op': op, 'a': a, 'b': b,
                                               'route': 'api'},
                        '%d %s %d -> %r expected %r' % (a, op, b, obs, exp))
        seen += len(BINOPS)
    ev.count(seen, nontrivial=int(seen * 0.99))
    ev.labels['random-pairs (distinctness estimated: collisions among 2^32 pairs negligible)'] = n


def run_bytelattice(shard, nshards, tier, seed, ev):
    """thorough: all (lsb_a, lsb_b) x 64 msb pairs, and all (msb_a, msb_b) x 64 lsb pairs."""
    rng = random.Random(12345)
    msbs = [(rng.randrange(256), rng.randrange(256)) for _ in range(56)] + [
        (0, 0), (0x7f, 0x7f), (0x80, 0x80), (0xff, 0xff), (0x7f, 0x80), (0x80, 0x7f),
        (0, 0xff), (0xff, 0)]
    cnt = 0
    for hi in (False, True):
        for x in range(shard, 256, nshards):
            for y in range(256):
                for (p, q) in msbs:
                    if hi:
                        a, b = s16((x << 8) | p), s16((y << 8) | q)
                    else:
                        a, b = s16((p << 8) | x), s16((q << 8) | y)
                    for op in BINOPS:
                        obs = api_bin(op, a, b)
                        if obs not in expected_bin(op, a, b):
                            ev.fail('binop.%s.api' % op, {'u': 'bin', 'op': op, 'a': a, 'b': b,
                                                           'route': 'api'},
                                    '%d %s %d -> %r' % (a, op, b, obs))
                    cnt += len(BINOPS)
    ev.count(cnt, nontrivial=int(cnt * 0.98))


def gen_unary(shard, nshards, tier, seed):
    for a in range(-32768 + shard, 32768, nshards):
        yield {'u': 'unary', 'op': 'NOT', 'a': a}
        yield {'u': 'unary', 'op': 'NEG', 'a': a}
        yield {'u': 'unary', 'op': 'ABS', 'a': a}


OUT_OF_RANGE = [-32769, 32768, 40000, 65535, 65536, 100000, 1e10, -1e10, -40000, -65535, -65536]
HALVES = [0.5, 1.5, 2.5, -0.5, -1.5, -2.5, 7.5, -7.5, 6.5, 32766.5, 32767.5, -32767.5, -32768.5,
          255.5, 256.5, 127.5, -127.5]


def strat_expr():
    small = st.sampled_from(lattice(small=True))
    anyint = st.integers(-32768, 32767)
    operand = st.one_of(small, anyint)
    oor = st.sampled_from(OUT_OF_RANGE)
    half = st.sampled_from(HALVES)
    op = st.sampled_from(BINOPS)
    return st.one_of(
        st.builds(lambda o, a, b: {'u': 'bin', 'op': o, 'a': a, 'b': b, 'route': 'eval'},
                  op, operand, operand),
        st.builds(lambda o, a, b: {'u': 'identity', 'a': a, 'b': b, 'route': 'eval'},
                  op, operand, operand.filter(lambda x: x != 0)),
        st.builds(lambda o, a, b, sw: {'u': 'bin', 'op': o, 'a': b if sw else a,
                                       'b': a if sw else b, 'route': 'float'},
                  op, st.one_of(oor, half), st.one_of(small, half, oor), st.booleans()),
        st.builds(lambda a: {'u': 'unary-lit', 'a': a}, st.one_of(oor, half)),
        st.builds(lambda a, b, ops, form, stmt: {'u': 'seq', 'a': a, 'b': b, 'ops': ops, 'form': form,
                                                 'stmt': stmt},
                  operand, operand,
                  st.lists(st.sampled_from(BINOPS + ['IDENT']), min_size=2, max_size=5, unique=True),
                  st.sampled_from(sorted(FORMS)), st.booleans()),
    )


def strat_for():
    def build(d, n, near, off, split, up):
        # choose start so that the progression reaches the int16 end within n steps
        if near == 'hi':
            s0 = 32767 - abs(d) * n + off if d > 0 else 32767 - off
        elif near == 'lo':
            s0 = -32768 + abs(d) * n - off if d < 0 else -32768 + off
        else:
            s0 = off * 7 - 50
        s0 = max(-32768, min(32767, s0))
        if near == 'mid' and up == 0:
            up = 1
        if up == 0:
            e0 = 32767 if d > 0 else -32768
        elif up == 1:
            e0 = s0 + d * n
        else:
            e0 = s0 + d * n + (d // 2)
        e0 = max(-32768, min(32767, e0))
        return {'u': 'for', 's': s0, 'e': e0, 'd': d, 'split': split}
    step = st.one_of(st.sampled_from([1, -1, 2, -2, 3, -3, 7, -7, 255, 256, -256, 1000, -1000,
                                      16384, -16384, 32767, -32768, 32766]),
                     st.integers(-300, 300).filter(lambda x: x != 0))
    return st.builds(build, step, st.integers(0, 40), st.sampled_from(['hi', 'lo', 'mid']),
                     st.integers(0, 12), st.booleans(), st.integers(0, 2))


def units(tier):
    us = [
        Unit('lattice-api', 'bulk', shards=16, run=run_lattice),
        Unit('random-api', 'bulk', shards=16, run=run_random),
        Unit('unary-all', 'enum', shards=16, gen=gen_unary, exhaustive=True),
        Unit('expr-eval', 'hyp', shards=16, examples={'quick': 600, 'thorough': 40000},
             strategy=strat_expr),
        Unit('for-loop', 'hyp', shards=16, examples={'quick': 120, 'thorough': 6000},
             strategy=strat_for),
    ]
    if tier == 'thorough':
        us.append(Unit('bytelattice-api', 'bulk', shards=16, run=run_bytelattice))
    return us


REGRESSIONS = [
    {'u': 'seq', 'a': 17, 'b': 5, 'ops': ['\\', 'MOD', 'IDENT', 'AND'], 'form': 'scalar', 'stmt': False},
    {'u': 'seq', 'a': -32767, 'b': 7, 'ops': ['IDENT', 'MOD', '\\'], 'form': 'array', 'stmt': True},
    {'u': 'seq', 'a': 300, 'b': -7, 'ops': ['MOD', '\\', 'IDENT'], 'form': 'defint', 'stmt': False},
    {'u': 'seq', 'a': 9, 'b': 9, 'ops': ['\\', 'XOR', 'IMP'], 'form': 'same', 'stmt': False},
    {'u': 'bin', 'op': '\\', 'a': -32768, 'b': -1, 'route': 'eval'},
    {'u': 'bin', 'op': 'MOD', 'a': -7, 'b': 2, 'route': 'eval'},
    {'u': 'for', 's': 32760, 'e': 32767, 'd': 3, 'split': True},
    # fixed 51068ba5: negative overflow of the counter was not detected
    {'u': 'for', 's': -50, 'e': -32768, 'd': -256, 'split': False},
    {'u': 'for', 's': -32767, 'e': -32768, 'd': -2, 'split': True},
]
